(* Proofs about the begin-block model (property C05): from every state satisfying the
   invariant [Inv], and after every history of valid operations and blocks with
   non-decreasing block time, begin-block processing does not panic. *)
From Coq Require Import ZArith NArith List Bool Lia.
From JK Require Import Base.Dec Model.Mint Model.BeginBlock Proofs.MintProofs.
Import ListNotations.
Open Scope Z_scope.

Definition B62 : Z := 2 ^ 62.
Lemma B62_val : B62 = 4611686018427387904. Proof. reflexivity. Qed.
Lemma max_dur_val : max_dur = 9223372036854775807. Proof. reflexivity. Qed.
Lemma int64_max_val : int64_max = 9223372036854775807. Proof. reflexivity. Qed.
Lemma int64_min_val : int64_min = -9223372036854775808. Proof. reflexivity. Qed.
Global Opaque B62 max_dur int64_max int64_min.


(* ------------------------------------------------------------------ durations *)

Lemma dur_mono_l a a' b : a <= a' -> dur a b <= dur a' b.
Proof.
  intros H. unfold dur. rewrite max_dur_val.
  repeat match goal with |- context [?x <? ?y] => destruct (Z.ltb_spec x y) end; lia.
Qed.

Lemma dur_anti_r a b b' : b <= b' -> dur a b' <= dur a b.
Proof.
  intros H. unfold dur. rewrite max_dur_val.
  repeat match goal with |- context [?x <? ?y] => destruct (Z.ltb_spec x y) end; lia.
Qed.

Lemma dur_nonneg a b : b <= a -> 0 <= dur a b.
Proof.
  intros H. unfold dur. rewrite max_dur_val.
  repeat match goal with |- context [?x <? ?y] => destruct (Z.ltb_spec x y) end; lia.
Qed.

Lemma micros_mono x y : x <= y -> micros x <= micros y.
Proof. intros. unfold micros. apply Z.quot_le_mono; lia. Qed.

Lemma micros_nonneg x : 0 <= x -> 0 <= micros x.
Proof. intros. unfold micros. apply Z.quot_pos; lia. Qed.

(* End at least a microsecond after Start: the total is at least one microsecond *)
Lemma total_positive s e : 1000 <= e - s -> 0 < micros (dur e s).
Proof.
  intros Hge.
  assert (1000 <= dur e s) as Hd.
  { unfold dur. rewrite max_dur_val.
    repeat match goal with |- context [?x <? ?y] => destruct (Z.ltb_spec x y) end; lia. }
  unfold micros. rewrite Z.quot_div_nonneg by lia.
  assert (1 <= dur e s / 1000) by (apply Z.div_le_lower_bound; lia). lia.
Qed.

(* ------------------------------------------------------------------ the time ratio *)

(* dquo (dec l) (dec T) for 0 <= l, 0 < T *)
Lemma dquo_dec_dec l T : 0 <= l -> 0 < T -> dquo (dec l) (dec T) = chop_nn ((l * P18 * P18) / T).
Proof.
  intros Hl HT. pose proof P18_pos as HP. unfold dec.
  rewrite dquo_nonneg by nia. f_equal.
  replace (l * P18 * P18 * P18) with ((l * P18 * P18) * P18) by ring.
  apply Z.div_mul_cancel_r; lia.
Qed.

Lemma frac_mono l l' T : 0 <= l <= l' -> 0 < T -> dquo (dec l) (dec T) <= dquo (dec l') (dec T).
Proof.
  intros [H0 Hl] HT. pose proof P18_pos as HP.
  rewrite !dquo_dec_dec by lia. apply chop_nn_mono. split.
  - apply Z.div_pos; nia.
  - apply Z.div_le_mono; nia.
Qed.

Lemma frac_bounds l T : 0 <= l <= T -> 0 < T -> 0 <= dquo (dec l) (dec T) <= P18.
Proof.
  intros [H0 Hl] HT. pose proof P18_pos as HP. rewrite dquo_dec_dec by lia. split.
  - apply chop_nn_nonneg. apply Z.div_pos; nia.
  - apply Z.le_trans with (chop_nn (P18 * P18)); [|rewrite chop_nn_exact by lia; lia].
    apply chop_nn_mono. split.
    + apply Z.div_pos; nia.
    + apply Z.div_le_upper_bound; [lia|]. nia.
Qed.

(* would_be is monotone in the ratio and bounded by the recorded amount *)
Lemma would_be_eq r amt : 0 <= r -> 0 <= amt -> would_be r amt = chop_nn (r * (amt * P18)).
Proof. intros. unfold would_be. pose proof P18_pos. apply dmul_nonneg; [lia | unfold dec; nia]. Qed.

Lemma would_be_mono r r' amt : 0 <= r <= r' -> 0 <= amt -> would_be r amt <= would_be r' amt.
Proof.
  intros [H0 Hr] Ha. pose proof P18_pos. rewrite !would_be_eq by lia.
  assert (0 <= amt * P18) by nia. set (x := amt * P18) in *.
  apply chop_nn_mono. split; nia.
Qed.

Lemma would_be_mono_amt r amt amt' : 0 <= r -> 0 <= amt <= amt' -> would_be r amt <= would_be r amt'.
Proof.
  intros Hr [H0 Ha]. pose proof P18_pos. rewrite !would_be_eq by lia.
  assert (0 <= amt * P18 <= amt' * P18) by nia. set (x := amt * P18) in *. set (y := amt' * P18) in *.
  apply chop_nn_mono. split; nia.
Qed.

Lemma would_be_nonneg r amt : 0 <= r -> 0 <= amt -> 0 <= would_be r amt.
Proof.
  intros. pose proof P18_pos. rewrite would_be_eq by lia. apply chop_nn_nonneg.
  assert (0 <= amt * P18) by nia. nia.
Qed.

Lemma would_be_le_amt r amt : 0 <= r <= P18 -> 0 <= amt -> would_be r amt <= dec amt.
Proof.
  intros [H0 Hr] Ha. pose proof P18_pos. rewrite would_be_eq by lia.
  unfold dec. apply Z.le_trans with (chop_nn ((amt * P18) * P18)); [|rewrite chop_nn_exact by nia; lia].
  assert (0 <= amt * P18) by nia. set (x := amt * P18) in *.
  apply chop_nn_mono. split; nia.
Qed.

(* the ratio of a gauge at a time inside its interval *)
Definition left_of (g : bgauge) (t : Z) : Z := micros (dur (g_end g) t).
Definition total_of (g : bgauge) : Z := micros (dur (g_end g) (g_start g)).
Definition ratio_at (g : bgauge) (t : Z) : Z := dec 1 - dquo (dec (left_of g t)) (dec (total_of g)).

Lemma ratio_at_ext g' g t : g_start g' = g_start g -> g_end g' = g_end g -> ratio_at g' t = ratio_at g t.
Proof. intros Hs He. unfold ratio_at, left_of, total_of. rewrite Hs, He. reflexivity. Qed.

Lemma time_ratio_some g t : 0 < total_of g -> time_ratio g t = Some (ratio_at g t).
Proof.
  intros H. unfold time_ratio, ratio_at, left_of, total_of in *.
  destruct (Z.eqb_spec (micros (dur (g_end g) (g_start g))) 0); [lia | reflexivity].
Qed.

Lemma left_bounds g t : g_start g <= t <= g_end g -> 0 <= left_of g t <= total_of g.
Proof.
  intros [Hs He]. unfold left_of, total_of. split.
  - apply micros_nonneg. apply dur_nonneg. exact He.
  - apply micros_mono. apply dur_anti_r. exact Hs.
Qed.

Lemma ratio_bounds g t : 0 < total_of g -> g_start g <= t <= g_end g -> 0 <= ratio_at g t <= P18.
Proof.
  intros HT Ht. pose proof (left_bounds g t Ht) as Hl.
  pose proof (frac_bounds (left_of g t) (total_of g) Hl HT) as Hq.
  unfold ratio_at. set (q := dquo _ _) in *. unfold dec. lia.
Qed.

Lemma ratio_mono g t t' : 0 < total_of g -> g_start g <= t -> t <= t' -> t' <= g_end g ->
  ratio_at g t <= ratio_at g t'.
Proof.
  intros HT Hs Htt He.
  assert (0 <= left_of g t' <= left_of g t) as Hl.
  { split; [apply (left_bounds g t'); lia|]. unfold left_of. apply micros_mono. apply dur_anti_r. exact Htt. }
  pose proof (frac_mono (left_of g t') (left_of g t) (total_of g) Hl HT).
  unfold ratio_at. lia.
Qed.

(* ------------------------------------------------------------------ invariant *)

Definition file_ok (f : bfile) : Prop := 1 <= bf_interval f.

Definition coin_basic (c : gcoin) : Prop :=
  gc_denom_ok c = true /\ 0 <= gc_bal c < B62 /\ 0 <= gc_amt c < B62.

(* what has left the escrow so far never exceeds what the schedule allows at ratio r *)
Definition coin_sched (r : Z) (c : gcoin) : Prop := dec (gc_amt c - gc_bal c) <= would_be r (gc_amt c).

Definition gauge_ok (t : Z) (g : bgauge) : Prop :=
  (g_start g < g_end g -> 1000 <= g_end g - g_start g) /\ g_start g <= t /\ Forall coin_basic (g_coins g) /\
  (t <= g_end g -> g_start g < g_end g -> Forall (coin_sched (ratio_at g t)) (g_coins g)).

Definition Inv (b : bstate) : Prop :=
  1 <= ss_check_window (b_s b) /\ 1 <= b_proof_window b /\
  Forall file_ok (ss_files (b_s b)) /\ Forall (gauge_ok (b_now b)) (ss_gauges (b_s b)).

Lemma gauge_total_pos g : (g_start g < g_end g -> 1000 <= g_end g - g_start g) -> g_start g < g_end g -> 0 < total_of g.
Proof. intros H1 H2. unfold total_of. apply total_positive. exact (H1 H2). Qed.

Lemma gauge_ok_mono t t' g : gauge_ok t g -> t <= t' -> gauge_ok t' g.
Proof.
  intros (Hm & Hs & Hb & Hc) Htt. repeat split; try assumption; try lia.
  intros He Hse. specialize (Hc ltac:(lia) Hse).
  pose proof (gauge_total_pos g Hm Hse) as HT.
  rewrite Forall_forall in *. intros c Hin. specialize (Hc c Hin). specialize (Hb c Hin).
  destruct Hb as (_ & _ & Ha). unfold coin_sched in *.
  eapply Z.le_trans; [exact Hc|]. apply would_be_mono; [|lia]. split.
  - apply (ratio_bounds g t HT). lia.
  - apply ratio_mono; try assumption; lia.
Qed.

(* ------------------------------------------------------------------ files never panic *)

Lemma manage_slot_safe f h s : file_ok f -> exists v, manage_slot f h s = Done v.
Proof.
  intros Hf. unfold manage_slot, rounded_window, file_ok in *.
  destruct (negb (is_young f h) && negb (sl_found s)); [eexists; reflexivity|].
  destruct (Z.eqb_spec (bf_interval f) 0); [lia|].
  destruct (negb _ && negb _); eexists; reflexivity.
Qed.

Lemma manage_slots_safe f h l : file_ok f -> exists l', manage_slots f h l = Done l'.
Proof.
  intros Hf. induction l as [|s r [r' IH]]; cbn [manage_slots]; [eexists; reflexivity|].
  destruct (manage_slot_safe f h s Hf) as [v ->]. rewrite IH. eexists; reflexivity.
Qed.

Lemma manage_file_safe h f : file_ok f ->
  exists o, manage_file h f = Done o /\ (forall f', o = Some f' -> file_ok f').
Proof.
  intros Hf. unfold manage_file. destruct (bf_slots f) as [|s r] eqn:E.
  - destruct (is_young f h); eexists; split; try reflexivity; intros f' [=]; subst; exact Hf.
  - destruct (manage_slots_safe f h (s :: r) Hf) as [l' ->].
    eexists; split; [reflexivity|]. intros f' [=]; subst. exact Hf.
Qed.

Lemma manage_files_safe h fs : Forall file_ok fs ->
  exists fs', manage_files h fs = Done fs' /\ Forall file_ok fs'.
Proof.
  induction fs as [|f r IH]; intros HF; cbn [manage_files]; [eexists; split; [reflexivity|constructor]|].
  inversion HF as [|? ? Hf Hr]; subst.
  destruct (manage_file_safe h f Hf) as (o & -> & Ho).
  destruct (IH Hr) as (r' & -> & Hr').
  eexists; split; [reflexivity|]. destruct o as [f'|]; [constructor; [apply Ho; reflexivity | exact Hr'] | exact Hr'].
Qed.

(* ------------------------------------------------------------------ gauges never panic *)

Lemma dec_trunc_le x : 0 <= x -> dec (dtrunc x) <= x.
Proof.
  intros Hx. pose proof P18_pos as HP. rewrite dtrunc_nonneg by lia. unfold dec.
  pose proof (Z.div_mod x P18 ltac:(lia)). pose proof (Z.mod_pos_bound x P18 ltac:(lia)). lia.
Qed.

Lemma pull_coin_safe r c :
  0 <= r <= P18 -> coin_basic c -> coin_sched r c ->
  exists c' a, pull_coin r c = Done (c', a) /\ coin_basic c' /\ coin_sched r c' /\ gc_amt c' = gc_amt c.
Proof.
  intros Hr (Hd & Hb & Ha) Hs. unfold coin_sched in Hs.
  pose proof P18_pos as HP. pose proof (would_be_le_amt r (gc_amt c) Hr ltac:(lia)) as HW.
  unfold pull_coin.
  set (W := would_be r (gc_amt c)) in *. set (D := dec (gc_amt c - gc_bal c)) in *.
  assert (0 <= W - D) as Hnb by lia.
  assert (W - D <= dec (gc_bal c)) as Hub by (unfold D, dec in *; lia).
  assert (0 <= dtrunc (W - D) <= gc_bal c) as Ht.
  { rewrite dtrunc_nonneg by lia. split; [apply Z.div_pos; lia|].
    apply Z.div_le_upper_bound; [lia|]. unfold dec in Hub. lia. }
  unfold dtrunc64. rewrite B62_val in *.
  assert (in_int64 (dtrunc (W - D)) = true) as ->.
  { apply in_int64_iff. rewrite int64_min_val, int64_max_val. lia. }
  destruct (Z.eqb_spec (dtrunc (W - D)) 0) as [E0|N0].
  - exists c, 0. repeat split; try assumption; try lia. rewrite B62_val; lia. rewrite B62_val; lia.
  - destruct (Z.ltb_spec (dtrunc (W - D)) 0); [lia|]. rewrite Hd. cbn [negb orb].
    destruct (Z.leb_spec (dtrunc (W - D)) (gc_bal c)); [|lia].
    eexists _, _. split; [reflexivity|]. unfold coin_basic, coin_sched. cbn [gc_amt gc_bal gc_denom_ok].
    fold W. pose proof (dec_trunc_le (W - D) Hnb) as Hdt.
    repeat split; try reflexivity; try (rewrite B62_val; lia); try lia.
    unfold D, dec in *. lia.
Qed.

Lemma pull_coins_safe r cs :
  0 <= r <= P18 -> Forall coin_basic cs -> Forall (coin_sched r) cs ->
  exists cs' a, pull_coins r cs = Done (cs', a) /\ Forall coin_basic cs' /\ Forall (coin_sched r) cs'.
Proof.
  intros Hr. induction cs as [|c rest IH]; intros HB HS; cbn [pull_coins].
  - exists [], 0. repeat split; constructor.
  - inversion HB as [|? ? Hb Hbr]; inversion HS as [|? ? Hs Hsr]; subst.
    destruct (pull_coin_safe r c Hr Hb Hs) as (c' & a & -> & Hb' & Hs' & _).
    destruct (IH Hbr Hsr) as (cs' & a' & -> & HB' & HS').
    eexists _, _. split; [reflexivity|]. split; constructor; assumption.
Qed.

Lemma pull_gauge_safe t now g : gauge_ok t g -> t <= now ->
  exists o a, pull_gauge now g = Done (o, a) /\ (forall g', o = Some g' -> gauge_ok now g').
Proof.
  intros Hg Htn. pose proof (gauge_ok_mono t now g Hg Htn) as (Hm & Hs & Hb & Hc).
  unfold pull_gauge.
  destruct (Z.ltb_spec (g_end g) now); [exists None, 0; split; [reflexivity | intros ? [=]]|].
  destruct (Z.leb_spec (g_end g) (g_start g)); [exists None, 0; split; [reflexivity | intros ? [=]]|].
  destruct (g_acct_ok g); cbn [negb].
  2:{ exists (Some g), 0. split; [reflexivity|]. intros g' [=]; subst g'. repeat split; assumption. }
  destruct (escrow_empty g); [exists None, 0; split; [reflexivity | intros ? [=]]|].
  pose proof (gauge_total_pos g Hm ltac:(lia)) as HT.
  rewrite (time_ratio_some g now HT).
  pose proof (ratio_bounds g now HT ltac:(lia)) as Hr.
  specialize (Hc ltac:(lia) ltac:(lia)).
  destruct (pull_coins_safe (ratio_at g now) (g_coins g) Hr Hb Hc) as (cs' & a & -> & HB' & HS').
  eexists _, _. split; [reflexivity|]. intros g' [=]; subst g'.
  unfold gauge_ok. cbn [g_start g_end g_coins]. repeat split; try assumption.
  intros _ _. exact HS'.
Qed.

Lemma pull_gauges_safe t now gs : Forall (gauge_ok t) gs -> t <= now ->
  exists gs' a, pull_gauges now gs = Done (gs', a) /\ Forall (gauge_ok now) gs'.
Proof.
  intros HG Htn. induction gs as [|g r IH]; cbn [pull_gauges].
  - exists [], 0. split; [reflexivity | constructor].
  - inversion HG as [|? ? Hg Hr]; subst.
    destruct (pull_gauge_safe t now g Hg Htn) as (o & a & -> & Ho).
    destruct (IH Hr) as (r' & a' & -> & Hr').
    eexists _, _. split; [reflexivity|].
    destruct o as [g'|]; [constructor; [apply Ho; reflexivity | exact Hr'] | exact Hr'].
Qed.

(* ------------------------------------------------------------------ the reward block *)

Lemma reward_block_safe b h now : Inv b -> b_now b <= now ->
  exists s' a, reward_block h now (b_s b) = Done (s', a) /\
    Inv {| b_s := s'; b_proof_window := b_proof_window b; b_height := h; b_now := now |}.
Proof.
  intros (Hcw & Hpw & HF & HG) Htn. unfold reward_block.
  destruct (Z.eqb_spec (ss_check_window (b_s b)) 0); [lia|].
  destruct (0 <? Z.rem h (ss_check_window (b_s b))).
  - eexists _, _. split; [reflexivity|]. unfold Inv; cbn. repeat split; try assumption.
    eapply Forall_impl; [|exact HG]. intros g Hg. exact (gauge_ok_mono _ _ g Hg Htn).
  - destruct (manage_files_safe h _ HF) as (fs' & -> & HF').
    destruct (pull_gauges_safe _ now _ HG Htn) as (gs' & a & -> & HG').
    eexists _, _. split; [reflexivity|]. unfold Inv; cbn. repeat split; assumption.
Qed.

(* ------------------------------------------------------------------ operations *)

Definition valid_op (b : bstate) (o : bop) : Prop :=
  match o with
  | OpNewGauge e amt dok => dok = true /\ 0 <= amt < B62 /\ (b_now b < e -> 1000 <= e - b_now b)
  | OpTopUpGauge i amt => 0 <= amt /\
      forall g, nth_error (ss_gauges (b_s b)) i = Some g ->
        Forall (fun c => gc_amt c + amt < B62 /\ gc_bal c + amt < B62) (g_coins g)
  | OpDonate i j amt => 0 <= amt /\
      forall g c, nth_error (ss_gauges (b_s b)) i = Some g -> nth_error (g_coins g) j = Some c -> gc_bal c + amt < B62
  | OpSetWindows cw pw => 1 < cw /\ 1 < pw
  | _ => True
  end.

Lemma Forall_upd {A} (P : A -> Prop) l i f :
  Forall P l -> (forall x, nth_error l i = Some x -> P x -> P (f x)) -> Forall P (upd l i f).
Proof.
  revert i. induction l as [|x r IH]; intros i HF Hf; cbn [upd]; [destruct i; constructor|].
  inversion HF as [|? ? Hx Hr]; subst. destruct i as [|j].
  - constructor; [apply Hf; [reflexivity | exact Hx] | exact Hr].
  - constructor; [exact Hx|]. apply IH; [exact Hr|]. intros y Hy. apply Hf. exact Hy.
Qed.

Lemma Forall_del {A} (P : A -> Prop) l i : Forall P l -> Forall P (del l i).
Proof.
  revert i. induction l as [|x r IH]; intros i HF; cbn [del]; [destruct i; constructor|].
  inversion HF; subst. destruct i; [assumption | constructor; [assumption | apply IH; assumption]].
Qed.

Lemma Forall_app_one {A} (P : A -> Prop) l x : Forall P l -> P x -> Forall P (l ++ [x]).
Proof. intros. apply Forall_app. split; [assumption | constructor; [assumption | constructor]]. Qed.

Lemma apply_op_inv b o : Inv b -> valid_op b o -> Inv (apply_op b o).
Proof.
  intros (Hcw & Hpw & HF & HG) Hv. pose proof P18_pos as HP.
  destruct o as [size | i found | i j | i j | i | e amt dok | i amt | i j amt | i | cw pw]; cbn [apply_op];
    unfold Inv, with_files, with_gauges; cbn [b_s b_proof_window b_now b_height ss_check_window ss_files ss_gauges].
  - (* PostFile *) repeat split; try assumption. apply Forall_app_one; [exact HF|]. unfold file_ok; cbn. exact Hpw.
  - repeat split; try assumption. apply Forall_upd; [exact HF|]. intros f _ Hf. exact Hf.
  - repeat split; try assumption. apply Forall_upd; [exact HF|]. intros f _ Hf. exact Hf.
  - repeat split; try assumption. apply Forall_upd; [exact HF|]. intros f _ Hf. exact Hf.
  - repeat split; try assumption. apply Forall_del. exact HF.
  - (* NewGauge *) destruct Hv as (-> & Ha & Hm). repeat split; try assumption.
    apply Forall_app_one; [exact HG|]. unfold gauge_ok; cbn [g_start g_end g_coins].
    repeat split; try assumption; try lia.
    + constructor; [|constructor]. unfold coin_basic; cbn. repeat split; lia.
    + intros He Hse. constructor; [|constructor]. unfold coin_sched; cbn [gc_amt gc_bal].
      replace (amt - amt) with 0 by ring. unfold dec at 1. cbn.
      apply would_be_nonneg; [|lia].
      set (g := {| g_start := b_now b; g_end := e; g_acct_ok := true; g_other := false;
                   g_coins := [{| gc_amt := amt; gc_bal := amt; gc_denom_ok := true |}] |}).
      assert (0 < total_of g) by (apply gauge_total_pos; cbn; assumption).
      apply (ratio_bounds g (b_now b)); [assumption | cbn; lia].
  - (* TopUp *) destruct Hv as (Ha & Hb). repeat split; try assumption.
    apply Forall_upd; [exact HG|]. intros g Hn (Hm & Hs & Hbs & Hc).
    destruct (Z.eqb_spec (g_start g) (b_now b)) as [Es|]; [|repeat split; assumption].
    specialize (Hb g Hn). unfold gauge_ok, set_coins; cbn [g_start g_end g_coins]. repeat split; try assumption.
    + rewrite Forall_forall in *. intros c' Hin. apply in_map_iff in Hin as (c & <- & Hin).
      specialize (Hbs c Hin). specialize (Hb c Hin). unfold coin_basic in *; cbn. intuition lia.
    + intros He Hse. specialize (Hc He Hse).
      rewrite (ratio_at_ext _ g) by reflexivity.
      pose proof (gauge_total_pos g Hm Hse) as HT.
      pose proof (ratio_bounds g (b_now b) HT ltac:(lia)) as Hr.
      rewrite Forall_forall in *. intros c' Hin. apply in_map_iff in Hin as (c & <- & Hin).
      specialize (Hc c Hin). specialize (Hbs c Hin). unfold coin_sched in *; cbn [gc_amt gc_bal].
      replace (gc_amt c + amt - (gc_bal c + amt)) with (gc_amt c - gc_bal c) by ring.
      eapply Z.le_trans; [exact Hc|]. apply would_be_mono_amt; [lia|]. unfold coin_basic in Hbs. lia.
  - (* Donate *) destruct Hv as (Ha & Hb). repeat split; try assumption.
    apply Forall_upd; [exact HG|]. intros g Hn (Hm & Hs & Hbs & Hc).
    unfold gauge_ok, set_coins; cbn [g_start g_end g_coins]. repeat split; try assumption.
    + apply Forall_upd; [exact Hbs|]. intros c Hnc Hc0. specialize (Hb g c Hn Hnc).
      unfold coin_basic in *; cbn. intuition lia.
    + intros He Hse. specialize (Hc He Hse).
      rewrite (ratio_at_ext _ g) by reflexivity.
      apply Forall_upd; [exact Hc|]. intros c _ Hc0. unfold coin_sched in *; cbn [gc_amt gc_bal].
      unfold dec in *. nia.
  - (* DonateOther *) repeat split; try assumption.
    apply Forall_upd; [exact HG|]. intros g _ Hg. exact Hg.
  - (* SetWindows *) destruct Hv. repeat split; try assumption; lia.
Qed.

Fixpoint ops_valid (b : bstate) (os : list bop) : Prop :=
  match os with [] => True | o :: r => valid_op b o /\ ops_valid (apply_op b o) r end.

Lemma apply_ops_inv os : forall b, Inv b -> ops_valid b os -> Inv (fold_left apply_op os b).
Proof.
  induction os as [|o r IH]; intros b HI HV; cbn [fold_left]; [exact HI|].
  destruct HV as [Hv Hr]. apply IH; [apply apply_op_inv; assumption | exact Hr].
Qed.

(* a chain of blocks is admissible when block time never decreases and every operation of
   every block is valid in the state it is applied to *)
Fixpoint chain_valid (b : bstate) (ks : list block) : Prop :=
  match ks with
  | [] => True
  | k :: r =>
    b_now b <= bl_time k /\
    forall s' a, reward_block (bl_height k) (bl_time k) (b_s b) = Done (s', a) ->
      let b1 := {| b_s := s'; b_proof_window := b_proof_window b; b_height := bl_height k; b_now := bl_time k |} in
      ops_valid b1 (bl_ops k) /\ chain_valid (fold_left apply_op (bl_ops k) b1) r
  end.

Theorem chain_never_panics ks : forall b, Inv b -> chain_valid b ks ->
  exists b', run_chain b ks = Done b' /\ Inv b'.
Proof.
  induction ks as [|k r IH]; intros b HI HV; cbn [run_chain]; [exists b; split; [reflexivity | exact HI]|].
  destruct HV as [Ht Hk].
  destruct (reward_block_safe b (bl_height k) (bl_time k) HI Ht) as (s' & a & E & HI1).
  unfold run_block. rewrite E. destruct (Hk s' a E) as [Hops Hrest].
  apply IH; [apply apply_ops_inv; assumption | exact Hrest].
Qed.

Corollary begin_block_never_panics ks k : forall b, Inv b -> chain_valid b (ks ++ [k]) ->
  exists b', run_chain b ks = Done b' /\ reward_block (bl_height k) (bl_time k) (b_s b') <> Panic.
Proof.
  intros b HI HV. revert b HI HV. induction ks as [|k0 r IH]; intros b HI HV; cbn [app run_chain] in *.
  - exists b. split; [reflexivity|]. destruct HV as [Ht _].
    destruct (reward_block_safe b (bl_height k) (bl_time k) HI Ht) as (s' & a & E & _). rewrite E. discriminate.
  - destruct HV as [Ht Hk].
    destruct (reward_block_safe b (bl_height k0) (bl_time k0) HI Ht) as (s' & a & E & HI1).
    unfold run_block. rewrite E. destruct (Hk s' a E) as [Hops Hrest].
    apply IH; [apply apply_ops_inv; assumption | exact Hrest].
Qed.

(* ------------------------------------------------------------------ mint *)

Definition mint_ok_state (p : mparams) (s : mstate) : Prop :=
  0 <= tokens_per_block p < B62 /\ mint_decrease p < B62 /\
  match m_last s with Some m => 0 <= m < B62 | None => True end.

Lemma share64_ok r e : 0 <= r <= 100 -> 0 <= e < B62 -> exists x, share64 r e = Some x /\ 0 <= x.
Proof.
  intros Hr He. unfold share64. fold (share r e) in *.
  assert (dtrunc (dmul_int (dquo_int (dec r) 100) e) = share r e) as Es by reflexivity.
  unfold dtrunc64. rewrite Es. pose proof (share_bounds r e ltac:(lia) ltac:(lia)) as (H0 & Hlo & Hhi).
  rewrite B62_val in *.
  assert (in_int64 (share r e) = true) as ->.
  { apply in_int64_iff. rewrite int64_min_val, int64_max_val. nia. }
  eexists; split; [reflexivity | exact H0].
Qed.

Theorem mint_never_panics p s sp : valid_params p -> mint_ok_state p s -> mint_panics true sp p s = false.
Proof.
  intros (Ht & Hd & Hs & Hdv & Hpr & Hsum & _) (Htb & Hdb & Hl).
  unfold mint_panics.
  set (prev := match m_last s with Some m => m | None => tokens_per_block p end).
  assert (0 <= prev < B62) as Hp by (unfold prev; destruct (m_last s); lia).
  pose proof (mint_for_block_bounds prev bpy (mint_decrease p) ltac:(lia) ltac:(reflexivity) Hd) as Hm.
  unfold mint_for_block, mint_for_block_raw in Hm.
  set (raw := dtrunc (dec prev - dquo (dec (mint_decrease p)) (dec bpy))) in *.
  pose proof P18_pos as HP.
  pose proof (decrease_nonneg (mint_decrease p) bpy Hd ltac:(reflexivity)) as Hq0.
  assert (dquo (dec (mint_decrease p)) (dec bpy) <= dec (mint_decrease p)) as Hq1.
  { rewrite dquo_dec_dec by (try reflexivity; lia).
    apply Z.le_trans with (chop_nn ((mint_decrease p * P18) * P18)); [|rewrite chop_nn_exact by nia; unfold dec; lia].
    assert (0 <= mint_decrease p * P18) by nia. set (x := mint_decrease p * P18) in *.
    assert (0 <= x * P18) by nia.
    apply chop_nn_mono. split; [apply Z.div_pos; [lia | reflexivity]|].
    apply Z.div_le_upper_bound; [reflexivity|]. unfold bpy. nia. }
  set (q := dquo (dec (mint_decrease p)) (dec bpy)) in *.
  assert (raw <= prev) as Hle.
  { unfold raw, dtrunc. rewrite <- (Z.quot_mul prev P18) at 2 by lia. apply Z.quot_le_mono; [lia | unfold dec; lia]. }
  assert (- B62 <= raw) as Hge.
  { unfold raw, dtrunc. rewrite <- (Z.quot_mul (- B62) P18) by lia. apply Z.quot_le_mono; [lia|].
    unfold dec in *. rewrite B62_val in *. nia. }
  unfold dtrunc64. fold raw.
  assert (in_int64 raw = true) as ->.
  { apply in_int64_iff. rewrite int64_min_val, int64_max_val. rewrite B62_val in *. lia. }
  set (e := if raw <? 0 then 0 else raw) in *.
  assert (0 <= e < B62) as He by (unfold e; destruct (Z.ltb_spec raw 0); lia).
  destruct (Z.ltb_spec e 0); [lia|]. cbn [negb orb].
  destruct (share64_ok (staker_ratio p) e ltac:(lia) He) as (x1 & -> & Hx1).
  destruct (Z.ltb_spec x1 0); [lia|].
  destruct (pay _ _ _ _); [|reflexivity].
  destruct (share64_ok (dev_ratio p) e ltac:(lia) He) as (x2 & -> & Hx2).
  destruct (Z.ltb_spec x2 0); [lia|].
  destruct (pay _ _ _ _); [|reflexivity].
  destruct sp; [|reflexivity]. cbn [negb].
  destruct (share64_ok (prov_ratio p) e ltac:(lia) He) as (x3 & -> & Hx3).
  destruct (Z.ltb_spec x3 0); [lia | reflexivity].
Qed.
