(* Proofs about the begin-block model (property C05): from every state satisfying the
   invariant [Inv], and after every history of valid operations and blocks with
   non-decreasing block time, begin-block processing does not panic. *)
From Coq Require Import ZArith NArith List Bool Lia.
From JK Require Import Base.Dec Model.Mint Model.BeginBlock Proofs.MintProofs.
Import ListNotations.
Open Scope Z_scope.

Definition B62 : Z := 2 ^ 62.
Lemma B62_val : B62 = 4611686018427387904. Proof. reflexivity. Qed.
Lemma max_dur_val : max_dur = 9223372036854775807. Proof. reflexivity. Qed.
Lemma int64_max_val : int64_max = 9223372036854775807. Proof. reflexivity. Qed.
Lemma int64_min_val : int64_min = -9223372036854775808. Proof. reflexivity. Qed.
Global Opaque B62 max_dur int64_max int64_min.


(* ------------------------------------------------------------------ durations *)

Lemma dur_mono_l a a' b : a <= a' -> dur a b <= dur a' b.
Proof.
  intros H. unfold dur. rewrite max_dur_val.
  repeat match goal with |- context [?x <? ?y] => destruct (Z.ltb_spec x y) end; lia.
Qed.

Lemma dur_anti_r a b b' : b <= b' -> dur a b' <= dur a b.
Proof.
  intros H. unfold dur. rewrite max_dur_val.
  repeat match goal with |- context [?x <? ?y] => destruct (Z.ltb_spec x y) end; lia.
Qed.

Lemma dur_nonneg a b : b <= a -> 0 <= dur a b.
Proof.
  intros H. unfold dur. rewrite max_dur_val.
  repeat match goal with |- context [?x <? ?y] => destruct (Z.ltb_spec x y) end; lia.
Qed.

Lemma micros_mono x y : x <= y -> micros x <= micros y.
Proof. intros. unfold micros. apply Z.quot_le_mono; lia. Qed.

Lemma micros_nonneg x : 0 <= x -> 0 <= micros x.
Proof. intros. unfold micros. apply Z.quot_pos; lia. Qed.

(* End at least a microsecond after Start: the total is at least one microsecond *)
Lemma total_positive s e : 1000 <= e - s -> 0 < micros (dur e s).
Proof.
  intros Hge.
  assert (1000 <= dur e s) as Hd.
  { unfold dur. rewrite max_dur_val.
    repeat match goal with |- context [?x <? ?y] => destruct (Z.ltb_spec x y) end; lia. }
  unfold micros. rewrite Z.quot_div_nonneg by lia.
  assert (1 <= dur e s / 1000) by (apply Z.div_le_lower_bound; lia). lia.
Qed.

(* ------------------------------------------------------------------ the time ratio *)

(* dquo (dec l) (dec T) for 0 <= l, 0 < T *)
Lemma dquo_dec_dec l T : 0 <= l -> 0 < T -> dquo (dec l) (dec T) = chop_nn ((l * P18 * P18) / T).
Proof.
  intros Hl HT. pose proof P18_pos as HP. unfold dec.
  rewrite dquo_nonneg by nia. f_equal.
  replace (l * P18 * P18 * P18) with ((l * P18 * P18) * P18) by ring.
  apply Z.div_mul_cancel_r; lia.
Qed.

Lemma frac_mono l l' T : 0 <= l <= l' -> 0 < T -> dquo (dec l) (dec T) <= dquo (dec l') (dec T).
Proof.
  intros [H0 Hl] HT. pose proof P18_pos as HP.
  rewrite !dquo_dec_dec by lia. apply chop_nn_mono. split.
  - apply Z.div_pos; nia.
  - apply Z.div_le_mono; nia.
Qed.

Lemma frac_bounds l T : 0 <= l <= T -> 0 < T -> 0 <= dquo (dec l) (dec T) <= P18.
Proof.
  intros [H0 Hl] HT. pose proof P18_pos as HP. rewrite dquo_dec_dec by lia. split.
  - apply chop_nn_nonneg. apply Z.div_pos; nia.
  - apply Z.le_trans with (chop_nn (P18 * P18)); [|rewrite chop_nn_exact by lia; lia].
    apply chop_nn_mono. split.
    + apply Z.div_pos; nia.
    + apply Z.div_le_upper_bound; [lia|]. nia.
Qed.

(* would_be is monotone in the ratio and bounded by the recorded amount *)
Lemma would_be_eq r amt : 0 <= r -> 0 <= amt -> would_be r amt = chop_nn (r * (amt * P18)).
Proof. intros. unfold would_be. pose proof P18_pos. apply dmul_nonneg; [lia | unfold dec; nia]. Qed.

Lemma would_be_mono r r' amt : 0 <= r <= r' -> 0 <= amt -> would_be r amt <= would_be r' amt.
Proof.
  intros [H0 Hr] Ha. pose proof P18_pos. rewrite !would_be_eq by lia.
  assert (0 <= amt * P18) by nia. set (x := amt * P18) in *.
  apply chop_nn_mono. split; nia.
Qed.

Lemma would_be_mono_amt r amt amt' : 0 <= r -> 0 <= amt <= amt' -> would_be r amt <= would_be r amt'.
Proof.
  intros Hr [H0 Ha]. pose proof P18_pos. rewrite !would_be_eq by lia.
  assert (0 <= amt * P18 <= amt' * P18) by nia. set (x := amt * P18) in *. set (y := amt' * P18) in *.
  apply chop_nn_mono. split; nia.
Qed.

Lemma would_be_nonneg r amt : 0 <= r -> 0 <= amt -> 0 <= would_be r amt.
Proof.
  intros. pose proof P18_pos. rewrite would_be_eq by lia. apply chop_nn_nonneg.
  assert (0 <= amt * P18) by nia. nia.
Qed.

Lemma would_be_le_amt r amt : 0 <= r <= P18 -> 0 <= amt -> would_be r amt <= dec amt.
Proof.
  intros [H0 Hr] Ha. pose proof P18_pos. rewrite would_be_eq by lia.
  unfold dec. apply Z.le_trans with (chop_nn ((amt * P18) * P18)); [|rewrite chop_nn_exact by nia; lia].
  assert (0 <= amt * P18) by nia. set (x := amt * P18) in *.
  apply chop_nn_mono. split; nia.
Qed.

(* the ratio of a gauge at a time inside its interval *)
Definition left_of (g : bgauge) (t : Z) : Z := micros (dur (g_end g) t).
Definition total_of (g : bgauge) : Z := micros (dur (g_end g) (g_start g)).
Definition ratio_at (g : bgauge) (t : Z) : Z := dec 1 - dquo (dec (left_of g t)) (dec (total_of g)).

Lemma ratio_at_ext g' g t : g_start g' = g_start g -> g_end g' = g_end g -> ratio_at g' t = ratio_at g t.
Proof. intros Hs He. unfold ratio_at, left_of, total_of. rewrite Hs, He. reflexivity. Qed.

Lemma time_ratio_some g t : 0 < total_of g -> time_ratio g t = Some (ratio_at g t).
Proof.
  intros H. unfold time_ratio, ratio_at, left_of, total_of in *.
  destruct (Z.eqb_spec (micros (dur (g_end g) (g_start g))) 0); [lia | reflexivity].
Qed.

Lemma left_bounds g t : g_start g <= t <= g_end g -> 0 <= left_of g t <= total_of g.
Proof.
  intros [Hs He]. unfold left_of, total_of. split.
  - apply micros_nonneg. apply dur_nonneg. exact He.
  - apply micros_mono. apply dur_anti_r. exact Hs.
Qed.

Lemma ratio_bounds g t : 0 < total_of g -> g_start g <= t <= g_end g -> 0 <= ratio_at g t <= P18.
Proof.
  intros HT Ht. pose proof (left_bounds g t Ht) as Hl.
  pose proof (frac_bounds (left_of g t) (total_of g) Hl HT) as Hq.
  unfold ratio_at. set (q := dquo _ _) in *. unfold dec. lia.
Qed.

Lemma ratio_mono g t t' : 0 < total_of g -> g_start g <= t -> t <= t' -> t' <= g_end g ->
  ratio_at g t <= ratio_at g t'.
Proof.
  intros HT Hs Htt He.
  assert (0 <= left_of g t' <= left_of g t) as Hl.
  { split; [apply (left_bounds g t'); lia|]. unfold left_of. apply micros_mono. apply dur_anti_r. exact Htt. }
  pose proof (frac_mono (left_of g t') (left_of g t) (total_of g) Hl HT).
  unfold ratio_at. lia.
Qed.

(* ------------------------------------------------------------------ invariant *)

Definition file_ok (f : bfile) : Prop := 1 <= bf_interval f /\ NoDup (map sl_key (bf_slots f)).

Definition coin_basic (c : gcoin) : Prop :=
  gc_denom_ok c = true /\ 0 <= gc_bal c < B62 /\ 0 <= gc_amt c < B62.

(* what has left the escrow so far never exceeds what the schedule allows at ratio r *)
Definition coin_sched (r : Z) (c : gcoin) : Prop := dec (gc_amt c - gc_bal c) <= would_be r (gc_amt c).

Definition gauge_ok (t : Z) (g : bgauge) : Prop :=
  (g_start g < g_end g -> 1000 <= g_end g - g_start g) /\ g_start g <= t /\ Forall coin_basic (g_coins g) /\
  (t <= g_end g -> g_start g < g_end g -> Forall (coin_sched (ratio_at g t)) (g_coins g)).

Definition Inv (b : bstate) : Prop :=
  1 <= ss_check_window (b_s b) /\ 1 <= b_proof_window b /\
  Forall file_ok (ss_files (b_s b)) /\ Forall (gauge_ok (b_now b)) (ss_gauges (b_s b)).

Lemma gauge_total_pos g : (g_start g < g_end g -> 1000 <= g_end g - g_start g) -> g_start g < g_end g -> 0 < total_of g.
Proof. intros H1 H2. unfold total_of. apply total_positive. exact (H1 H2). Qed.

Lemma gauge_ok_mono t t' g : gauge_ok t g -> t <= t' -> gauge_ok t' g.
Proof.
  intros (Hm & Hs & Hb & Hc) Htt. repeat split; try assumption; try lia.
  intros He Hse. specialize (Hc ltac:(lia) Hse).
  pose proof (gauge_total_pos g Hm Hse) as HT.
  rewrite Forall_forall in *. intros c Hin. specialize (Hc c Hin). specialize (Hb c Hin).
  destruct Hb as (_ & _ & Ha). unfold coin_sched in *.
  eapply Z.le_trans; [exact Hc|]. apply would_be_mono; [|lia]. split.
  - apply (ratio_bounds g t HT). lia.
  - apply ratio_mono; try assumption; lia.
Qed.

(* ------------------------------------------------------------------ files never panic *)

Definition nk (key k : N) : bool := negb (N.eqb k key).
Open Scope nat_scope.

Fixpoint lastelt (x : N) (l : list N) : N := match l with [] => x | y :: r => lastelt y r end.

Lemma lastelt_in x l : In (lastelt x l) (x :: l).
Proof. revert x. induction l as [|y r IH]; intros x; cbn; [left; reflexivity | right; apply IH]. Qed.

Lemma skipn_lastelt x R T : skipn (length R) (x :: R ++ T) = lastelt x R :: T.
Proof. revert x. induction R as [|y r IH]; intros x; cbn [length skipn app lastelt]; [reflexivity | apply IH]. Qed.

Lemma nth_mid (P : list N) x R : nth (length P) (P ++ x :: R) 0%N = x.
Proof. rewrite app_nth2 by lia. rewrite Nat.sub_diag. reflexivity. Qed.

Lemma filter_nk_notin key l : ~ In key l -> filter (nk key) l = l.
Proof.
  induction l as [|x r IH]; intros Hn; cbn; [reflexivity|].
  unfold nk at 1. destruct (N.eqb_spec x key) as [->|Hne]; cbn.
  - exfalso. apply Hn. left. reflexivity.
  - f_equal. apply IH. intros C. apply Hn. right. exact C.
Qed.

(* shifting out position |P| of the slice P ++ x :: R (backing array P ++ x :: R ++ T) *)
Lemma shift_decomp P x R T :
  shift (P ++ x :: R ++ T) (length P) (length P + S (length R)) = P ++ R ++ lastelt x R :: T.
Proof.
  unfold shift.
  assert (E1 : firstn (length P) (P ++ x :: R ++ T) = P).
  { rewrite firstn_app, Nat.sub_diag, firstn_all. cbn. apply app_nil_r. }
  assert (E2 : firstn (length P + S (length R)) (P ++ x :: R ++ T) = P ++ x :: R).
  { replace (P ++ x :: R ++ T) with ((P ++ x :: R) ++ T) by (rewrite <- app_assoc; reflexivity).
    rewrite firstn_app. replace (length P + S (length R)) with (length (P ++ x :: R)) by (rewrite app_length; reflexivity).
    rewrite firstn_all, Nat.sub_diag. cbn. apply app_nil_r. }
  rewrite E1, E2. f_equal.
  assert (E3 : skipn (S (length P)) (P ++ x :: R) = R).
  { rewrite skipn_app. rewrite skipn_all2 by lia. replace (S (length P) - length P)%nat with 1%nat by lia. reflexivity. }
  rewrite E3. f_equal.
  replace (length P + S (length R) - 1)%nat with (length P + length R)%nat by lia.
  rewrite skipn_app. rewrite skipn_all2 by lia. replace (length P + length R - length P)%nat with (length R) by lia.
  cbn [app]. apply skipn_lastelt.
Qed.

(* no further match: the loop runs out without changing anything *)
Lemma rwkB R : forall P T len key, ~ In key R ->
  rwk (length R) (length P) (P ++ R ++ T) len key = Done (P ++ R ++ T, len).
Proof.
  induction R as [|x r IH]; intros P T len key Hn; cbn [length rwk]; [reflexivity|].
  cbn [app]. rewrite nth_mid.
  destruct (N.eqb_spec x key) as [->|Hne]; [exfalso; apply Hn; left; reflexivity|].
  specialize (IH (P ++ [x]) T len key ltac:(intros C; apply Hn; right; exact C)).
  rewrite app_length in IH. cbn [length] in IH. rewrite Nat.add_1_r in IH.
  rewrite <- app_assoc in IH. cbn [app] in IH. exact IH.
Qed.

Lemma rwkA R : forall P T key, ~ In key P -> NoDup (P ++ R) ->
  exists T', rwk (length R) (length P) (P ++ R ++ T) (length P + length R) key
             = Done (filter (nk key) (P ++ R) ++ T', length (filter (nk key) (P ++ R))).
Proof.
  induction R as [|x r IH]; intros P T key Hn ND; cbn [length rwk].
  - exists T. rewrite app_nil_r, Nat.add_0_r. rewrite filter_nk_notin by exact Hn. reflexivity.
  - cbn [app]. rewrite nth_mid. destruct (N.eqb_spec x key) as [->|Hne].
    + (* the unique occurrence *)
      assert (Hr : ~ In key r).
      { apply NoDup_remove_2 in ND. intros C. apply ND. apply in_or_app. right. exact C. }
      assert (Nat.leb (S (length P)) (length P + S (length r)) = true) as -> by (apply Nat.leb_le; lia).
      rewrite shift_decomp.
      replace (length P + S (length r) - 1)%nat with (length P + length r)%nat by lia.
      assert (EF : filter (nk key) (P ++ key :: r) = P ++ r).
      { rewrite filter_app. cbn [filter]. unfold nk at 2. rewrite N.eqb_refl. cbn.
        rewrite !filter_nk_notin by assumption. reflexivity. }
      rewrite EF, app_length.
      destruct r as [|r0 r'].
      * cbn [length rwk app lastelt]. exists (key :: T). rewrite Nat.add_0_r, !app_nil_r. reflexivity.
      * exists (lastelt key (r0 :: r') :: T).
        pose proof (rwkB (r' ++ [lastelt r0 r']) (P ++ [r0]) T (length P + length (r0 :: r')) key) as HB.
        assert (Hnot : ~ In key (r' ++ [lastelt r0 r'])).
        { intros C. apply in_app_or in C as [C|[C|[]]].
          - apply Hr. right. exact C.
          - apply Hr. rewrite <- C. apply lastelt_in. }
        specialize (HB Hnot).
        rewrite !app_length in HB. cbn [length] in HB.
        replace (length r' + 1)%nat with (S (length r')) in HB by lia.
        replace (length P + 1)%nat with (S (length P)) in HB by lia.
        cbn [length lastelt].
        replace ((P ++ [r0]) ++ (r' ++ [lastelt r0 r']) ++ T) with (P ++ (r0 :: r') ++ lastelt r0 r' :: T) in HB
          by (rewrite <- !app_assoc; cbn [app]; reflexivity).
        rewrite HB. rewrite <- app_assoc. reflexivity.
    + assert (Hn' : ~ In key (P ++ [x])).
      { intros C. apply in_app_or in C as [C|[C|[]]]; [exact (Hn C) | exact (Hne C)]. }
      assert (ND' : NoDup ((P ++ [x]) ++ r)) by (rewrite <- app_assoc; exact ND).
      destruct (IH (P ++ [x]) T key Hn' ND') as [T' E].
      rewrite app_length in E. cbn [length] in E.
      replace (length P + 1)%nat with (S (length P)) in E by lia.
      rewrite <- !app_assoc in E. cbn [app] in E.
      replace (S (length P) + length r)%nat with (length P + S (length r))%nat in E by lia.
      exists T'. exact E.
Qed.

Lemma remove_with_key_spec L T key : NoDup L ->
  exists T', remove_with_key (L ++ T) (length L) key = Done (filter (nk key) L ++ T', length (filter (nk key) L)).
Proof.
  intros ND. unfold remove_with_key. exact (rwkA L [] T key (fun C => C) ND).
Qed.

Close Scope nat_scope.

Lemma manage_slot_safe f h fd last : 1 <= bf_interval f -> exists v, manage_slot f h fd last = Done v.
Proof.
  intros Hf. unfold manage_slot, rounded_window.
  destruct (negb (is_young f h) && negb fd); [eexists; reflexivity|].
  destruct (Z.eqb_spec (bf_interval f) 0); [lia|].
  destruct (negb _ && negb _); eexists; reflexivity.
Qed.

Lemma NoDup_filter_N (g : N -> bool) l : NoDup l -> NoDup (filter g l).
Proof.
  induction l as [|x r IH]; intros ND; cbn; [constructor|]. inversion ND as [|? ? Hx Hr]; subst.
  destruct (g x); [constructor; [intros C; apply filter_In in C as [C _]; exact (Hx C) | exact (IH Hr)] | exact (IH Hr)].
Qed.

Lemma manage_walk_safe f h todo : 1 <= bf_interval f -> forall L T removed, NoDup L ->
  exists L' T', manage_walk f h todo (L ++ T) (length L) removed = Done (L' ++ T', length L') /\ NoDup L'.
Proof.
  intros Hf. induction todo as [|s r IH]; intros L T removed ND; cbn [manage_walk].
  - exists L, T. split; [reflexivity | exact ND].
  - destruct (manage_slot_safe f h (sl_found s && negb (mem_key (sl_key s) removed)) (sl_last s) Hf) as [v ->].
    destruct v; try (apply IH; exact ND);
      destruct (remove_with_key_spec L T (sl_key s) ND) as [T' ->];
      apply IH; apply NoDup_filter_N; exact ND.
Qed.

Lemma sl_key_slot_of l k : sl_key (slot_of l k) = k.
Proof.
  unfold slot_of. destruct (find _ l) as [s|] eqn:E; [|reflexivity].
  apply find_some in E as [_ E]. apply N.eqb_eq in E. exact E.
Qed.

Lemma manage_file_safe h f : file_ok f ->
  exists o, manage_file h f = Done o /\ (forall f', o = Some f' -> file_ok f').
Proof.
  intros [Hi Hnd]. unfold manage_file. destruct (bf_slots f) as [|s r] eqn:E.
  - destruct (is_young f h); eexists; split; try reflexivity; intros f' [=]; subst; split; [exact Hi | rewrite E; constructor].
  - destruct (manage_walk_safe f h (s :: r) Hi (map sl_key (s :: r)) [] [] Hnd) as (L' & T' & HW & ND').
    rewrite app_nil_r, map_length in HW. rewrite HW.
    eexists; split; [reflexivity|]. intros f' [=]; subst f'. split; [exact Hi|]. cbn [bf_slots].
    rewrite firstn_app, Nat.sub_diag, firstn_all. cbn [firstn]. rewrite app_nil_r.
    rewrite map_map. erewrite map_ext; [rewrite map_id; exact ND' | intros k; apply sl_key_slot_of].
Qed.

Lemma manage_files_safe h fs : Forall file_ok fs ->
  exists fs', manage_files h fs = Done fs' /\ Forall file_ok fs'.
Proof.
  induction fs as [|f r IH]; intros HF; cbn [manage_files]; [eexists; split; [reflexivity|constructor]|].
  inversion HF as [|? ? Hf Hr]; subst.
  destruct (manage_file_safe h f Hf) as (o & -> & Ho).
  destruct (IH Hr) as (r' & -> & Hr').
  eexists; split; [reflexivity|]. destruct o as [f'|]; [constructor; [apply Ho; reflexivity | exact Hr'] | exact Hr'].
Qed.

(* ------------------------------------------------------------------ gauges never panic *)

Lemma dec_trunc_le x : 0 <= x -> dec (dtrunc x) <= x.
Proof.
  intros Hx. pose proof P18_pos as HP. rewrite dtrunc_nonneg by lia. unfold dec.
  pose proof (Z.div_mod x P18 ltac:(lia)). pose proof (Z.mod_pos_bound x P18 ltac:(lia)). lia.
Qed.

Lemma pull_coin_safe r c :
  0 <= r <= P18 -> coin_basic c -> coin_sched r c ->
  exists c' a, pull_coin r c = Done (c', a) /\ coin_basic c' /\ coin_sched r c' /\ gc_amt c' = gc_amt c.
Proof.
  intros Hr (Hd & Hb & Ha) Hs. unfold coin_sched in Hs.
  pose proof P18_pos as HP. pose proof (would_be_le_amt r (gc_amt c) Hr ltac:(lia)) as HW.
  unfold pull_coin.
  set (W := would_be r (gc_amt c)) in *. set (D := dec (gc_amt c - gc_bal c)) in *.
  assert (0 <= W - D) as Hnb by lia.
  assert (W - D <= dec (gc_bal c)) as Hub by (unfold D, dec in *; lia).
  assert (0 <= dtrunc (W - D) <= gc_bal c) as Ht.
  { rewrite dtrunc_nonneg by lia. split; [apply Z.div_pos; lia|].
    apply Z.div_le_upper_bound; [lia|]. unfold dec in Hub. lia. }
  unfold dtrunc64. rewrite B62_val in *.
  assert (in_int64 (dtrunc (W - D)) = true) as ->.
  { apply in_int64_iff. rewrite int64_min_val, int64_max_val. lia. }
  destruct (Z.eqb_spec (dtrunc (W - D)) 0) as [E0|N0].
  - exists c, 0. repeat split; try assumption; try lia. rewrite B62_val; lia. rewrite B62_val; lia.
  - destruct (Z.ltb_spec (dtrunc (W - D)) 0); [lia|]. rewrite Hd. cbn [negb orb].
    destruct (Z.leb_spec (dtrunc (W - D)) (gc_bal c)); [|lia].
    eexists _, _. split; [reflexivity|]. unfold coin_basic, coin_sched. cbn [gc_amt gc_bal gc_denom_ok].
    fold W. pose proof (dec_trunc_le (W - D) Hnb) as Hdt.
    repeat split; try reflexivity; try (rewrite B62_val; lia); try lia.
    unfold D, dec in *. lia.
Qed.

Lemma pull_coins_safe r cs :
  0 <= r <= P18 -> Forall coin_basic cs -> Forall (coin_sched r) cs ->
  exists cs' a, pull_coins r cs = Done (cs', a) /\ Forall coin_basic cs' /\ Forall (coin_sched r) cs'.
Proof.
  intros Hr. induction cs as [|c rest IH]; intros HB HS; cbn [pull_coins].
  - exists [], 0. repeat split; constructor.
  - inversion HB as [|? ? Hb Hbr]; inversion HS as [|? ? Hs Hsr]; subst.
    destruct (pull_coin_safe r c Hr Hb Hs) as (c' & a & -> & Hb' & Hs' & _).
    destruct (IH Hbr Hsr) as (cs' & a' & -> & HB' & HS').
    eexists _, _. split; [reflexivity|]. split; constructor; assumption.
Qed.

Lemma pull_gauge_safe t now g : gauge_ok t g -> t <= now ->
  exists o a, pull_gauge now g = Done (o, a) /\ (forall g', o = Some g' -> gauge_ok now g').
Proof.
  intros Hg Htn. pose proof (gauge_ok_mono t now g Hg Htn) as (Hm & Hs & Hb & Hc).
  unfold pull_gauge.
  destruct (Z.ltb_spec (g_end g) now); [exists None, 0; split; [reflexivity | intros ? [=]]|].
  destruct (Z.leb_spec (g_end g) (g_start g)); [exists None, 0; split; [reflexivity | intros ? [=]]|].
  destruct (g_acct_ok g); cbn [negb].
  2:{ exists (Some g), 0. split; [reflexivity|]. intros g' [=]; subst g'. repeat split; assumption. }
  destruct (escrow_empty g); [exists None, 0; split; [reflexivity | intros ? [=]]|].
  pose proof (gauge_total_pos g Hm ltac:(lia)) as HT.
  rewrite (time_ratio_some g now HT).
  pose proof (ratio_bounds g now HT ltac:(lia)) as Hr.
  specialize (Hc ltac:(lia) ltac:(lia)).
  destruct (pull_coins_safe (ratio_at g now) (g_coins g) Hr Hb Hc) as (cs' & a & -> & HB' & HS').
  eexists _, _. split; [reflexivity|]. intros g' [=]; subst g'.
  unfold gauge_ok. cbn [g_start g_end g_coins]. repeat split; try assumption.
  intros _ _. exact HS'.
Qed.

Lemma pull_gauges_safe t now gs : Forall (gauge_ok t) gs -> t <= now ->
  exists gs' a, pull_gauges now gs = Done (gs', a) /\ Forall (gauge_ok now) gs'.
Proof.
  intros HG Htn. induction gs as [|g r IH]; cbn [pull_gauges].
  - exists [], 0. split; [reflexivity | constructor].
  - inversion HG as [|? ? Hg Hr]; subst.
    destruct (pull_gauge_safe t now g Hg Htn) as (o & a & -> & Ho).
    destruct (IH Hr) as (r' & a' & -> & Hr').
    eexists _, _. split; [reflexivity|].
    destruct o as [g'|]; [constructor; [apply Ho; reflexivity | exact Hr'] | exact Hr'].
Qed.

(* ------------------------------------------------------------------ the reward block *)

Lemma reward_block_safe b h now : Inv b -> b_now b <= now ->
  exists s' a, reward_block h now (b_s b) = Done (s', a) /\
    Inv {| b_s := s'; b_proof_window := b_proof_window b; b_height := h; b_now := now |}.
Proof.
  intros (Hcw & Hpw & HF & HG) Htn. unfold reward_block.
  destruct (Z.eqb_spec (ss_check_window (b_s b)) 0); [lia|].
  destruct (0 <? Z.rem h (ss_check_window (b_s b))).
  - eexists _, _. split; [reflexivity|]. unfold Inv; cbn. repeat split; try assumption.
    eapply Forall_impl; [|exact HG]. intros g Hg. exact (gauge_ok_mono _ _ g Hg Htn).
  - destruct (manage_files_safe h _ HF) as (fs' & -> & HF').
    destruct (pull_gauges_safe _ now _ HG Htn) as (gs' & a & -> & HG').
    eexists _, _. split; [reflexivity|]. unfold Inv; cbn. repeat split; assumption.
Qed.

(* ------------------------------------------------------------------ operations *)

Definition valid_op (b : bstate) (o : bop) : Prop :=
  match o with
  | OpNewGauge e amt dok => dok = true /\ 0 <= amt < B62 /\ (b_now b < e -> 1000 <= e - b_now b)
  | OpTopUpGauge i amt => 0 <= amt /\
      forall g, nth_error (ss_gauges (b_s b)) i = Some g ->
        Forall (fun c => gc_amt c + amt < B62 /\ gc_bal c + amt < B62) (g_coins g)
  | OpDonate i j amt => 0 <= amt /\
      forall g c, nth_error (ss_gauges (b_s b)) i = Some g -> nth_error (g_coins g) j = Some c -> gc_bal c + amt < B62
  | OpSetWindows cw pw => 1 < cw /\ 1 < pw
  | OpAddSlot i key _ =>      (* PostProof lists a prover only if file.ContainsProver says it is not listed yet *)
      forall f, nth_error (ss_files (b_s b)) i = Some f -> ~ In key (map sl_key (bf_slots f))
  | _ => True
  end.

Lemma NoDup_del {A} (l : list A) i : NoDup l -> NoDup (del l i).
Proof.
  revert i. induction l as [|x r IH]; intros i ND; cbn [del]; [destruct i; constructor|].
  inversion ND as [|? ? Hx Hr]; subst. destruct i as [|j]; [exact Hr|].
  constructor; [|apply IH; exact Hr]. intros C. apply Hx. clear -C. revert j C.
  induction r as [|y t IHt]; intros j C; cbn [del] in C; [destruct j; destruct C|].
  destruct j; [right; exact C|]. destruct C as [C|C]; [left; exact C | right; exact (IHt j C)].
Qed.

Lemma map_del {A B} (g : A -> B) l i : map g (del l i) = del (map g l) i.
Proof. revert i. induction l as [|x r IH]; intros i; cbn; [destruct i; reflexivity|]. destruct i; cbn; [reflexivity | f_equal; apply IH]. Qed.

Lemma map_upd_same {A B} (g : A -> B) l i f : (forall x, g (f x) = g x) -> map g (upd l i f) = map g l.
Proof.
  intros H. revert i. induction l as [|x r IH]; intros i; cbn; [destruct i; reflexivity|].
  destruct i; cbn; [rewrite H; reflexivity | f_equal; apply IH].
Qed.

Lemma Forall_upd {A} (P : A -> Prop) l i f :
  Forall P l -> (forall x, nth_error l i = Some x -> P x -> P (f x)) -> Forall P (upd l i f).
Proof.
  revert i. induction l as [|x r IH]; intros i HF Hf; cbn [upd]; [destruct i; constructor|].
  inversion HF as [|? ? Hx Hr]; subst. destruct i as [|j].
  - constructor; [apply Hf; [reflexivity | exact Hx] | exact Hr].
  - constructor; [exact Hx|]. apply IH; [exact Hr|]. intros y Hy. apply Hf. exact Hy.
Qed.

Lemma Forall_del {A} (P : A -> Prop) l i : Forall P l -> Forall P (del l i).
Proof.
  revert i. induction l as [|x r IH]; intros i HF; cbn [del]; [destruct i; constructor|].
  inversion HF; subst. destruct i; [assumption | constructor; [assumption | apply IH; assumption]].
Qed.

Lemma Forall_app_one {A} (P : A -> Prop) l x : Forall P l -> P x -> Forall P (l ++ [x]).
Proof. intros. apply Forall_app. split; [assumption | constructor; [assumption | constructor]]. Qed.

Lemma NoDup_app_one {A} (l : list A) x : NoDup l -> ~ In x l -> NoDup (l ++ [x]).
Proof.
  induction l as [|y r IH]; intros ND Hn; cbn; [constructor; [intros []|constructor]|].
  inversion ND as [|? ? Hy Hr]; subst. constructor.
  - intros C. apply in_app_or in C as [C|[C|[]]]; [exact (Hy C) | apply Hn; left; symmetry; exact C].
  - apply IH; [exact Hr | intros C; apply Hn; right; exact C].
Qed.

Lemma apply_op_inv b o : Inv b -> valid_op b o -> Inv (apply_op b o).
Proof.
  intros (Hcw & Hpw & HF & HG) Hv. pose proof P18_pos as HP.
  destruct o as [size | i key found | i j | i j | i | e amt dok | i amt | i j amt | i | cw pw]; cbn [apply_op];
    unfold Inv, with_files, with_gauges; cbn [b_s b_proof_window b_now b_height ss_check_window ss_files ss_gauges].
  - (* PostFile *) repeat split; try assumption. apply Forall_app_one; [exact HF|]. unfold file_ok; cbn. split; [exact Hpw | constructor].
  - (* AddSlot *) repeat split; try assumption. apply Forall_upd; [exact HF|]. intros f Hn [Hi Hnd].
    split; [exact Hi|]. cbn [set_slots bf_slots]. rewrite map_app. cbn [map sl_key].
    apply NoDup_app_one; [exact Hnd | exact (Hv f Hn)].
  - (* Prove *) repeat split; try assumption. apply Forall_upd; [exact HF|]. intros f _ [Hi Hnd].
    split; [exact Hi|]. cbn [set_slots bf_slots]. rewrite map_upd_same by reflexivity. exact Hnd.
  - (* DropSlot *) repeat split; try assumption. apply Forall_upd; [exact HF|]. intros f _ [Hi Hnd].
    split; [exact Hi|]. cbn [set_slots bf_slots]. rewrite map_del. apply NoDup_del. exact Hnd.
  - repeat split; try assumption. apply Forall_del. exact HF.
  - (* NewGauge *) destruct Hv as (-> & Ha & Hm). repeat split; try assumption.
    apply Forall_app_one; [exact HG|]. unfold gauge_ok; cbn [g_start g_end g_coins].
    repeat split; try assumption; try lia.
    + constructor; [|constructor]. unfold coin_basic; cbn. repeat split; lia.
    + intros He Hse. constructor; [|constructor]. unfold coin_sched; cbn [gc_amt gc_bal].
      replace (amt - amt) with 0 by ring. unfold dec at 1. cbn.
      apply would_be_nonneg; [|lia].
      set (g := {| g_start := b_now b; g_end := e; g_acct_ok := true; g_other := false;
                   g_coins := [{| gc_amt := amt; gc_bal := amt; gc_denom_ok := true |}] |}).
      assert (0 < total_of g) by (apply gauge_total_pos; cbn; assumption).
      apply (ratio_bounds g (b_now b)); [assumption | cbn; lia].
  - (* TopUp *) destruct Hv as (Ha & Hb). repeat split; try assumption.
    apply Forall_upd; [exact HG|]. intros g Hn (Hm & Hs & Hbs & Hc).
    destruct (Z.eqb_spec (g_start g) (b_now b)) as [Es|]; [|repeat split; assumption].
    specialize (Hb g Hn). unfold gauge_ok, set_coins; cbn [g_start g_end g_coins]. repeat split; try assumption.
    + rewrite Forall_forall in *. intros c' Hin. apply in_map_iff in Hin as (c & <- & Hin).
      specialize (Hbs c Hin). specialize (Hb c Hin). unfold coin_basic in *; cbn. intuition lia.
    + intros He Hse. specialize (Hc He Hse).
      rewrite (ratio_at_ext _ g) by reflexivity.
      pose proof (gauge_total_pos g Hm Hse) as HT.
      pose proof (ratio_bounds g (b_now b) HT ltac:(lia)) as Hr.
      rewrite Forall_forall in *. intros c' Hin. apply in_map_iff in Hin as (c & <- & Hin).
      specialize (Hc c Hin). specialize (Hbs c Hin). unfold coin_sched in *; cbn [gc_amt gc_bal].
      replace (gc_amt c + amt - (gc_bal c + amt)) with (gc_amt c - gc_bal c) by ring.
      eapply Z.le_trans; [exact Hc|]. apply would_be_mono_amt; [lia|]. unfold coin_basic in Hbs. lia.
  - (* Donate *) destruct Hv as (Ha & Hb). repeat split; try assumption.
    apply Forall_upd; [exact HG|]. intros g Hn (Hm & Hs & Hbs & Hc).
    unfold gauge_ok, set_coins; cbn [g_start g_end g_coins]. repeat split; try assumption.
    + apply Forall_upd; [exact Hbs|]. intros c Hnc Hc0. specialize (Hb g c Hn Hnc).
      unfold coin_basic in *; cbn. intuition lia.
    + intros He Hse. specialize (Hc He Hse).
      rewrite (ratio_at_ext _ g) by reflexivity.
      apply Forall_upd; [exact Hc|]. intros c _ Hc0. unfold coin_sched in *; cbn [gc_amt gc_bal].
      unfold dec in *. nia.
  - (* DonateOther *) repeat split; try assumption.
    apply Forall_upd; [exact HG|]. intros g _ Hg. exact Hg.
  - (* SetWindows *) destruct Hv. repeat split; try assumption; lia.
Qed.

Fixpoint ops_valid (b : bstate) (os : list bop) : Prop :=
  match os with [] => True | o :: r => valid_op b o /\ ops_valid (apply_op b o) r end.

Lemma apply_ops_inv os : forall b, Inv b -> ops_valid b os -> Inv (fold_left apply_op os b).
Proof.
  induction os as [|o r IH]; intros b HI HV; cbn [fold_left]; [exact HI|].
  destruct HV as [Hv Hr]. apply IH; [apply apply_op_inv; assumption | exact Hr].
Qed.

(* a chain of blocks is admissible when block time never decreases and every operation of
   every block is valid in the state it is applied to *)
Fixpoint chain_valid (b : bstate) (ks : list block) : Prop :=
  match ks with
  | [] => True
  | k :: r =>
    b_now b <= bl_time k /\
    forall s' a, reward_block (bl_height k) (bl_time k) (b_s b) = Done (s', a) ->
      let b1 := {| b_s := s'; b_proof_window := b_proof_window b; b_height := bl_height k; b_now := bl_time k |} in
      ops_valid b1 (bl_ops k) /\ chain_valid (fold_left apply_op (bl_ops k) b1) r
  end.

Theorem chain_never_panics ks : forall b, Inv b -> chain_valid b ks ->
  exists b', run_chain b ks = Done b' /\ Inv b'.
Proof.
  induction ks as [|k r IH]; intros b HI HV; cbn [run_chain]; [exists b; split; [reflexivity | exact HI]|].
  destruct HV as [Ht Hk].
  destruct (reward_block_safe b (bl_height k) (bl_time k) HI Ht) as (s' & a & E & HI1).
  unfold run_block. rewrite E. destruct (Hk s' a E) as [Hops Hrest].
  apply IH; [apply apply_ops_inv; assumption | exact Hrest].
Qed.

Corollary begin_block_never_panics ks k : forall b, Inv b -> chain_valid b (ks ++ [k]) ->
  exists b', run_chain b ks = Done b' /\ reward_block (bl_height k) (bl_time k) (b_s b') <> Panic.
Proof.
  intros b HI HV. revert b HI HV. induction ks as [|k0 r IH]; intros b HI HV; cbn [app run_chain] in *.
  - exists b. split; [reflexivity|]. destruct HV as [Ht _].
    destruct (reward_block_safe b (bl_height k) (bl_time k) HI Ht) as (s' & a & E & _). rewrite E. discriminate.
  - destruct HV as [Ht Hk].
    destruct (reward_block_safe b (bl_height k0) (bl_time k0) HI Ht) as (s' & a & E & HI1).
    unfold run_block. rewrite E. destruct (Hk s' a E) as [Hops Hrest].
    apply IH; [apply apply_ops_inv; assumption | exact Hrest].
Qed.

(* ------------------------------------------------------------------ mint *)

Definition mint_ok_state (p : mparams) (s : mstate) : Prop :=
  0 <= tokens_per_block p < B62 /\ mint_decrease p < B62 /\
  match m_last s with Some m => 0 <= m < B62 | None => True end.

Lemma share64_ok r e : 0 <= r <= 100 -> 0 <= e < B62 -> exists x, share64 r e = Some x /\ 0 <= x.
Proof.
  intros Hr He. unfold share64. fold (share r e) in *.
  assert (dtrunc (dmul_int (dquo_int (dec r) 100) e) = share r e) as Es by reflexivity.
  unfold dtrunc64. rewrite Es. pose proof (share_bounds r e ltac:(lia) ltac:(lia)) as (H0 & Hlo & Hhi).
  rewrite B62_val in *.
  assert (in_int64 (share r e) = true) as ->.
  { apply in_int64_iff. rewrite int64_min_val, int64_max_val. nia. }
  eexists; split; [reflexivity | exact H0].
Qed.

Theorem mint_never_panics p s sp : valid_params p -> mint_ok_state p s -> mint_panics true sp p s = false.
Proof.
  intros (Ht & Hd & Hs & Hdv & Hpr & Hsum & _) (Htb & Hdb & Hl).
  unfold mint_panics.
  set (prev := match m_last s with Some m => m | None => tokens_per_block p end).
  assert (0 <= prev < B62) as Hp by (unfold prev; destruct (m_last s); lia).
  pose proof (mint_for_block_bounds prev bpy (mint_decrease p) ltac:(lia) ltac:(reflexivity) Hd) as Hm.
  unfold mint_for_block, mint_for_block_raw in Hm.
  set (raw := dtrunc (dec prev - dquo (dec (mint_decrease p)) (dec bpy))) in *.
  pose proof P18_pos as HP.
  pose proof (decrease_nonneg (mint_decrease p) bpy Hd ltac:(reflexivity)) as Hq0.
  assert (dquo (dec (mint_decrease p)) (dec bpy) <= dec (mint_decrease p)) as Hq1.
  { rewrite dquo_dec_dec by (try reflexivity; lia).
    apply Z.le_trans with (chop_nn ((mint_decrease p * P18) * P18)); [|rewrite chop_nn_exact by nia; unfold dec; lia].
    assert (0 <= mint_decrease p * P18) by nia. set (x := mint_decrease p * P18) in *.
    assert (0 <= x * P18) by nia.
    apply chop_nn_mono. split; [apply Z.div_pos; [lia | reflexivity]|].
    apply Z.div_le_upper_bound; [reflexivity|]. unfold bpy. nia. }
  set (q := dquo (dec (mint_decrease p)) (dec bpy)) in *.
  assert (raw <= prev) as Hle.
  { unfold raw, dtrunc. rewrite <- (Z.quot_mul prev P18) at 2 by lia. apply Z.quot_le_mono; [lia | unfold dec; lia]. }
  assert (- B62 <= raw) as Hge.
  { unfold raw, dtrunc. rewrite <- (Z.quot_mul (- B62) P18) by lia. apply Z.quot_le_mono; [lia|].
    unfold dec in *. rewrite B62_val in *. nia. }
  unfold dtrunc64. fold raw.
  assert (in_int64 raw = true) as ->.
  { apply in_int64_iff. rewrite int64_min_val, int64_max_val. rewrite B62_val in *. lia. }
  set (e := if raw <? 0 then 0 else raw) in *.
  assert (0 <= e < B62) as He by (unfold e; destruct (Z.ltb_spec raw 0); lia).
  destruct (Z.ltb_spec e 0); [lia|]. cbn [negb orb].
  destruct (share64_ok (staker_ratio p) e ltac:(lia) He) as (x1 & -> & Hx1).
  destruct (Z.ltb_spec x1 0); [lia|].
  destruct (pay _ _ _ _); [|reflexivity].
  destruct (share64_ok (dev_ratio p) e ltac:(lia) He) as (x2 & -> & Hx2).
  destruct (Z.ltb_spec x2 0); [lia|].
  destruct (pay _ _ _ _); [|reflexivity].
  destruct (share64_ok (prov_ratio p) e ltac:(lia) He) as (x3 & -> & Hx3).
  destruct sp; [|reflexivity]. cbn [negb].
  destruct (Z.ltb_spec x3 0); [lia | reflexivity].
Qed.
