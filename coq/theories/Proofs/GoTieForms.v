(* Ties by proof between Keeper.Attest / Keeper.DoReport as generated from the current source (Gen/GoForms.v) and the
   model of C14 (Model/Forms.v).  The loop that marks the signer's entry and counts the completed ones is a read of the
   generated functions (is the signer named on the form; the count after marking); everything after it -- the
   comparison with the minimum, what is stored below it, what is written and consumed at it, and in which order -- is
   translated. *)
From Coq Require Import ZArith NArith List Bool String Lia.
From JK Require Import Base.AList Base.GoSem Gen.GoForms Model.Forms.
Import ListNotations.
Open Scope Z_scope.

Definition is_some {A} (o : option A) : bool := match o with Some _ => true | None => false end.

Lemma gen_Attest_spec form_found named count min file_found prover_ok h start :
  gen_Attest form_found named count min file_found prover_ok h start
  = if negb (form_found && named) then GVal ([], false)
    else if count <? min then GVal ([Ev "marks-onto-form" []; Ev "store-form" []], true)
    else if negb (file_found && prover_ok) then GVal ([], false)
    else GVal ([Ev "refresh-last-proven" [h]; Ev "set-proof" []; Ev "consume-form" []], true).
Proof.
  unfold gen_Attest. destruct form_found, named; try reflexivity; cbn [negb andb].
  destruct (count <? min); [reflexivity|]. destruct file_found, prover_ok; reflexivity.
Qed.

Lemma gen_DoReport_spec form_found named count min file_found start :
  gen_DoReport form_found named count min file_found start
  = if negb (form_found && named) then GVal ([], false)
    else if count <? min then GVal ([Ev "marks-onto-form" []; Ev "store-form" []], true)
    else if negb file_found then GVal ([], false)
    else GVal ([Ev "consume-form" []; Ev "remove-prover" []], true).
Proof.
  unfold gen_DoReport. destruct form_found, named; reflexivity.
Qed.

(* the model's Attest: ignored unless the generated handler writes; below the minimum only the marked form is stored;
   at the minimum the named prover's proof height is refreshed and the form consumed, and nothing else *)
Theorem attest_is_the_interpretation s creator prover fk h :
  let fo := aget pkey_eqb (aforms s) (prover, fk) in
  let named := match fo with Some f => listed f creator | None => false end in
  let count := match fo with Some f => completes (mark f creator) | None => 0 end in
  let prs := aget fkey_eqb (files s) fk in
  let pv := match prs with Some l => is_some (get_prover s l prover fk) | None => false end in
  attest s creator prover fk h
  = match gen_Attest (is_some fo) named count (min_to_pass s) (is_some prs) pv h 0, fo with
    | GVal ([Ev _ []; Ev _ []], true), Some f =>
        (set_aforms s (aset pkey_eqb (aforms s) (prover, fk) (mark f creator)), ORecorded)
    | GVal ([Ev _ [hh]; _; _], true), Some _ =>
        let s1 := set_proofs s (aset pkey_eqb (proofs s) (prover, fk) hh) in
        (set_aforms s1 (adel pkey_eqb (aforms s1) (prover, fk)), OActed)
    | _, _ => (s, OIgnored)
    end.
Proof.
  cbv zeta. rewrite gen_Attest_spec. unfold attest.
  destruct (aget pkey_eqb (aforms s) (prover, fk)) as [f|]; cbn [is_some andb negb]; [|reflexivity].
  destruct (listed f creator); cbn [andb negb]; [|reflexivity].
  destruct (completes (mark f creator) <? min_to_pass s); [reflexivity|].
  destruct (aget fkey_eqb (files s) fk) as [prs|]; cbn [is_some andb negb]; [|reflexivity].
  destruct (get_prover s prs prover fk); reflexivity.
Qed.

(* the model's Report: fails unless the generated handler writes; at the minimum the form is consumed first and then
   the prover removed (the removal itself -- RemoveProverWithKey -- is the model's) *)
Theorem do_report_is_the_interpretation s creator prover fk :
  let fo := aget pkey_eqb (rforms s) (prover, fk) in
  let named := match fo with Some f => listed f creator | None => false end in
  let count := match fo with Some f => completes (mark f creator) | None => 0 end in
  let prs := aget fkey_eqb (files s) fk in
  do_report s creator prover fk
  = match gen_DoReport (is_some fo) named count (min_to_pass s) (is_some prs) 0, fo, prs with
    | GVal ([Ev _ []; Ev _ []], true), Some f, _ =>
        if completes (mark f creator) <? min_to_pass s
        then (set_rforms s (aset pkey_eqb (rforms s) (prover, fk) (mark f creator)), ORecorded)
        else match prs with
             | Some l =>
                 let s1 := set_rforms s (adel pkey_eqb (rforms s) (prover, fk)) in
                 match remove_prover l prover with
                 | None => (s, OPanic)
                 | Some None => (s1, OActed)
                 | Some (Some l') =>
                     let s2 := set_proofs s1 (adel pkey_eqb (proofs s1) (prover, fk)) in
                     (set_files s2 (aset fkey_eqb (files s2) fk l'), OActed)
                 end
             | None => (s, OFail)
             end
    | _, _, _ => (s, OFail)
    end.
Proof.
  cbv zeta. rewrite gen_DoReport_spec. unfold do_report.
  destruct (aget pkey_eqb (rforms s) (prover, fk)) as [f|]; cbn [is_some andb negb]; [|reflexivity].
  destruct (listed f creator); cbn [andb negb]; [|reflexivity].
  destruct (completes (mark f creator) <? min_to_pass s) eqn:E; [reflexivity|].
  destruct (aget fkey_eqb (files s) fk) as [prs|]; cbn [is_some negb]; [|reflexivity].
  reflexivity.
Qed.
