(* Proofs about the file / prover bookkeeping model (properties C17 and C01). *)
From Coq Require Import ZArith NArith List Bool Lia.
From JK Require Import Base.AList Model.StorageFiles.
Import ListNotations.
Open Scope Z_scope.

(* ---------- keys ---------- *)

Lemma k3_eqb_spec a b : k3_eqb a b = true <-> a = b.
Proof.
  destruct a as [[a1 a2] a3], b as [[b1 b2] b3]. cbn.
  rewrite !andb_true_iff, !N.eqb_eq, Z.eqb_eq. split; [intros [[-> ->] ->]; reflexivity | intros E; inversion E; auto].
Qed.
Lemma k4_eqb_spec a b : k4_eqb a b = true <-> a = b.
Proof.
  destruct a as [[[a1 a2] a3] a4], b as [[[b1 b2] b3] b4]. cbn.
  rewrite !andb_true_iff, !N.eqb_eq, Z.eqb_eq. split; [intros [[[-> ->] ->] ->]; reflexivity | intros E; inversion E; auto].
Qed.
Lemma Neqb_spec a b : N.eqb a b = true <-> a = b.
Proof. apply N.eqb_eq. Qed.

Lemma k3_refl a : k3_eqb a a = true. Proof. apply k3_eqb_spec; reflexivity. Qed.
Lemma k4_refl a : k4_eqb a a = true. Proof. apply k4_eqb_spec; reflexivity. Qed.
Lemma k3_neq a b : a <> b -> k3_eqb a b = false.
Proof. intros H. destruct (k3_eqb a b) eqn:E; [apply k3_eqb_spec in E; contradiction | reflexivity]. Qed.
Lemma k4_neq a b : a <> b -> k4_eqb a b = false.
Proof. intros H. destruct (k4_eqb a b) eqn:E; [apply k4_eqb_spec in E; contradiction | reflexivity]. Qed.

Lemma fk12 f m o st : fk1 f = (m, o, st) <-> fk2 f = (o, m, st).
Proof. unfold fk1, fk2. split; intros E; inversion E; reflexivity. Qed.

Lemma pk_file_mk f p : pk_file (mk_pkey f p) = fk1 f. Proof. reflexivity. Qed.
Lemma pk_prover_mk f p : pk_prover (mk_pkey f p) = p. Proof. reflexivity. Qed.
Lemma pk_decompose k f : pk_file k = fk1 f -> k = mk_pkey f (pk_prover k).
Proof. destruct k as [[[p o] m] st]. unfold pk_file, fk1, mk_pkey, pk_prover. intros E; inversion E; reflexivity. Qed.

Lemma with_plist_same f : with_plist f (f_proofs f) = f.
Proof. destruct f; reflexivity. Qed.
Lemma fk1_with_plist f l : fk1 (with_plist f l) = fk1 f. Proof. reflexivity. Qed.
Lemma fk2_with_plist f l : fk2 (with_plist f l) = fk2 f. Proof. reflexivity. Qed.

(* ---------- lookups after the primitive writes ---------- *)

Definition get2 (s : sstate) (k : okey) : option file := aget k3_eqb (files2 s) k.

Lemma get_set_file s f k : get_file (set_file s f) k = if k3_eqb k (fk1 f) then Some f else get_file s k.
Proof.
  unfold get_file, set_file; cbn. destruct (k3_eqb k (fk1 f)) eqn:E.
  - apply k3_eqb_spec in E; subst. apply (aget_aset_same k3_eqb k3_eqb_spec).
  - apply (aget_aset_other k3_eqb k3_eqb_spec). intros ->. rewrite k3_refl in E; discriminate.
Qed.
Lemma get2_set_file s f k : get2 (set_file s f) k = if k3_eqb k (fk2 f) then Some f else get2 s k.
Proof.
  unfold get2, set_file; cbn. destruct (k3_eqb k (fk2 f)) eqn:E.
  - apply k3_eqb_spec in E; subst. apply (aget_aset_same k3_eqb k3_eqb_spec).
  - apply (aget_aset_other k3_eqb k3_eqb_spec). intros ->. rewrite k3_refl in E; discriminate.
Qed.
Lemma getp_set_file s f k : get_proof (set_file s f) k = get_proof s k. Proof. reflexivity. Qed.

Lemma getp_set_proof s p k : get_proof (set_proof s p) k = if k4_eqb k (pk_of p) then Some p else get_proof s k.
Proof.
  unfold get_proof, set_proof; cbn. destruct (k4_eqb k (pk_of p)) eqn:E.
  - apply k4_eqb_spec in E; subst. apply (aget_aset_same k4_eqb k4_eqb_spec).
  - apply (aget_aset_other k4_eqb k4_eqb_spec). intros ->. rewrite k4_refl in E; discriminate.
Qed.
Lemma getp_del_proof s k0 k : get_proof (del_proof s k0) k = if k4_eqb k k0 then None else get_proof s k.
Proof.
  unfold get_proof, del_proof; cbn. destruct (k4_eqb k k0) eqn:E.
  - apply k4_eqb_spec in E; subst. apply (aget_adel_same k4_eqb).
  - apply (aget_adel_other k4_eqb k4_eqb_spec). intros ->. rewrite k4_refl in E; discriminate.
Qed.

Lemma del_proofs_files l : forall s, files1 (fold_left del_proof l s) = files1 s /\ files2 (fold_left del_proof l s) = files2 s /\
  burns (fold_left del_proof l s) = burns s /\ attests (fold_left del_proof l s) = attests s /\
  reports (fold_left del_proof l s) = reports s /\ ever_valid (fold_left del_proof l s) = ever_valid s.
Proof. induction l as [|x r IH]; intros s; cbn; [auto 10|]. destruct (IH (del_proof s x)) as (A & B & C & D & E & F). cbn in *. auto 10. Qed.

Lemma getp_del_proofs l : forall s k, get_proof (fold_left del_proof l s) k = if existsb (k4_eqb k) l then None else get_proof s k.
Proof.
  induction l as [|x r IH]; intros s k; cbn; [reflexivity|].
  rewrite IH, getp_del_proof. destruct (k4_eqb k x); cbn; [destruct (existsb (k4_eqb k) r); reflexivity | reflexivity].
Qed.

Lemma existsb_k4_in k l : existsb (k4_eqb k) l = true <-> In k l.
Proof.
  rewrite existsb_exists. split.
  - intros (x & I & E). apply k4_eqb_spec in E; subst; exact I.
  - intros I. exists k. split; [exact I | apply k4_refl].
Qed.
Lemma existsb_k4_notin k l : ~ In k l -> existsb (k4_eqb k) l = false.
Proof. intros H. destruct (existsb (k4_eqb k) l) eqn:E; [apply existsb_k4_in in E; contradiction | reflexivity]. Qed.

(* ---------- the invariant of C17 ---------- *)

(* a prover list is in order relative to the proof store *)
Definition file_ok (s : sstate) (f : file) : Prop :=
  NoDup (f_proofs f) /\ len f <= Z.max (f_max f) 0 /\
  forall k, In k (f_proofs f) -> pk_file k = fk1 f /\ exists r, get_proof s k = Some r /\ pk_of r = k.

Record Inv (s : sstate) : Prop := {
  inv_nd1 : NoDup (akeys (files1 s));
  inv_nd2 : NoDup (akeys (files2 s));
  (* both indexes answer every lookup identically *)
  inv_idx : forall m o st, get_file s (m, o, st) = get2 s (o, m, st);
  (* every entry sits under the key built from its own fields *)
  inv_key : forall k f, get_file s k = Some f -> fk1 f = k;
  inv_pkey : forall k r, get_proof s k = Some r -> pk_of r = k;
  inv_file : forall k f, get_file s k = Some f -> file_ok s f
}.

Lemma inv_init : Inv init.
Proof. split; cbn; try constructor; intros; discriminate. Qed.

(* file_ok only depends on the proof records of the listed keys *)
Lemma file_ok_ext s s' f :
  file_ok s f -> (forall k, In k (f_proofs f) -> get_proof s' k = get_proof s k) -> file_ok s' f.
Proof.
  intros (ND & L & H) E. split; [exact ND|]. split; [exact L|].
  intros k I. destruct (H k I) as (A & r & B & C). split; [exact A|]. exists r. rewrite E by exact I. auto.
Qed.

(* writing a file whose list is in order keeps the invariant *)
Lemma inv_set_file s f : Inv s -> file_ok s f -> Inv (set_file s f).
Proof.
  intros I OK. split.
  - cbn. apply (nodup_aset k3_eqb k3_eqb_spec). apply I.
  - cbn. apply (nodup_aset k3_eqb k3_eqb_spec). apply I.
  - intros m o st. rewrite get_set_file, get2_set_file.
    destruct (k3_eqb (m, o, st) (fk1 f)) eqn:E.
    + apply k3_eqb_spec in E. symmetry in E. apply fk12 in E. rewrite <- E, k3_refl. reflexivity.
    + destruct (k3_eqb (o, m, st) (fk2 f)) eqn:E2.
      * apply k3_eqb_spec in E2. symmetry in E2. apply fk12 in E2. rewrite <- E2, k3_refl in E. discriminate.
      * apply I.
  - intros k g. rewrite get_set_file. destruct (k3_eqb k (fk1 f)) eqn:E.
    + intros G; inversion G; subst. apply k3_eqb_spec in E. auto.
    + apply I.
  - intros k r. rewrite getp_set_file. apply I.
  - intros k g. rewrite get_set_file. destruct (k3_eqb k (fk1 f)) eqn:E.
    + intros G; inversion G; subst. eapply file_ok_ext; [exact OK | reflexivity].
    + intros G. eapply file_ok_ext; [eapply inv_file; eauto | reflexivity].
Qed.

(* writing a proof record never removes one *)
Lemma inv_set_proof s p : Inv s -> Inv (set_proof s p).
Proof.
  intros I. split; try apply I.
  - intros k r. rewrite getp_set_proof. destruct (k4_eqb k (pk_of p)) eqn:E.
    + intros G; inversion G; subst. apply k4_eqb_spec in E. auto.
    + apply I.
  - intros k f G. destruct (inv_file s I k f G) as (ND & L & H). split; [exact ND|]. split; [exact L|].
    intros k0 I0. destruct (H k0 I0) as (A & r & B & C). split; [exact A|].
    rewrite getp_set_proof. destruct (k4_eqb k0 (pk_of p)) eqn:E.
    + exists p. apply k4_eqb_spec in E. auto.
    + exists r. auto.
Qed.

(* keys listed by two different stored files are different *)
Lemma listed_keys_disjoint s k1 f1 k2 f2 x :
  Inv s -> get_file s k1 = Some f1 -> get_file s k2 = Some f2 -> k1 <> k2 ->
  In x (f_proofs f1) -> ~ In x (f_proofs f2).
Proof.
  intros I G1 G2 N I1 I2.
  destruct (inv_file s I _ _ G1) as (_ & _ & H1). destruct (inv_file s I _ _ G2) as (_ & _ & H2).
  destruct (H1 x I1) as (A1 & _). destruct (H2 x I2) as (A2 & _).
  apply N. rewrite <- (inv_key s I _ _ G1), <- (inv_key s I _ _ G2). congruence.
Qed.

(* ---------- RemoveFile ---------- *)

Lemma get_file_remove s m o st k :
  get_file (remove_file s m o st) k = if k3_eqb k (m, o, st) then None else get_file s k.
Proof.
  unfold remove_file. destruct (get_file s (m, o, st)) eqn:G.
  - unfold get_file; cbn. destruct (del_proofs_files (f_proofs f) s) as (E1 & _). rewrite E1.
    destruct (k3_eqb k (m, o, st)) eqn:E.
    + apply k3_eqb_spec in E; subst. apply (aget_adel_same k3_eqb).
    + apply (aget_adel_other k3_eqb k3_eqb_spec). intros ->. rewrite k3_refl in E; discriminate.
  - destruct (k3_eqb k (m, o, st)) eqn:E; [apply k3_eqb_spec in E; subst; exact G | reflexivity].
Qed.

Lemma inv_remove_file s m o st : Inv s -> Inv (remove_file s m o st).
Proof.
  intros I. unfold remove_file. destruct (get_file s (m, o, st)) eqn:G; [|exact I].
  destruct (del_proofs_files (f_proofs f) s) as (E1 & E2 & _).
  set (s1 := fold_left del_proof (f_proofs f) s) in *.
  assert (G1 : forall k, get_file (with_files s1 (adel k3_eqb (files1 s1) (m, o, st)) (adel k3_eqb (files2 s1) (o, m, st))) k
                         = if k3_eqb k (m, o, st) then None else get_file s k).
  { intros k. unfold get_file; cbn. rewrite E1. destruct (k3_eqb k (m, o, st)) eqn:E.
    - apply k3_eqb_spec in E; subst. apply (aget_adel_same k3_eqb).
    - apply (aget_adel_other k3_eqb k3_eqb_spec). intros ->. rewrite k3_refl in E; discriminate. }
  assert (G2 : forall k, get2 (with_files s1 (adel k3_eqb (files1 s1) (m, o, st)) (adel k3_eqb (files2 s1) (o, m, st))) k
                         = if k3_eqb k (o, m, st) then None else get2 s k).
  { intros k. unfold get2; cbn. rewrite E2. destruct (k3_eqb k (o, m, st)) eqn:E.
    - apply k3_eqb_spec in E; subst. apply (aget_adel_same k3_eqb).
    - apply (aget_adel_other k3_eqb k3_eqb_spec). intros ->. rewrite k3_refl in E; discriminate. }
  split.
  - cbn. rewrite E1. apply (nodup_adel k3_eqb k3_eqb_spec). apply I.
  - cbn. rewrite E2. apply (nodup_adel k3_eqb k3_eqb_spec). apply I.
  - intros m' o' st'. rewrite G1, G2.
    destruct (k3_eqb (m', o', st') (m, o, st)) eqn:E.
    + apply k3_eqb_spec in E. inversion E; subst. rewrite k3_refl. reflexivity.
    + destruct (k3_eqb (o', m', st') (o, m, st)) eqn:E'.
      * apply k3_eqb_spec in E'. inversion E'; subst. rewrite k3_refl in E. discriminate.
      * apply I.
  - intros k g. rewrite G1. destruct (k3_eqb k (m, o, st)); [discriminate | apply I].
  - intros k r. change (get_proof s1 k = Some r -> pk_of r = k). unfold s1. rewrite getp_del_proofs.
    destruct (existsb (k4_eqb k) (f_proofs f)); [discriminate | apply I].
  - intros k g. rewrite G1. destruct (k3_eqb k (m, o, st)) eqn:E; [discriminate|]. intros G'.
    eapply file_ok_ext; [eapply inv_file; eauto|].
    intros x Ix. change (get_proof s1 x = get_proof s x). unfold s1. rewrite getp_del_proofs.
    rewrite existsb_k4_notin; [reflexivity|].
    eapply (listed_keys_disjoint s k g (m, o, st) f); eauto.
    intros ->. rewrite k3_refl in E. discriminate.
Qed.

(* ---------- RemoveProverWithKey: the loop over the slice it shrinks ---------- *)

Definition dkey : pkey := (0%N, 0%N, 0%N, 0).

Lemma in_skipn {A} (x : A) k : forall l, In x (skipn k l) -> In x l.
Proof. induction k; intros [|y l] H; cbn in *; auto. Qed.

Lemma nth_in_skipn {A} (d : A) : forall i l, (i < length l)%nat -> In (nth i l d) (skipn i l).
Proof.
  induction i; intros [|y l] H; cbn in *; try lia; [left; reflexivity|]. apply IHi. lia.
Qed.

Lemma skipn_S_incl {A} (x : A) i : forall l, In x (skipn (S i) l) -> In x (skipn i l).
Proof.
  induction i; intros l H.
  - destruct l; cbn in *; auto.
  - destruct l as [|y l']; [exact H|]. cbn [skipn] in *. apply IHi. exact H.
Qed.

(* no hit among the entries still to be visited: nothing happens *)
Lemma rm_loop_nohit key : forall fuel i arr cur hit,
  (i + fuel <= length arr)%nat -> ~ In key (skipn i arr) ->
  rm_loop fuel i key arr cur hit = Some (arr, cur, hit).
Proof.
  induction fuel as [|fu IH]; intros i arr cur hit L N; cbn; [reflexivity|].
  rewrite k4_neq.
  - apply IH; [lia|]. intros C. apply N. apply skipn_S_incl. exact C.
  - intros E. apply N. rewrite <- E. apply nth_in_skipn. lia.
Qed.

Lemma skipn_cons_nth {A} (d : A) : forall i l x r, skipn i l = x :: r -> x = nth i l d /\ r = skipn (S i) l.
Proof.
  induction i; intros [|y l] x r E; cbn in *; try discriminate.
  - inversion E; auto.
  - apply IHi in E. exact E.
Qed.

Lemma rm_loop_skip key : forall a b i arr cur hit,
  (i + a <= length arr)%nat -> ~ In key (firstn a (skipn i arr)) ->
  rm_loop (a + b) i key arr cur hit = rm_loop b (i + a) key arr cur hit.
Proof.
  induction a as [|a IH]; intros b i arr cur hit L N; cbn [Nat.add rm_loop].
  - f_equal. lia.
  - destruct (skipn i arr) as [|x r] eqn:Sk.
    { assert (length (skipn i arr) = 0%nat) as H0 by (rewrite Sk; reflexivity). rewrite skipn_length in H0. lia. }
    destruct (skipn_cons_nth dkey _ _ _ _ Sk) as (Ex & Er).
    cbn [firstn] in N. fold dkey. rewrite k4_neq.
    + replace (i + S a)%nat with (S i + a)%nat by lia. apply IH; [lia|].
      rewrite <- Er. intros C. apply N. right. exact C.
    + rewrite <- Ex. intros E. apply N. left. exact E.
Qed.

Lemma rm_loop_absent key l :
  ~ In key l -> rm_loop (length l) 0 key l (length l) false = Some (l, length l, false).
Proof. intros N. apply rm_loop_nohit; [lia | exact N]. Qed.

Lemma rm_loop_once key pre post :
  ~ In key pre -> ~ In key post ->
  exists arr, rm_loop (length (pre ++ key :: post)) 0 key (pre ++ key :: post) (length (pre ++ key :: post)) false
              = Some (arr, length (pre ++ post), true) /\ firstn (length (pre ++ post)) arr = pre ++ post.
Proof.
  intros Npre Npost. set (l := pre ++ key :: post). set (i := length pre).
  assert (Ln : length l = (i + S (length post))%nat) by (unfold l, i; rewrite app_length; reflexivity).
  set (tail := skipn (length (pre ++ post)) l).
  exists (pre ++ post ++ tail). split.
  2: { rewrite app_assoc. rewrite firstn_app, Nat.sub_diag, firstn_all. cbn. apply app_nil_r. }
  assert (R : forall cur hit, rm_loop (i + S (length post)) 0 key l cur hit = rm_loop (S (length post)) i key l cur hit).
  { intros cur hit. rewrite rm_loop_skip; [f_equal | lia |].
    cbn [skipn]. unfold l, i. rewrite firstn_app, Nat.sub_diag, firstn_all. cbn. rewrite app_nil_r. exact Npre. }
  rewrite Ln at 1. rewrite R. cbn [rm_loop]. fold dkey.
  assert (Hn : nth i l dkey = key).
  { unfold l, i. rewrite app_nth2 by lia. rewrite Nat.sub_diag. reflexivity. }
  rewrite Hn, k4_refl.
  assert (Hle : Nat.leb (S i) (length l) = true) by (apply Nat.leb_le; lia). rewrite Hle.
  assert (Ef : firstn i l = pre) by (unfold l, i; rewrite firstn_app, Nat.sub_diag, firstn_all; cbn; apply app_nil_r).
  assert (Es : skipn (S i) (firstn (length l) l) = post).
  { rewrite firstn_all. unfold l, i. rewrite skipn_app. rewrite skipn_all2 by lia.
    replace (S (length pre) - length pre)%nat with 1%nat by lia. reflexivity. }
  rewrite Ef, Es.
  assert (Lp : Nat.pred (length l) = length (pre ++ post)) by (rewrite Ln, app_length; unfold i; lia).
  rewrite Lp. fold tail.
  destruct post as [|y post'].
  - cbn. reflexivity.
  - apply rm_loop_nohit.
    + rewrite !app_length. unfold i, tail. rewrite skipn_length. unfold l. rewrite !app_length. cbn. lia.
    + intros C. apply in_skipn in C. rewrite app_assoc in C. apply in_app_or in C as [C|C].
      * apply in_app_or in C as [C|C]; contradiction.
      * unfold tail, l in C. rewrite skipn_app in C. rewrite skipn_all2 in C by (rewrite app_length; lia).
        cbn [app] in C. rewrite app_length in C.
        replace (length pre + length (y :: post') - length pre)%nat with (S (length post')) in C by (cbn; lia).
        cbn [skipn] in C. apply in_skipn in C. contradiction.
Qed.

Lemma inv_set_file_gen s f :
  NoDup (akeys (files1 s)) -> NoDup (akeys (files2 s)) ->
  (forall m o st, get_file s (m, o, st) = get2 s (o, m, st)) ->
  (forall k g, get_file s k = Some g -> fk1 g = k) ->
  (forall k r, get_proof s k = Some r -> pk_of r = k) ->
  file_ok s f ->
  (forall k g, get_file s k = Some g -> k <> fk1 f -> file_ok s g) ->
  Inv (set_file s f).
Proof.
  intros N1 N2 Hidx Hkey Hpk OK Hoth. split.
  - cbn. apply (nodup_aset k3_eqb k3_eqb_spec). exact N1.
  - cbn. apply (nodup_aset k3_eqb k3_eqb_spec). exact N2.
  - intros m o st. rewrite get_set_file, get2_set_file.
    destruct (k3_eqb (m, o, st) (fk1 f)) eqn:E.
    + apply k3_eqb_spec in E. symmetry in E. apply fk12 in E. rewrite <- E, k3_refl. reflexivity.
    + destruct (k3_eqb (o, m, st) (fk2 f)) eqn:E2.
      * apply k3_eqb_spec in E2. symmetry in E2. apply fk12 in E2. rewrite <- E2, k3_refl in E. discriminate.
      * apply Hidx.
  - intros k g. rewrite get_set_file. destruct (k3_eqb k (fk1 f)) eqn:E.
    + intros G; inversion G; subst. apply k3_eqb_spec in E. auto.
    + apply Hkey.
  - intros k r. rewrite getp_set_file. apply Hpk.
  - intros k g. rewrite get_set_file. destruct (k3_eqb k (fk1 f)) eqn:E.
    + intros G; inversion G; subst. eapply file_ok_ext; [exact OK | reflexivity].
    + intros G. eapply file_ok_ext; [eapply Hoth; eauto | reflexivity].
      intros ->. rewrite k3_refl in E. discriminate.
Qed.

Lemma rpk_spec s f key : NoDup (f_proofs f) ->
  (~ In key (f_proofs f) /\ remove_prover_with_key s f key = Some (s, f)) \/
  (exists pre post, f_proofs f = pre ++ key :: post /\ ~ In key (pre ++ post) /\
     remove_prover_with_key s f key =
       Some (set_file (del_proof s key) (with_plist f (pre ++ post)), with_plist f (pre ++ post))).
Proof.
  intros ND. unfold remove_prover_with_key. cbv zeta.
  destruct (in_dec (fun a b => match Bool.bool_dec (k4_eqb a b) true with
                               | left e => left (proj1 (k4_eqb_spec a b) e)
                               | right n => right (fun e => n (proj2 (k4_eqb_spec a b) e)) end) key (f_proofs f)) as [I|N].
  - right. apply in_split in I as (pre & post & E). exists pre, post. split; [exact E|].
    rewrite E in ND. pose proof (NoDup_remove_2 _ _ _ ND) as Nn. split; [exact Nn|].
    rewrite E. destruct (rm_loop_once key pre post) as (arr & R & F).
    + intros C. apply Nn. apply in_or_app; left; exact C.
    + intros C. apply Nn. apply in_or_app; right; exact C.
    + unfold pkey in *. rewrite R, F. reflexivity.
  - left. split; [exact N|]. rewrite rm_loop_absent by exact N. rewrite firstn_all, with_plist_same. reflexivity.
Qed.

Lemma len_with_plist f l : len (with_plist f l) = Z.of_nat (length l). Proof. reflexivity. Qed.

(* the effect of RemoveProverWithKey on a stored file *)
Lemma inv_rpk s f key s' f' :
  Inv s -> get_file s (fk1 f) = Some f -> remove_prover_with_key s f key = Some (s', f') ->
  Inv s' /\ get_file s' (fk1 f') = Some f' /\ fk1 f' = fk1 f /\ incl (f_proofs f') (f_proofs f) /\
  (forall k, k <> fk1 f -> get_file s' k = get_file s k) /\
  burns s' = burns s /\ attests s' = attests s /\ reports s' = reports s /\ ever_valid s' = ever_valid s /\
  (forall k, k <> key -> get_proof s' k = get_proof s k) /\
  f_max f' = f_max f /\ f_interval f' = f_interval f /\ f_start f' = f_start f.
Proof.
  intros I G R. destruct (inv_file s I _ _ G) as (ND & L & H).
  destruct (rpk_spec s f key ND) as [(N & E) | (pre & post & E & Nn & E2)].
  - rewrite E in R. inversion R; subst. split; [exact I|]. split; [exact G|]. split; [reflexivity|].
    split; [apply incl_refl|]. repeat (split; [reflexivity || (intros; reflexivity)|]). reflexivity.
  - rewrite E2 in R. inversion R; subst s' f'. clear R E2.
    assert (Hincl : incl (pre ++ post) (f_proofs f)).
    { rewrite E. intros x Hx. apply in_app_or in Hx as [Hx|Hx]; apply in_or_app; [left | right; right]; exact Hx. }
    split; [|split; [|split; [reflexivity|split; [exact Hincl|split; [|split; [reflexivity|split; [reflexivity|split; [reflexivity|split; [reflexivity|split; [|auto]]]]]]]]]].
    + apply inv_set_file_gen; try apply I.
      * intros k r. rewrite getp_del_proof. destruct (k4_eqb k key); [discriminate | apply I].
      * split; [|split].
        -- cbn. rewrite E in ND. apply NoDup_remove_1 in ND. exact ND.
        -- rewrite len_with_plist. cbn [f_max with_plist]. unfold len in L. rewrite E in L.
           rewrite !app_length in *. cbn in L. lia.
        -- cbn [f_proofs with_plist]. intros k Ik. destruct (H k (Hincl k Ik)) as (A & r & B & C).
           split; [exact A|]. exists r. rewrite getp_del_proof, k4_neq; [auto|].
           intros ->. contradiction.
      * intros k g Gk Nk. rewrite fk1_with_plist in Nk.
        eapply file_ok_ext; [eapply inv_file; eauto|].
        intros x Ix. rewrite getp_del_proof, k4_neq; [reflexivity|].
        intros ->. eapply (listed_keys_disjoint s k g (fk1 f) f); eauto.
        rewrite E. apply in_or_app; right; left; reflexivity.
    + rewrite get_set_file, k3_refl. reflexivity.
    + intros k Nk. rewrite get_set_file, fk1_with_plist, k3_neq by exact Nk. reflexivity.
    + intros k Nk. rewrite getp_set_file, getp_del_proof, k4_neq by exact Nk. reflexivity.
Qed.

Lemma rpk_total s f key : NoDup (f_proofs f) -> remove_prover_with_key s f key <> None.
Proof.
  intros ND. destruct (rpk_spec s f key ND) as [(_ & E) | (pre & post & _ & _ & E)]; rewrite E; discriminate.
Qed.

(* ---------- the fields the invariant does not read ---------- *)

Lemma inv_with_ghost s g : Inv s -> Inv (with_ghost s g).
Proof. intros I. split; apply I. Qed.
Lemma inv_with_attests s a : Inv s -> Inv (with_attests s a).
Proof. intros I. split; apply I. Qed.
Lemma inv_with_reports s a : Inv s -> Inv (with_reports s a).
Proof. intros I. split; apply I. Qed.
Lemma inv_with_burns s a : Inv s -> Inv (with_burns s a).
Proof. intros I. split; apply I. Qed.

(* ---------- AddProver ---------- *)

Lemma contains_prover_false f prover : contains_prover f prover = false -> ~ In (mk_pkey f prover) (f_proofs f).
Proof. unfold contains_prover. intros E C. apply existsb_k4_in in C. congruence. Qed.

Lemma nodup_snoc {A} (k : A) : forall l, NoDup l -> ~ In k l -> NoDup (l ++ [k]).
Proof.
  induction l as [|x r IH]; intros ND N; cbn.
  - constructor; [intros []|constructor].
  - inversion ND as [|? ? Hn Hr]; subst. constructor.
    + intros Cx. apply in_app_or in Cx as [Cx|[Cx|[]]]; [contradiction | subst; apply N; left; reflexivity].
    + apply IH; [exact Hr | intros Cx; apply N; right; exact Cx].
Qed.

Lemma inv_add_prover s f prover h :
  Inv s -> get_file s (fk1 f) = Some f -> contains_prover f prover = false -> Inv (add_prover s f prover h).
Proof.
  intros I G C. unfold add_prover. destruct (len f >=? f_max f) eqn:EL; [exact I|].
  destruct (inv_file s I _ _ G) as (ND & L & H).
  apply inv_set_file; [apply inv_set_proof; exact I|].
  split; [|split].
  - cbn [f_proofs with_plist]. apply nodup_snoc; [exact ND | apply contains_prover_false; exact C].
  - rewrite len_with_plist. cbn [f_max with_plist]. rewrite app_length. cbn. unfold len in EL. lia.
  - cbn [f_proofs with_plist]. intros k Ik. rewrite fk1_with_plist. apply in_app_or in Ik as [Ik|[Ik|[]]].
    + destruct (H k Ik) as (A & r & B & Cc). split; [exact A|].
      rewrite getp_set_proof. destruct (k4_eqb k (pk_of (fresh_proof f prover h))) eqn:E.
      * apply k4_eqb_spec in E. eexists; split; [reflexivity | symmetry; exact E].
      * exists r. auto.
    + subst k. split; [reflexivity|]. rewrite getp_set_proof.
      change (pk_of (fresh_proof f prover h)) with (mk_pkey f prover). rewrite k4_refl.
      eexists; split; reflexivity.
Qed.

(* ---------- every message keeps the invariant ---------- *)

Lemma inv_post_file s c m h e sz mx iv pt n paid : Inv s -> Inv (r_state (post_file s c m h e sz mx iv pt n paid)).
Proof.
  intros I. unfold post_file.
  destruct ((sz <=? 0) || (mx <=? 0)) eqn:E1; [exact I|].
  destruct (sz >? Z.quot max_int64 mx); [exact I|]. destruct paid; [|exact I]. cbn [negb r_state ok_].
  apply inv_set_file; [apply inv_remove_file; exact I|].
  split; [constructor|]. split; [|intros k []].
  cbn. apply orb_false_iff in E1 as [_ E1]. lia.
Qed.

Lemma inv_delete_file s c m st : Inv s -> Inv (r_state (delete_file s c m st)).
Proof. intros I. apply inv_remove_file. exact I. Qed.

Lemma inv_post_proof s c m o st h tp v nc cs : Inv s -> Inv (r_state (post_proof s c m o st h tp v nc cs)).
Proof.
  intros I. unfold post_proof. destruct (get_file s (m, o, st)) as [f|] eqn:G; [|exact I].
  assert (Gk : get_file s (fk1 f) = Some f) by (rewrite (inv_key s I _ _ G); exact G).
  set (cand := if len f =? f_max f then _ else _).
  assert (Hc : forall p isnew, cand = Some (p, isnew) -> isnew = true -> contains_prover f c = false).
  { intros p isnew. unfold cand.
    destruct (len f =? f_max f); [destruct (get_prover s f c); intros Q; inversion Q; discriminate|].
    destruct (contains_prover f c) eqn:CP; [destruct (get_prover s f c); intros Q; inversion Q; discriminate|].
    reflexivity. }
  destruct cand as [[p isnew]|]; [|exact I].
  destruct (negb (tp =? p_chunk p)); [exact I|].
  destruct (f_interval f =? 0); [exact I|]. destruct (negb v); [exact I|]. destruct (cs =? 0); [exact I|].
  cbn [r_state ok_]. apply inv_with_ghost. apply inv_set_proof.
  destruct isnew; [|exact I]. apply inv_add_prover; auto. eapply Hc; reflexivity.
Qed.

Lemma inv_attest s c p m o st h mp : Inv s -> Inv (r_state (attest s c p m o st h mp)).
Proof.
  intros I. unfold attest. destruct (aget k4_eqb (attests s) (p, m, o, st)) as [fm|]; [|exact I].
  destruct (negb (is_listed c (fm_atts fm))); [exact I|].
  destruct (count_complete (mark c (fm_atts fm)) <? mp); [apply inv_with_attests; exact I|].
  destruct (get_file s (fm_merkle fm, fm_owner fm, fm_start fm)) as [f|]; [|exact I].
  destruct (get_prover s f (fm_prover fm)); [|exact I].
  cbn [r_state ok_]. apply inv_with_attests. apply inv_set_proof. exact I.
Qed.

Lemma inv_report s c p m o st mp : Inv s -> Inv (r_state (report s c p m o st mp)).
Proof.
  intros I. unfold report. destruct (aget k4_eqb (reports s) (p, m, o, st)) as [fm|]; [|exact I].
  destruct (negb (is_listed c (fm_atts fm))); [exact I|].
  destruct (count_complete (mark c (fm_atts fm)) <? mp); [apply inv_with_reports; exact I|].
  destruct (get_file s (m, o, st)) as [f|] eqn:G; [|exact I].
  set (s1 := with_reports s _).
  destruct (remove_prover_with_key s1 f (mk_pkey f p)) as [[s2 f2]|] eqn:R; [|exact I].
  cbn [r_state ok_].
  assert (I1 : Inv s1) by (apply inv_with_reports; exact I).
  assert (G1 : get_file s1 (fk1 f) = Some f) by (rewrite (inv_key s I _ _ G); exact G).
  apply (inv_rpk s1 f _ s2 f2 I1 G1 R).
Qed.

Lemma inv_req_attest s c m o st ch : Inv s -> Inv (r_state (req_attest s c m o st ch)).
Proof.
  intros I. unfold req_attest. destruct (get_file s (m, o, st)); [|exact I].
  destruct (get_prover s f c); [|exact I]. destruct (aget k4_eqb (attests s) (c, m, o, st)); [exact I|].
  destruct ch; [apply inv_with_attests|]; exact I.
Qed.

Lemma inv_req_report s p m o st ch : Inv s -> Inv (r_state (req_report s p m o st ch)).
Proof.
  intros I. unfold req_report. destruct (get_file s (m, o, st)); [|exact I].
  destruct (aget k4_eqb (reports s) (p, m, o, st)); [exact I|]. destruct (get_prover s f p); [|exact I].
  destruct ch; [apply inv_with_reports|]; exact I.
Qed.

Lemma inv_init_provider s c paid : Inv s -> Inv (r_state (init_provider s c paid)).
Proof. intros I. unfold init_provider. destruct (aget N.eqb (burns s) c); [exact I|]. destruct paid; [apply inv_with_burns|]; exact I. Qed.
Lemma inv_shutdown s c paid : Inv s -> Inv (r_state (shutdown_provider s c paid)).
Proof. intros I. unfold shutdown_provider. destruct (aget N.eqb (burns s) c); [|exact I]. destruct paid; [apply inv_with_burns|]; exact I. Qed.

(* ---------- the reward block ---------- *)

Lemma aget_in {K V} (eqb : K -> K -> bool) (spec : forall a b, eqb a b = true <-> a = b) :
  forall (l : list (K * V)) k v, NoDup (akeys l) -> In (k, v) l -> aget eqb l k = Some v.
Proof.
  induction l as [|[k0 v0] r IH]; intros k v ND I; cbn in *; [contradiction|].
  inversion ND as [|? ? Hn Hr]; subst. destruct I as [E|I].
  - inversion E; subst. rewrite (proj2 (spec k k) eq_refl). reflexivity.
  - destruct (eqb k k0) eqn:E.
    + apply spec in E; subst. exfalso. apply Hn. unfold akeys. apply (in_map fst) in I. exact I.
    + apply IH; assumption.
Qed.

Lemma inv_burn_contract s p : Inv s -> Inv (burn_contract s p).
Proof. intros I. unfold burn_contract. destruct (aget N.eqb (burns s) p); [apply inv_with_burns|]; exact I. Qed.

(* lists only shrink (or are emptied/replaced by an empty one): s' is reached from s without registering anyone *)
Definition shrinks (s s' : sstate) : Prop :=
  forall fk f', get_file s' fk = Some f' ->
    f_proofs f' = [] \/ exists f, get_file s fk = Some f /\ incl (f_proofs f') (f_proofs f).

Lemma shrinks_refl s : shrinks s s.
Proof. intros fk f G. right. exists f. split; [exact G | apply incl_refl]. Qed.
Lemma shrinks_trans a b c : shrinks a b -> shrinks b c -> shrinks a c.
Proof.
  intros AB BC fk f'' G. destruct (BC fk f'' G) as [E | (f' & G' & I')]; [left; exact E|].
  destruct (AB fk f' G') as [E | (f & G0 & I0)].
  - left. rewrite E in I'. destruct (f_proofs f'') as [|x r]; [reflexivity|]. exfalso. apply (I' x). left; reflexivity.
  - right. exists f. split; [exact G0 | eapply incl_tran; eauto].
Qed.
Lemma shrinks_same_files s s' : (forall k, get_file s' k = get_file s k) -> shrinks s s'.
Proof. intros E fk f G. rewrite E in G. right. exists f. split; [exact G | apply incl_refl]. Qed.

Definition WInv (w : walk) : Prop :=
  Inv (w_state w) /\ get_file (w_state w) (fk1 (w_file w)) = Some (w_file w).

(* what one manageProof call may do *)
Record walk_step (h : Z) (w w' : walk) (key : pkey) : Prop := {
  ws_inv : WInv w';
  ws_fk : fk1 (w_file w') = fk1 (w_file w);
  ws_incl : incl (f_proofs (w_file w')) (f_proofs (w_file w));
  ws_keep : forall x, In x (f_proofs (w_file w)) -> x <> key -> In x (f_proofs (w_file w'));
  ws_frame : forall k, k <> fk1 (w_file w) -> get_file (w_state w') k = get_file (w_state w) k;
  ws_ghost : ever_valid (w_state w') = ever_valid (w_state w);
  ws_credit : w_credits w' = w_credits w \/
              (In key (f_proofs (w_file w)) /\ w_credits w' = (pk_prover key, pk_file key) :: w_credits w)
}.

Lemma rpk_keeps s f key s' f' x :
  NoDup (f_proofs f) -> remove_prover_with_key s f key = Some (s', f') ->
  In x (f_proofs f) -> x <> key -> In x (f_proofs f').
Proof.
  intros ND R I N. destruct (rpk_spec s f key ND) as [(_ & E) | (pre & post & E & _ & E2)].
  - rewrite E in R. inversion R; subst. exact I.
  - rewrite E2 in R. inversion R; subst. cbn. rewrite E in I.
    apply in_app_or in I as [I|[I|I]]; [apply in_or_app; left; exact I | congruence | apply in_or_app; right; exact I].
Qed.

Lemma manage_proof_step h w key w' :
  WInv w -> In key (f_proofs (w_file w)) -> manage_proof h w key = Some w' -> walk_step h w w' key.
Proof.
  intros (I & G) Ik M. unfold manage_proof in M.
  destruct (inv_file _ I _ _ G) as (ND & L & H). destruct (H key Ik) as (A & r & B & C).
  rewrite B in M. rewrite andb_false_r in M.
  destruct (f_interval (w_file w) =? 0); [discriminate|].
  destruct (negb (proven_last_block (w_file w) h (p_last r)) && negb (is_young (w_file w) h)).
  - destruct (remove_prover_with_key (w_state w) (w_file w) key) as [[s' f']|] eqn:R; [|discriminate].
    inversion M; subst w'; clear M. cbn.
    destruct (inv_rpk _ _ _ _ _ I G R) as (I' & G' & Fk & Inc & Fr & Eb & Ea & Er & Eg & _).
    split; cbn.
    + split; [apply inv_burn_contract; exact I'|].
      unfold burn_contract. destruct (aget N.eqb (burns s') (pk_prover key)); exact G'.
    + exact Fk.
    + exact Inc.
    + intros x Ix Nx. eapply rpk_keeps; eauto.
    + intros k Nk. unfold burn_contract. destruct (aget N.eqb (burns s') (pk_prover key)); apply Fr; exact Nk.
    + unfold burn_contract. destruct (aget N.eqb (burns s') (pk_prover key)); exact Eg.
    + left; reflexivity.
  - inversion M; subst w'; clear M. split; cbn; auto.
    + split; assumption.
    + apply incl_refl.
    + right. split; [exact Ik|]. f_equal. f_equal.
      * rewrite <- C. reflexivity.
      * symmetry. exact A.
Qed.

(* the whole walk over (a copy of) the file's list *)
Record walk_all (w w' : walk) (keys : list pkey) : Prop := {
  wa_inv : WInv w';
  wa_fk : fk1 (w_file w') = fk1 (w_file w);
  wa_incl : incl (f_proofs (w_file w')) (f_proofs (w_file w));
  wa_frame : forall k, k <> fk1 (w_file w) -> get_file (w_state w') k = get_file (w_state w) k;
  wa_ghost : ever_valid (w_state w') = ever_valid (w_state w);
  wa_credit : forall c, In c (w_credits w') ->
              In c (w_credits w) \/ exists k, In k keys /\ c = (pk_prover k, pk_file k)
}.

Lemma manage_proofs_all h : forall keys w w',
  WInv w -> NoDup keys -> incl keys (f_proofs (w_file w)) ->
  manage_proofs h w keys = Some w' -> walk_all w w' keys.
Proof.
  induction keys as [|k r IH]; intros w w' WI ND Inc M; cbn in M.
  - inversion M; subst. split; auto. apply incl_refl.
  - destruct (manage_proof h w k) as [w1|] eqn:M1; [|discriminate].
    assert (Ik : In k (f_proofs (w_file w))) by (apply Inc; left; reflexivity).
    pose proof (manage_proof_step h w k w1 WI Ik M1) as S1.
    inversion ND as [|? ? Hn Hr]; subst.
    assert (Inc1 : incl r (f_proofs (w_file w1))).
    { intros x Ix. apply (ws_keep _ _ _ _ S1); [apply Inc; right; exact Ix | intros ->; contradiction]. }
    pose proof (IH w1 w' (ws_inv _ _ _ _ S1) Hr Inc1 M) as S2.
    split.
    + exact (wa_inv _ _ _ S2).
    + rewrite (wa_fk _ _ _ S2). exact (ws_fk _ _ _ _ S1).
    + eapply incl_tran; [exact (wa_incl _ _ _ S2) | exact (ws_incl _ _ _ _ S1)].
    + intros k0 Nk. rewrite (wa_frame _ _ _ S2) by (rewrite (ws_fk _ _ _ _ S1); exact Nk). apply (ws_frame _ _ _ _ S1); exact Nk.
    + rewrite (wa_ghost _ _ _ S2). exact (ws_ghost _ _ _ _ S1).
    + intros c Ic. destruct (wa_credit _ _ _ S2 c Ic) as [Ic1 | (k0 & Ik0 & E)].
      * destruct (ws_credit _ _ _ _ S1) as [E | (_ & E)]; rewrite E in Ic1.
        -- left; exact Ic1.
        -- destruct Ic1 as [E1 | Ic1]; [right; exists k; split; [left; reflexivity | symmetry; exact E1] | left; exact Ic1].
      * right. exists k0. split; [right; exact Ik0 | exact E].
Qed.

(* one file of the iteration *)
Record file_done (s s' : sstate) (f : file) (cr cr' : list (N * fkey)) : Prop := {
  fd_inv : Inv s';
  fd_frame : forall k, k <> fk1 f -> get_file s' k = get_file s k;
  fd_own : get_file s' (fk1 f) = None \/
           exists f', get_file s' (fk1 f) = Some f' /\ incl (f_proofs f') (f_proofs f);
  fd_ghost : ever_valid s' = ever_valid s;
  fd_credit : forall c, In c cr' -> In c cr \/ exists k, In k (f_proofs f) /\ c = (pk_prover k, pk_file k)
}.

Lemma ever_valid_remove_file s m o st : ever_valid (remove_file s m o st) = ever_valid s.
Proof.
  unfold remove_file. destruct (get_file s (m, o, st)); [|reflexivity]. cbn.
  destruct (del_proofs_files (f_proofs f) s) as (_ & _ & _ & _ & _ & E). exact E.
Qed.

Lemma manage_file_done h s cr f s' cr' :
  Inv s -> get_file s (fk1 f) = Some f -> manage_file h (s, cr) f = Some (s', cr') -> file_done s s' f cr cr'.
Proof.
  intros I G M. unfold manage_file in M.
  destruct (f_proofs f) as [|k0 r0] eqn:EP.
  - cbn in M. inversion M; subst; clear M.
    destruct (negb (is_young f h)).
    + split.
      * apply inv_remove_file; exact I.
      * intros k Nk. unfold fk1 in Nk. rewrite get_file_remove, k3_neq by exact Nk. reflexivity.
      * left. rewrite get_file_remove. unfold fk1. rewrite k3_refl. reflexivity.
      * apply ever_valid_remove_file.
      * intros c Ic; left; exact Ic.
    + split; auto. right. exists f. split; [exact G | apply incl_refl].
  - rewrite <- EP in M.
    destruct (manage_proofs h {| w_state := s; w_file := f; w_credits := cr |} (f_proofs f)) as [w|] eqn:MP; [|discriminate].
    inversion M; subst; clear M.
    destruct (inv_file s I _ _ G) as (ND & _).
    assert (WI : WInv {| w_state := s; w_file := f; w_credits := cr |}) by (split; assumption).
    pose proof (manage_proofs_all h _ _ _ WI ND (incl_refl _) MP) as S.
    destruct (wa_inv _ _ _ S) as (I' & G').
    pose proof (wa_fk _ _ _ S) as Fk. pose proof (wa_frame _ _ _ S) as Fr. pose proof (wa_incl _ _ _ S) as Inc.
    pose proof (wa_ghost _ _ _ S) as Gh. pose proof (wa_credit _ _ _ S) as Cr. cbn in Fk, Fr, Inc, Gh, Cr.
    split.
    + exact I'.
    + exact Fr.
    + right. exists (w_file w). rewrite <- Fk. split; [exact G' | exact Inc].
    + exact Gh.
    + exact Cr.
Qed.

Lemma manage_files_done h : forall fs s cr s' cr',
  Inv s -> NoDup (map fk1 fs) -> (forall f, In f fs -> get_file s (fk1 f) = Some f) ->
  manage_files h (s, cr) fs = Some (s', cr') ->
  Inv s' /\ shrinks s s' /\ ever_valid s' = ever_valid s /\
  forall c, In c cr' -> In c cr \/ exists f k, In f fs /\ In k (f_proofs f) /\ c = (pk_prover k, pk_file k).
Proof.
  induction fs as [|f r IH]; intros s cr s' cr' I ND Hg M; cbn [manage_files] in M.
  - inversion M; subst. split; [exact I|]. split; [apply shrinks_refl|]. split; [reflexivity|]. intros c Ic; left; exact Ic.
  - destruct (manage_file h (s, cr) f) as [[s1 cr1]|] eqn:M1; [|discriminate].
    pose proof (manage_file_done h s cr f s1 cr1 I (Hg f (or_introl eq_refl)) M1) as D.
    cbn in ND. inversion ND as [|? ? Hn Hr]; subst.
    assert (Hg1 : forall g, In g r -> get_file s1 (fk1 g) = Some g).
    { intros g Ig. rewrite (fd_frame _ _ _ _ _ D); [apply Hg; right; exact Ig|].
      intros E. apply Hn. rewrite <- E. apply in_map. exact Ig. }
    destruct (IH s1 cr1 s' cr' (fd_inv _ _ _ _ _ D) Hr Hg1 M) as (I' & Sh & Eg & Cr).
    split; [exact I'|]. split; [|split].
    + eapply shrinks_trans; [|exact Sh].
      intros fk g' Gg. destruct (k3_eqb fk (fk1 f)) eqn:E.
      * apply k3_eqb_spec in E; subst fk. destruct (fd_own _ _ _ _ _ D) as [En | (f' & Gf & Inc)].
        -- rewrite En in Gg; discriminate.
        -- rewrite Gf in Gg; inversion Gg; subst. right. exists f. split; [apply Hg; left; reflexivity | exact Inc].
      * rewrite (fd_frame _ _ _ _ _ D) in Gg by (intros ->; rewrite k3_refl in E; discriminate).
        right. exists g'. split; [exact Gg | apply incl_refl].
    + rewrite Eg. exact (fd_ghost _ _ _ _ _ D).
    + intros c Ic. destruct (Cr c Ic) as [Ic1 | (g & k & Ig & Ik & E)].
      * destruct (fd_credit _ _ _ _ _ D c Ic1) as [Ic0 | (k & Ik & E)]; [left; exact Ic0|].
        right. exists f, k. split; [left; reflexivity | auto].
      * right. exists g, k. split; [right; exact Ig | auto].
Qed.

Lemma snapshot_ok s : Inv s ->
  NoDup (map fk1 (map snd (files1 s))) /\ forall f, In f (map snd (files1 s)) -> get_file s (fk1 f) = Some f.
Proof.
  intros I.
  assert (H : forall k f, In (k, f) (files1 s) -> get_file s k = Some f /\ fk1 f = k).
  { intros k f Ik. assert (get_file s k = Some f) as G by (apply (aget_in k3_eqb k3_eqb_spec); [apply I | exact Ik]).
    split; [exact G | apply (inv_key s I _ _ G)]. }
  split.
  - pose proof (inv_nd1 s I) as ND. unfold akeys in ND.
    assert (E : map fk1 (map snd (files1 s)) = map fst (files1 s)).
    { rewrite map_map. apply map_ext_in. intros [k f] Ik. cbn. apply H. exact Ik. }
    rewrite E. exact ND.
  - intros f If. apply in_map_iff in If as ([k f'] & E & Ik). cbn in E; subst f'.
    destruct (H k f Ik) as (G & Ek). rewrite Ek. exact G.
Qed.

Lemma reward_block_ok s h cw s' cr :
  Inv s -> reward_block s h cw = Some (s', cr) ->
  Inv s' /\ shrinks s s' /\ ever_valid s' = ever_valid s /\
  forall c, In c cr -> exists f k, get_file s (fk1 f) = Some f /\ In k (f_proofs f) /\ c = (pk_prover k, pk_file k).
Proof.
  intros I R. unfold reward_block in R. destruct (cw =? 0); [discriminate|].
  destruct (Z.rem h cw >? 0).
  - inversion R; subst. split; [exact I|]. split; [apply shrinks_refl|]. split; [reflexivity|]. intros c [].
  - destruct (snapshot_ok s I) as (ND & Hg).
    destruct (manage_files_done h _ _ _ _ _ I ND Hg R) as (I' & Sh & Eg & Cr).
    split; [exact I'|]. split; [exact Sh|]. split; [exact Eg|].
    intros c Ic. destruct (Cr c Ic) as [[] | (f & k & If & Ik & E)]. exists f, k. split; [apply Hg; exact If | auto].
Qed.

(* ---------- C17: the invariant is inductive ---------- *)

Theorem inv_msg_step s o : Inv s -> Inv (r_state (msg_step s o)).
Proof.
  intros I. destruct o; cbn [msg_step].
  - apply inv_post_file; exact I.
  - apply inv_delete_file; exact I.
  - apply inv_post_proof; exact I.
  - apply inv_attest; exact I.
  - apply inv_report; exact I.
  - apply inv_req_attest; exact I.
  - apply inv_req_report; exact I.
  - apply inv_init_provider; exact I.
  - apply inv_shutdown; exact I.
  - destruct (reward_block s height cw) as [[s' cr]|] eqn:R; [|exact I].
    cbn. apply (reward_block_ok s height cw s' cr I R).
Qed.

Theorem inv_step s o : Inv s -> Inv (step s o).
Proof. apply inv_msg_step. Qed.

Theorem inv_run ops : forall s, Inv s -> Inv (run s ops).
Proof. induction ops as [|o r IH]; intros s I; cbn; [exact I | apply IH; apply inv_step; exact I]. Qed.

Theorem inv_history ops : Inv (run init ops).
Proof. apply inv_run. apply inv_init. Qed.

(* ---------- listing level: both listings hold exactly the same files ---------- *)

Lemma aget_some_in {K V} (eqb : K -> K -> bool) (spec : forall a b, eqb a b = true <-> a = b) :
  forall (l : list (K * V)) k v, aget eqb l k = Some v -> In (k, v) l.
Proof.
  induction l as [|[k0 v0] r IH]; intros k v G; cbn in *; [discriminate|].
  destruct (eqb k k0) eqn:E.
  - apply spec in E; subst. inversion G; subst. left; reflexivity.
  - right. apply IH. exact G.
Qed.

Lemma same_listing s : Inv s -> forall f, In f (map snd (files1 s)) <-> In f (map snd (files2 s)).
Proof.
  intros I f. split; intros H; apply in_map_iff in H as ([k g] & E & Ik); cbn in E; subst g.
  - assert (G : get_file s k = Some f) by (apply (aget_in k3_eqb k3_eqb_spec); [apply I | exact Ik]).
    destruct k as [[m o] st]. rewrite (inv_idx s I) in G.
    apply (aget_some_in k3_eqb k3_eqb_spec) in G. apply in_map_iff. exists ((o, m, st), f). auto.
  - assert (G : get2 s k = Some f) by (apply (aget_in k3_eqb k3_eqb_spec); [apply I | exact Ik]).
    destruct k as [[o m] st]. rewrite <- (inv_idx s I) in G.
    apply (aget_some_in k3_eqb k3_eqb_spec) in G. apply in_map_iff. exists ((m, o, st), f). auto.
Qed.

Lemma listed_has_record s k f x :
  Inv s -> get_file s k = Some f -> In x (f_proofs f) ->
  x = mk_pkey f (pk_prover x) /\ exists r, get_proof s x = Some r /\ pk_of r = x.
Proof.
  intros I G Ix. destruct (inv_file s I _ _ G) as (_ & _ & H). destruct (H x Ix) as (A & R).
  split; [apply pk_decompose; exact A | exact R].
Qed.

(* ====================== C01 ====================== *)

Lemma get_prover_in_some s k : forall l p, get_prover_in s k l = Some p -> In k l /\ get_proof s k = Some p.
Proof.
  induction l as [|x r IH]; intros p G; cbn in G; [discriminate|].
  destruct (k4_eqb x k) eqn:E.
  - apply k4_eqb_spec in E; subst x. destruct (get_proof s k) eqn:GP.
    + inversion G; subst. split; [left; reflexivity | reflexivity].
    + destruct (IH p G) as (A & B). split; [right; exact A | exact B].
  - destruct (IH p G) as (A & B). split; [right; exact A | exact B].
Qed.
Lemma get_prover_in_notin s k : forall l, ~ In k l -> get_prover_in s k l = None.
Proof.
  induction l as [|x r IH]; intros N; cbn; [reflexivity|].
  rewrite k4_neq by (intros ->; apply N; left; reflexivity). apply IH. intros C; apply N; right; exact C.
Qed.
Lemma get_prover_listed s f pr p :
  get_prover s f pr = Some p -> In (mk_pkey f pr) (f_proofs f) /\ get_proof s (mk_pkey f pr) = Some p.
Proof. apply get_prover_in_some. Qed.
Lemma contains_prover_true f pr : contains_prover f pr = true <-> In (mk_pkey f pr) (f_proofs f).
Proof. apply existsb_k4_in. Qed.

(* the challenge PostProof compares ToProve with: the listed prover's stored one, 0 for a newcomer *)
Definition stored_challenge (s : sstate) (f : file) (c : N) : Z :=
  match get_prover s f c with Some p => p_chunk p | None => 0 end.

Lemma post_proof_refused_unchanged s c m o st h tp v nc cs :
  r_success (post_proof s c m o st h tp v nc cs) = false -> r_state (post_proof s c m o st h tp v nc cs) = s.
Proof.
  unfold post_proof. destruct (get_file s (m, o, st)) as [f|]; [|reflexivity].
  destruct (if len f =? f_max f then _ else _) as [[p isnew]|]; [|reflexivity].
  destruct (negb (tp =? p_chunk p)); [reflexivity|]. destruct (f_interval f =? 0); [reflexivity|].
  destruct (negb v); [reflexivity|]. destruct (cs =? 0); [reflexivity|]. cbn. discriminate.
Qed.

Lemma post_proof_success s c m o st h tp v nc cs :
  r_success (post_proof s c m o st h tp v nc cs) = true ->
  exists f, get_file s (m, o, st) = Some f /\ (contains_prover f c = true \/ len f < f_max f) /\
            tp = stored_challenge s f c /\ v = true.
Proof.
  unfold post_proof. destruct (get_file s (m, o, st)) as [f|]; [|cbn; discriminate].
  intros H. exists f. split; [reflexivity|]. revert H. unfold stored_challenge.
  assert (A : forall p, get_prover s f c = Some p -> contains_prover f c = true).
  { intros p G. apply contains_prover_true. apply (get_prover_listed s f c p G). }
  destruct (len f =? f_max f) eqn:E1.
  - destruct (get_prover s f c) as [p|] eqn:G; [|cbn; discriminate].
    destruct (tp =? p_chunk p) eqn:E2; [|cbn; discriminate]. cbn [negb].
    destruct (f_interval f =? 0); [cbn; discriminate|]. destruct v; [|cbn; discriminate].
    intros _. split; [left; eapply A; reflexivity|]. split; [apply Z.eqb_eq; exact E2 | reflexivity].
  - destruct (contains_prover f c) eqn:CP.
    + destruct (get_prover s f c) as [p|] eqn:G; [|cbn; discriminate].
      destruct (tp =? p_chunk p) eqn:E2; [|cbn; discriminate]. cbn [negb].
      destruct (f_interval f =? 0); [cbn; discriminate|]. destruct v; [|cbn; discriminate].
      intros _. split; [left; reflexivity|]. split; [apply Z.eqb_eq; exact E2 | reflexivity].
    + destruct (len f >=? f_max f) eqn:E3; [cbn; discriminate|].
      cbn [fresh_proof p_chunk]. destruct (tp =? 0) eqn:E2; [|cbn; discriminate]. cbn [negb].
      destruct (f_interval f =? 0); [cbn; discriminate|]. destruct v; [|cbn; discriminate].
      intros _. split; [right; lia|]. split; [|reflexivity].
      unfold get_prover. rewrite get_prover_in_notin by (apply contains_prover_false; exact CP).
      apply Z.eqb_eq; exact E2.
Qed.

Theorem postproof_effects s c m o st h tp v nc cs :
  let r := post_proof s c m o st h tp v nc cs in
  (r_success r = false -> r_state r = s) /\
  ((exists fk, get_file (r_state r) fk <> get_file s fk) \/ (exists k, get_proof (r_state r) k <> get_proof s k) ->
   exists f, get_file s (m, o, st) = Some f /\ (contains_prover f c = true \/ len f < f_max f) /\
             tp = stored_challenge s f c /\ v = true).
Proof.
  intros r. split; [apply post_proof_refused_unchanged|].
  intros D. destruct (r_success r) eqn:S; [apply (post_proof_success s c m o st h tp v nc cs); exact S|].
  apply post_proof_refused_unchanged in S. fold r in S. rewrite S in D.
  destruct D as [(fk & N) | (k & N)]; exfalso; apply N; reflexivity.
Qed.

(* ---------- Attest ---------- *)

Theorem attest_effects s c p m o st h mp :
  Inv s ->
  let s' := r_state (attest s c p m o st h mp) in
  (forall k, get_file s' k = get_file s k) /\
  (forall k, get_proof s' k <> get_proof s k ->
     exists fm f r, aget k4_eqb (attests s) (p, m, o, st) = Some fm /\
       is_listed c (fm_atts fm) = true /\ mp <= count_complete (mark c (fm_atts fm)) /\
       get_file s (fm_merkle fm, fm_owner fm, fm_start fm) = Some f /\
       In (mk_pkey f (fm_prover fm)) (f_proofs f) /\ k = mk_pkey f (fm_prover fm) /\
       get_proof s k = Some r /\
       get_proof s' k = Some {| p_prover := p_prover r; p_merkle := p_merkle r; p_owner := p_owner r;
                                p_start := p_start r; p_last := h; p_chunk := p_chunk r |}).
Proof.
  intros I s'. unfold s', attest.
  destruct (aget k4_eqb (attests s) (p, m, o, st)) as [fm|] eqn:GA; [|split; [reflexivity | intros k N; exfalso; apply N; reflexivity]].
  destruct (is_listed c (fm_atts fm)) eqn:IL; cbn [negb]; [|split; [reflexivity | intros k N; exfalso; apply N; reflexivity]].
  destruct (count_complete (mark c (fm_atts fm)) <? mp) eqn:CC; [split; [reflexivity | intros k N; exfalso; apply N; reflexivity]|].
  destruct (get_file s (fm_merkle fm, fm_owner fm, fm_start fm)) as [f|] eqn:GF; [|split; [reflexivity | intros k N; exfalso; apply N; reflexivity]].
  destruct (get_prover s f (fm_prover fm)) as [r|] eqn:GP; [|split; [reflexivity | intros k N; exfalso; apply N; reflexivity]].
  cbn [r_state ok_]. split; [reflexivity|].
  destruct (get_prover_listed s f _ r GP) as (Il & Gr).
  pose proof (inv_pkey s I _ _ Gr) as Ek.
  intros k N.
  change (get_proof (set_proof s {| p_prover := p_prover r; p_merkle := p_merkle r; p_owner := p_owner r;
                                    p_start := p_start r; p_last := h; p_chunk := p_chunk r |}) k <> get_proof s k) in N.
  rewrite getp_set_proof in N. change (pk_of {| p_prover := p_prover r; p_merkle := p_merkle r; p_owner := p_owner r;
                                    p_start := p_start r; p_last := h; p_chunk := p_chunk r |}) with (pk_of r) in N.
  destruct (k4_eqb k (pk_of r)) eqn:E; [|exfalso; apply N; reflexivity].
  apply k4_eqb_spec in E. rewrite Ek in E. subst k.
  exists fm, f, r. split; [reflexivity|]. split; [exact IL|]. split; [apply Z.ltb_ge; exact CC|].
  split; [exact GF|]. split; [exact Il|]. split; [reflexivity|]. split; [exact Gr|].
  change (get_proof (set_proof s {| p_prover := p_prover r; p_merkle := p_merkle r; p_owner := p_owner r;
                                    p_start := p_start r; p_last := h; p_chunk := p_chunk r |}) (mk_pkey f (fm_prover fm)) = Some {| p_prover := p_prover r; p_merkle := p_merkle r; p_owner := p_owner r;
                                p_start := p_start r; p_last := h; p_chunk := p_chunk r |}).
  rewrite getp_set_proof. change (pk_of {| p_prover := p_prover r; p_merkle := p_merkle r; p_owner := p_owner r;
                                    p_start := p_start r; p_last := h; p_chunk := p_chunk r |}) with (pk_of r).
  rewrite Ek, k4_refl. reflexivity.
Qed.

(* ---------- the ghost history of accepted valid proofs ---------- *)

Definition Listed (s : sstate) (p : N) (fk : fkey) : Prop :=
  exists f, get_file s fk = Some f /\ In (mk_pkey f p) (f_proofs f).

Definition GInv (s : sstate) : Prop := forall p fk, Listed s p fk -> In (p, fk) (ever_valid s).

Lemma mk_pkey_same_key f g p : fk1 f = fk1 g -> mk_pkey f p = mk_pkey g p.
Proof. unfold fk1, mk_pkey. intros E; inversion E; reflexivity. Qed.

Lemma ginv_shrinks s s' :
  Inv s -> Inv s' -> GInv s -> shrinks s s' -> incl (ever_valid s) (ever_valid s') -> GInv s'.
Proof.
  intros I I' G Sh Inc p fk (f' & Gf & Il).
  destruct (Sh fk f' Gf) as [E | (f & Gf0 & Inc0)]; [rewrite E in Il; contradiction|].
  apply Inc. apply G. exists f. split; [exact Gf0|]. apply Inc0.
  rewrite (mk_pkey_same_key f f'); [exact Il|].
  rewrite (inv_key s I _ _ Gf0), (inv_key s' I' _ _ Gf). reflexivity.
Qed.

Lemma shrinks_remove_file s m o st : shrinks s (remove_file s m o st).
Proof.
  intros fk f' G. rewrite get_file_remove in G. destruct (k3_eqb fk (m, o, st)); [discriminate|].
  right. exists f'. split; [exact G | apply incl_refl].
Qed.

(* every operation other than an accepted PostProof only shrinks prover lists and leaves the ghost alone *)
Ltac triv := split; [first [apply shrinks_refl | apply shrinks_same_files; intros; reflexivity] | reflexivity].

Lemma step_shrinks s o :
  Inv s -> (match o with PostProof _ _ _ _ _ _ _ _ _ => False | _ => True end) ->
  shrinks s (step s o) /\ ever_valid (step s o) = ever_valid s.
Proof.
  intros I NP. unfold step. destruct o; cbn [msg_step]; try contradiction.
  - unfold post_file. destruct ((size <=? 0) || (maxp <=? 0)); [triv|].
    destruct (size >? Z.quot max_int64 maxp); [triv|].
    destruct paid; cbn [negb r_state ok_ fail_]; [|triv].
    split.
    + intros fk f' G. rewrite get_set_file in G. destruct (k3_eqb fk _).
      * inversion G; subst. left; reflexivity.
      * apply (shrinks_remove_file s merkle creator height fk f' G).
    + cbn. apply ever_valid_remove_file.
  - split; [apply shrinks_remove_file | apply ever_valid_remove_file].
  - destruct (attest_effects s creator prover merkle owner start height min_pass I) as (Ef & _).
    split; [apply shrinks_same_files; exact Ef|].
    unfold attest. destruct (aget k4_eqb (attests s) _) as [fm|]; [|reflexivity].
    destruct (negb (is_listed creator (fm_atts fm))); [reflexivity|].
    destruct (count_complete _ <? min_pass); [reflexivity|].
    destruct (get_file s _) as [f|]; [|reflexivity]. destruct (get_prover s f _); reflexivity.
  - unfold report. destruct (aget k4_eqb (reports s) _) as [fm|]; [|triv].
    destruct (negb (is_listed creator (fm_atts fm))); [triv|].
    destruct (count_complete _ <? min_pass); [triv|].
    destruct (get_file s (merkle, owner, start)) as [f|] eqn:G; [|triv].
    set (s1 := with_reports s _).
    destruct (remove_prover_with_key s1 f (mk_pkey f prover)) as [[s2 f2]|] eqn:R; [|triv].
    cbn [r_state ok_].
    assert (I1 : Inv s1) by (apply inv_with_reports; exact I).
    assert (G1 : get_file s1 (fk1 f) = Some f) by (rewrite (inv_key s I _ _ G); exact G).
    destruct (inv_rpk s1 f _ s2 f2 I1 G1 R) as (I2 & G2 & Fk & Inc & Fr & _ & _ & _ & Eg & _).
    split; [|exact Eg].
    intros fk f' Gf. destruct (k3_eqb fk (fk1 f)) eqn:E.
    + apply k3_eqb_spec in E; subst fk. rewrite <- Fk, G2 in Gf. inversion Gf; subst.
      right. exists f. split; [exact G1 | exact Inc].
    + rewrite Fr in Gf by (intros ->; rewrite k3_refl in E; discriminate).
      right. exists f'. split; [exact Gf | apply incl_refl].
  - unfold req_attest. destruct (get_file s _) as [f|]; [|triv].
    destruct (get_prover s f creator); [|triv].
    destruct (aget k4_eqb (attests s) _); [triv|].
    destruct chosen; triv.
  - unfold req_report. destruct (get_file s _) as [f|]; [|triv].
    destruct (aget k4_eqb (reports s) _); [triv|].
    destruct (get_prover s f prover); [|triv].
    destruct chosen; triv.
  - unfold init_provider. destruct (aget N.eqb (burns s) creator); [triv|].
    destruct paid; triv.
  - unfold shutdown_provider. destruct (aget N.eqb (burns s) creator); [|triv].
    destruct paid; triv.
  - destruct (reward_block s height cw) as [[s' cr]|] eqn:R; [|triv].
    cbn. destruct (reward_block_ok s height cw s' cr I R) as (_ & Sh & Eg & _). split; assumption.
Qed.

Lemma listed_add_prover s f c h p fk :
  get_file s (fk1 f) = Some f -> Listed (add_prover s f c h) p fk -> Listed s p fk \/ (p = c /\ fk = fk1 f).
Proof.
  intros G (f' & Gf & Il). unfold add_prover in Gf. destruct (len f >=? f_max f); [left; exists f'; auto|].
  rewrite get_set_file, fk1_with_plist in Gf. destruct (k3_eqb fk (fk1 f)) eqn:E.
  - apply k3_eqb_spec in E; subst fk. inversion Gf; subst f'. cbn [f_proofs with_plist] in Il.
    change (mk_pkey (with_plist f (f_proofs f ++ [mk_pkey f c])) p) with (mk_pkey f p) in Il.
    apply in_app_or in Il as [Il|[Il|[]]].
    + left. exists f. auto.
    + right. split; [|reflexivity]. unfold mk_pkey in Il. inversion Il; reflexivity.
  - left. exists f'. auto.
Qed.

Lemma ever_valid_add_prover s f c h : ever_valid (add_prover s f c h) = ever_valid s.
Proof. unfold add_prover. destruct (len f >=? f_max f); reflexivity. Qed.

Lemma ginv_post_proof s c m o st h tp v nc cs :
  Inv s -> GInv s -> GInv (r_state (post_proof s c m o st h tp v nc cs)).
Proof.
  intros I G. unfold post_proof. destruct (get_file s (m, o, st)) as [f|] eqn:GF; [|exact G].
  assert (Gk : get_file s (fk1 f) = Some f) by (rewrite (inv_key s I _ _ GF); exact GF).
  destruct (if len f =? f_max f then _ else _) as [[p isnew]|]; [|exact G].
  destruct (negb (tp =? p_chunk p)); [exact G|]. destruct (f_interval f =? 0); [exact G|].
  destruct (negb v); [exact G|]. destruct (cs =? 0); [exact G|].
  cbn [r_state ok_]. intros q fk L.
  assert (L1 : Listed (if isnew then add_prover s f c h else s) q fk).
  { destruct L as (f' & Gf & Il). exists f'. split; [exact Gf | exact Il]. }
  cbn [ever_valid with_ghost].
  destruct isnew.
  - destruct (listed_add_prover s f c h q fk Gk L1) as [L0 | (-> & ->)].
    + right. cbn [ever_valid set_proof with_proofs]. rewrite ever_valid_add_prover. apply G. exact L0.
    + left. rewrite (inv_key s I _ _ GF). reflexivity.
  - right. cbn [ever_valid set_proof with_proofs]. apply G. exact L1.
Qed.

Definition not_postproof (o : op) : Prop := match o with PostProof _ _ _ _ _ _ _ _ _ => False | _ => True end.

Lemma ginv_step_np s o : Inv s -> GInv s -> not_postproof o -> GInv (step s o).
Proof.
  intros Hi G NP. destruct (step_shrinks s o Hi NP) as (Sh & Eg).
  eapply ginv_shrinks; [exact Hi | apply inv_step; exact Hi | exact G | exact Sh | rewrite Eg; apply incl_refl].
Qed.

Theorem ginv_step s o : Inv s -> GInv s -> GInv (step s o).
Proof.
  intros Hi G. destruct o; try (apply ginv_step_np; [exact Hi | exact G | exact Logic.I]).
  apply ginv_post_proof; assumption.
Qed.

Lemma ginv_init : GInv init.
Proof. intros p fk (f & G & _). discriminate. Qed.

Theorem ginv_history ops : GInv (run init ops) /\ Inv (run init ops).
Proof.
  assert (H : forall ops s, Inv s -> GInv s -> GInv (run s ops) /\ Inv (run s ops)).
  { induction ops0 as [|o r IH]; intros s I G; cbn; [auto|]. apply IH; [apply inv_step | apply ginv_step]; assumption. }
  apply H; [apply inv_init | apply ginv_init].
Qed.

(* what the ghost records: an earlier PostProof by that account on that file, answered with
   Success, whose proof verified *)
Definition accepted_valid (s : sstate) (o : op) (x : N * fkey) : Prop :=
  match o with
  | PostProof c m ow st h tp v nc cs =>
    x = (c, (m, ow, st)) /\ v = true /\ r_success (post_proof s c m ow st h tp v nc cs) = true
  | _ => False
  end.

Lemma ever_valid_post_proof s c m o st h tp v nc cs x :
  In x (ever_valid (r_state (post_proof s c m o st h tp v nc cs))) -> In x (ever_valid s) \/ x = (c, (m, o, st)).
Proof.
  unfold post_proof. destruct (get_file s (m, o, st)) as [f|]; [|left; assumption].
  destruct (if len f =? f_max f then _ else _) as [[p isnew]|]; [|left; assumption].
  destruct (negb (tp =? p_chunk p)); [left; assumption|]. destruct (f_interval f =? 0); [left; assumption|].
  destruct (negb v); [left; assumption|]. destruct (cs =? 0); [left; assumption|].
  cbn [r_state ok_ ever_valid with_ghost]. intros [E | H]; [right; symmetry; exact E|].
  left. destruct isnew; [|exact H]. unfold add_prover in H. destruct (len f >=? f_max f); exact H.
Qed.

Lemma ever_valid_step s o x :
  Inv s -> In x (ever_valid (step s o)) -> In x (ever_valid s) \/ accepted_valid s o x.
Proof.
  intros Hi H. destruct o as [ | | c m ow st h tp v nc cs | | | | | | | ];
    try (left; match type of H with context [step s ?o] => rewrite (proj2 (step_shrinks s o Hi Logic.I)) in H end; exact H).
  unfold step in H. cbn [msg_step] in H.
  destruct (r_success (post_proof s c m ow st h tp v nc cs)) eqn:S.
  - destruct (post_proof_success _ _ _ _ _ _ _ _ _ _ S) as (f & GF & _ & _ & Ev).
    destruct (ever_valid_post_proof _ _ _ _ _ _ _ _ _ _ _ H) as [H0 | E]; [left; exact H0|].
    right. cbn. auto.
  - rewrite (post_proof_refused_unchanged _ _ _ _ _ _ _ _ _ _ S) in H. left; exact H.
Qed.

(* every ghost entry of a history was put there by an accepted PostProof with a verifying proof *)
Lemma ever_valid_history x : forall ops s, Inv s ->
  In x (ever_valid (run s ops)) ->
  In x (ever_valid s) \/ exists ops1 o ops2, ops = ops1 ++ o :: ops2 /\ accepted_valid (run s ops1) o x.
Proof.
  induction ops as [|o r IH]; intros s I H; cbn in H; [left; exact H|].
  destruct (IH (step s o) (inv_step s o I) H) as [H1 | (ops1 & o' & ops2 & E & A)].
  - destruct (ever_valid_step s o x I H1) as [H0 | A]; [left; exact H0|].
    right. exists [], o, r. split; [reflexivity | exact A].
  - right. exists (o :: ops1), o', ops2. split; [cbn; rewrite E; reflexivity | exact A].
Qed.

Theorem credited_only_after_valid_proof ops h cw p fk :
  In (p, fk) (credited (run init ops) (RewardBlock h cw)) ->
  Listed (run init ops) p fk /\
  exists ops1 o ops2, ops = ops1 ++ o :: ops2 /\ accepted_valid (run init ops1) o (p, fk).
Proof.
  intros C. destruct (ginv_history ops) as (G & I). set (s := run init ops) in *.
  assert (L : Listed s p fk).
  { cbn in C. destruct (reward_block s h cw) as [[s' cr]|] eqn:R; [|contradiction].
    destruct (reward_block_ok s h cw s' cr I R) as (_ & _ & _ & Cr).
    destruct (Cr _ C) as (f & k & Gf & Ik & E). inversion E; subst p fk.
    destruct (listed_has_record s _ f k I Gf Ik) as (Ek & _).
    destruct (inv_file s I _ _ Gf) as (_ & _ & Hf). destruct (Hf k Ik) as (A & _).
    rewrite A. exists f. split; [exact Gf|]. rewrite <- Ek. exact Ik. }
  split; [exact L|].
  destruct (ever_valid_history (p, fk) ops init inv_init (G p fk L)) as [[] | H]. exact H.
Qed.
