(* Proofs about the challenge selection and the proof-window arithmetic (Model/Windows.v). *)
From Coq Require Import NArith ZArith List Bool Lia.
Require Import ZifyBool.
From JK Require Import Base.Bytes Model.Merkle Model.Windows Proofs.MerkleProofs.
Import ListNotations.
Open Scope Z_scope.
Ltac Zify.zify_post_hook ::= Z.div_mod_to_equations.

(* ---------------- challenge selection ---------------- *)

Lemma pieces_pos : forall size chunk, 1 <= size -> 1 <= chunk ->
  exists p, pieces size chunk = Val p /\ p = num_chunks size chunk - 1 /\ 0 <= p.
Proof.
  intros size chunk Hs Hc. unfold pieces, num_chunks.
  destruct (Z.eqb_spec chunk 0) as [E|_]; [lia|].
  rewrite Z.quot_div_nonneg, Z.rem_mod_nonneg by lia.
  eexists. split; [reflexivity|].
  destruct (Z.eqb_spec (size mod chunk) 0) as [E|E].
  - assert (size = chunk * (size / chunk)) by lia.
    assert ((size + chunk - 1) / chunk = size / chunk).
    { set (q := size / chunk) in *.
      assert (chunk * q <= size + chunk - 1 < chunk * q + chunk) by lia.
      symmetry. apply (Z.div_unique_pos _ _ q (size + chunk - 1 - chunk * q)); lia. }
    nia.
  - set (q := size / chunk) in *. set (m := size mod chunk) in *.
    assert (size = chunk * q + m /\ 0 <= m < chunk) by (subst q m; lia).
    assert ((size + chunk - 1) / chunk = q + 1).
    { symmetry. apply (Z.div_unique_pos _ _ (q + 1) (m - 1)); lia. }
    nia.
Qed.

Theorem challenge_in_range : forall size chunk draw,
  1 <= size -> 1 <= chunk ->
  (forall p, 0 < p -> 0 <= draw p < p) ->
  0 < num_chunks size chunk /\
  exists c, reset_chunk size chunk draw = Val c /\ 0 <= c < num_chunks size chunk.
Proof.
  intros size chunk draw Hs Hc Hd.
  destruct (pieces_pos size chunk Hs Hc) as [p [Hp [Hn H0]]].
  split; [lia|]. unfold reset_chunk. rewrite Hp. eexists. split; [reflexivity|].
  destruct (Z.gtb_spec p 0) as [G|G]; [specialize (Hd p ltac:(lia)); lia|lia].
Qed.

(* what the code does not do: the last chunk of a file of two or more chunks is never drawn *)
Lemma last_chunk_never_challenged : forall size chunk draw c,
  1 <= size -> 1 <= chunk -> (forall p, 0 < p -> 0 <= draw p < p) ->
  2 <= num_chunks size chunk -> reset_chunk size chunk draw = Val c ->
  c < num_chunks size chunk - 1.
Proof.
  intros size chunk draw c Hs Hc Hd Hn Hr.
  destruct (pieces_pos size chunk Hs Hc) as [p [Hp [Hpn H0]]].
  unfold reset_chunk in Hr. rewrite Hp in Hr. injection Hr as Hr. subst c.
  destruct (Z.gtb_spec p 0) as [G|G]; [specialize (Hd p ltac:(lia)); lia|lia].
Qed.

(* ---------------- windows ---------------- *)

Definition window_of (start pi x : Z) : Z := (x - start) / pi.

(* one proving height in every window from j's up to the one before h's *)
Definition covered (start pi : Z) (P : list Z) (j h : Z) : Prop :=
  forall k, window_of start pi j <= k < window_of start pi h ->
            exists p, In p P /\ window_of start pi p = k.

Lemma manage_keeps_core : forall start pi h j P last,
  1 <= pi -> start <= j -> j < h -> In j P ->
  covered start pi P j h ->
  (forall p, In p P -> p < h -> p <= last) ->
  manage_proof start pi h true last = Val Keep.
Proof.
  intros start pi h j P last Hpi Hsj Hjh HPj Hcov Hlast.
  unfold manage_proof, proven_last_block, rounded_window, is_young.
  destruct (Z.eqb_spec pi 0) as [E|_]; [lia|].
  rewrite Z.rem_mod_nonneg by lia.
  destruct (Z.geb_spec (start + pi) h) as [Hy|Hy]; cbn [negb andb]; [rewrite andb_false_r; reflexivity|].
  replace (last >=? h - start - (h - start) mod pi + start - pi) with true; [reflexivity|].
  symmetry. apply Z.geb_le.
  unfold covered, window_of in Hcov.
  set (q := (h - start) / pi) in *. set (qj := (j - start) / pi) in *.
  assert (Hq : pi * q <= h - start < pi * q + pi) by (subst q; lia).
  assert (Hm : (h - start) mod pi = h - start - pi * q) by (subst q; lia).
  assert (Hqj : pi * qj <= j - start < pi * qj + pi) by (subst qj; lia).
  rewrite Hm.
  destruct (Z_lt_le_dec qj q) as [Hlt|Hge].
  - destruct (Hcov (q - 1)) as [p [HPp Hk]]; [lia|].
    assert (Hpk : pi * (q - 1) <= p - start < pi * (q - 1) + pi) by (rewrite <- Hk; lia).
    assert (p < h) by nia.
    specialize (Hlast p HPp H). nia.
  - specialize (Hlast j HPj Hjh). nia.
Qed.

Lemma last_before_ge_acc : forall P h acc,
  acc <= fold_left (fun a p => if p <? h then Z.max a p else a) P acc.
Proof.
  induction P as [|x P IH]; intros h acc; cbn [fold_left]; [lia|].
  destruct (x <? h); [etransitivity; [|apply IH]; lia|apply IH].
Qed.

Lemma last_before_ge : forall P h p, In p P -> p < h -> p <= last_before P h.
Proof.
  unfold last_before. intros P h p. generalize 0.
  induction P as [|x P IH]; intros acc Hin Hp; [destruct Hin|].
  cbn [fold_left]. destruct Hin as [E|Hin].
  - subst x. destruct (Z.ltb_spec p h); [|lia].
    etransitivity; [|apply last_before_ge_acc]. lia.
  - apply IH; assumption.
Qed.

Theorem manage_keeps_honest : forall start pi cw h j P,
  1 <= pi -> 1 <= cw -> start <= j -> j < h -> In j P ->
  covered start pi P j h ->
  reward_runs cw h = Val true ->
  manage_proof start pi h true (last_before P h) = Val Keep.
Proof.
  intros start pi cw h j P Hpi Hcw Hsj Hjh HPj Hcov _.
  apply (manage_keeps_core start pi h j P); auto.
  intros p Hp Hlt. apply last_before_ge; assumption.
Qed.

(* ---------------- histories of one honest prover ---------------- *)

(* what an honest holder submits: the stored challenge with a proof VerifyProof accepts
   (Proofs/MerkleProofs.v: honest_file_proof_accepted; challenge_in_range: the chunk exists) *)
Inductive hop := HProve (h next : Z) | HReward (h : Z).
Definition hheight (o : hop) : Z := match o with HProve h _ => h | HReward h => h end.

Definition hstep (start pi cw : Z) (s : pstate) (o : hop) : pstate :=
  match o with
  | HProve h nx => pstep start pi s (OProve h (if listed s then challenge s else 0) true nx)
  | HReward h => match reward_runs cw h with
                 | Val true => pstep start pi s (OReward h)
                 | _ => s
                 end
  end.

Definition hrun (start pi cw : Z) (ops : list hop) : pstate := fold_left (hstep start pi cw) ops pinit.

Fixpoint proves (ops : list hop) : list Z :=
  match ops with
  | [] => []
  | HProve h _ :: r => h :: proves r
  | HReward _ :: r => proves r
  end.

(* the first proving height (the join) *)
Definition join_of (ops : list hop) : Z := hd 0 (proves ops).

(* Histories in block order: a reward block precedes the transactions of its height; the prover
   never proves before the file exists; whenever a reward block comes, every window between the
   join and the previous window holds one of the prover's proofs. *)
Inductive honest (start pi : Z) : list hop -> Prop :=
| honest_nil : honest start pi []
| honest_prove : forall ops h nx,
    honest start pi ops -> (forall o, In o ops -> hheight o <= h) -> start <= h ->
    honest start pi (ops ++ [HProve h nx])
| honest_reward : forall ops h,
    honest start pi ops -> (forall o, In o ops -> hheight o < h) ->
    (proves ops <> [] -> covered start pi (proves ops) (join_of ops) h) ->
    honest start pi (ops ++ [HReward h]).

Lemma proves_app : forall a b, proves (a ++ b) = proves a ++ proves b.
Proof.
  induction a as [|[h nx|h] a IH]; intro b; cbn [proves app]; [reflexivity| |]; rewrite IH; reflexivity.
Qed.

Lemma proves_heights : forall ops p, In p (proves ops) -> exists o, In o ops /\ hheight o = p.
Proof.
  induction ops as [|[h nx|h] r IH]; intros p Hin; cbn [proves] in Hin; [destruct Hin| |].
  - destruct Hin as [E|Hin]; [subst; eexists; split; [left; reflexivity|reflexivity]|].
    destruct (IH p Hin) as [o [Ho Hh]]. exists o. split; [right; exact Ho|exact Hh].
  - destruct (IH p Hin) as [o [Ho Hh]]. exists o. split; [right; exact Ho|exact Hh].
Qed.

Definition hinv (start : Z) (ops : list hop) (s : pstate) : Prop :=
  is_provider s = true /\ burned s = 0 /\
  match proves ops with
  | [] => listed s = false
  | _ => listed s = true /\ has_rec s = true /\ In (last_proven s) (proves ops) /\
         (forall p, In p (proves ops) -> p <= last_proven s) /\
         (forall p, In p (proves ops) -> start <= p)
  end.

Lemma hd_app_ne : forall (l r : list Z) d, l <> [] -> hd d (l ++ r) = hd d l.
Proof. intros [|x l] r d Hne; [congruence|reflexivity]. Qed.

Lemma honest_inv : forall start pi cw ops, 1 <= pi -> 1 <= cw ->
  honest start pi ops -> hinv start ops (hrun start pi cw ops).
Proof.
  intros start pi cw ops Hpi Hcw Hh. induction Hh as [|ops h nx Hh IH Hle Hst|ops h Hh IH Hlt Hcov].
  - unfold hinv, hrun. cbn. auto.
  - unfold hrun in *. rewrite fold_left_app. cbn [fold_left].
    set (s := fold_left (hstep start pi cw) ops pinit) in *.
    destruct IH as [Hprov [Hb IH]]. unfold hinv. rewrite proves_app. cbn [proves].
    assert (Hstep : let s' := hstep start pi cw s (HProve h nx) in
                    listed s' = true /\ has_rec s' = true /\ last_proven s' = h /\
                    is_provider s' = is_provider s /\ burned s' = burned s).
    { cbn [hstep pstep]. unfold post_proof.
      destruct (proves ops) eqn:Hp.
      - rewrite IH. cbn [negb orb]. rewrite Z.eqb_refl. cbn. auto.
      - destruct IH as [Hl [Hr _]]. rewrite Hl, Hr. cbn [negb orb]. rewrite Z.eqb_refl. cbn. auto. }
    cbn zeta in Hstep. destruct Hstep as [Hl [Hr [Hlp [Hip Hbu]]]].
    rewrite Hip, Hbu. split; [assumption|]. split; [assumption|].
    destruct (proves ops ++ [h]) eqn:Happ; [destruct (proves ops); discriminate|]. rewrite <- Happ.
    split; [assumption|]. split; [assumption|]. rewrite Hlp.
    split; [apply in_or_app; right; left; reflexivity|].
    split; intros p Hin; apply in_app_or in Hin; destruct Hin as [Hin|[E|[]]]; try lia.
    + destruct (proves_heights ops p Hin) as [o [Ho Hho]]. specialize (Hle o Ho). lia.
    + destruct (proves ops) eqn:Hp; [destruct Hin|]. destruct IH as [_ [_ [_ [_ Hs]]]]. apply Hs. exact Hin.
  - unfold hrun in *. rewrite fold_left_app. cbn [fold_left].
    set (s := fold_left (hstep start pi cw) ops pinit) in *.
    unfold hinv in *. rewrite proves_app. cbn [proves]. rewrite app_nil_r.
    destruct IH as [Hprov [Hb IH]].
    cbn [hstep]. destruct (reward_runs cw h) as [[|]|]; try (split; [assumption|split; assumption]).
    cbn [pstep]. unfold reward.
    destruct (proves ops) eqn:Hp.
    + rewrite IH. split; [assumption|split; assumption].
    + destruct IH as [Hl [Hr [Hin [Hmax Hs]]]]. rewrite Hl, Hr. rewrite <- Hp in *.
      assert (Hne : proves ops <> []) by (rewrite Hp; discriminate).
      specialize (Hcov Hne).
      assert (Hj : In (join_of ops) (proves ops)).
      { unfold join_of. rewrite Hp. left. reflexivity. }
      rewrite (manage_keeps_core start pi h (join_of ops) (proves ops) (last_proven s)); auto.
      * split; [assumption|]. split; [assumption|]. rewrite Hp in *. auto.
      * destruct (proves_heights ops _ Hj) as [o [Ho Hho]]. specialize (Hlt o Ho). lia.
Qed.

Theorem honest_history_never_dropped : forall start pi cw ops,
  1 <= pi -> 1 <= cw -> honest start pi ops -> proves ops <> [] ->
  let s := hrun start pi cw ops in
  listed s = true /\ has_rec s = true /\ burned s = 0.
Proof.
  intros start pi cw ops Hpi Hcw Hh Hne.
  destruct (honest_inv start pi cw ops Hpi Hcw Hh) as [_ [Hb Hi]].
  destruct (proves ops); [congruence|]. cbn zeta. tauto.
Qed.

(* every prefix of an honest history is honest: the statement above holds after every step *)
Lemma honest_prefix : forall start pi pre post, honest start pi (pre ++ post) -> honest start pi pre.
Proof.
  intros start pi pre post. revert pre.
  induction post as [|o post IH] using rev_ind; intros pre Hh; [rewrite app_nil_r in Hh; exact Hh|].
  rewrite app_assoc in Hh. apply IH.
  inversion Hh as [E|ops h nx Hh' _ _ E|ops h Hh' _ _ E].
  - destruct (pre ++ post); discriminate.
  - apply app_inj_tail in E. destruct E as [E _]. rewrite <- E. exact Hh'.
  - apply app_inj_tail in E. destruct E as [E _]. rewrite <- E. exact Hh'.
Qed.

Theorem honest_history_prefix_never_dropped : forall start pi cw pre post,
  1 <= pi -> 1 <= cw -> honest start pi (pre ++ post) -> proves pre <> [] ->
  let s := hrun start pi cw pre in
  listed s = true /\ has_rec s = true /\ burned s = 0.
Proof.
  intros start pi cw pre post Hpi Hcw Hh Hne.
  exact (honest_history_never_dropped start pi cw pre Hpi Hcw (honest_prefix start pi pre post Hh) Hne).
Qed.

(* ---------------- the three parts together ---------------- *)

(* the challenge stored for the prover designates an existing chunk after every history whose
   re-draws come from ResetChunkWithProof (any RNG) *)
Definition drawn (size chunk nx : Z) : Prop :=
  exists draw, (forall p, 0 < p -> 0 <= draw p < p) /\ reset_chunk size chunk draw = Val nx.

Definition hop_drawn (size chunk : Z) (o : hop) : Prop :=
  match o with HProve _ nx => drawn size chunk nx | HReward _ => True end.

Lemma challenge_stays_in_range : forall size chunk start pi cw ops,
  1 <= size -> 1 <= chunk -> Forall (hop_drawn size chunk) ops ->
  0 <= challenge (hrun start pi cw ops) < num_chunks size chunk.
Proof.
  intros size chunk start pi cw ops Hs Hc. unfold hrun.
  induction ops as [|o ops IH] using rev_ind; intro Hall.
  - cbn. destruct (challenge_in_range size chunk (fun _ => 0) Hs Hc) as [Hn _]; [intros; lia|lia].
  - apply Forall_app in Hall. destruct Hall as [Hall Ho]. specialize (IH Hall).
    rewrite fold_left_app. cbn [fold_left].
    set (s := fold_left (hstep start pi cw) ops pinit) in *.
    inversion Ho as [|o' l' Hd _]. subst o' l'. destruct o as [h nx|h].
    + cbn [hstep pstep]. unfold post_proof.
      destruct Hd as [draw [Hdraw Hr]].
      destruct (challenge_in_range size chunk draw Hs Hc Hdraw) as [_ [c [Hc' Hrange]]].
      rewrite Hr in Hc'. injection Hc' as Hc'. subst c.
      destruct (negb (listed s) || has_rec s); [|exact IH].
      rewrite Z.eqb_refl. cbn. exact Hrange.
    + cbn [hstep]. destruct (reward_runs cw h) as [[|]|]; try exact IH.
      cbn [pstep]. unfold reward. destruct (listed s); [|exact IH].
      destruct (manage_proof start pi h (has_rec s) (last_proven s)) as [[| |]|]; cbn; exact IH.
Qed.

(* for a file cut into `chunks`, whose tree root is stored with the file: whatever chunk c the
   record designates (c < number of chunks), submitting chunk c with the library's proof for
   leaf c is accepted by PostProof: the prover is listed, LastProven becomes the height *)
Theorem honest_postproof_accepted :
  forall (H256 H512 : bytes -> bytes) hlen chunks t s h next,
    build_file H256 H512 hlen chunks = Some t ->
    (N.of_nat (length chunks) <= 18446744073709551616)%N ->
    (listed s = true -> has_rec s = true) ->
    let c := if listed s then challenge s else 0 in
    0 <= c < Z.of_nat (length chunks) ->
    let valid := verify_file_proof H256 H512 (root H512 t) c (nth (Z.to_nat c) chunks [])
                                   (gen_proof H512 t (Z.to_N c)) (Z.to_N c) in
    post_proof s h c valid next =
      ({| listed := true; has_rec := true; last_proven := h; challenge := next;
          is_provider := is_provider s; burned := burned s |}, true).
Proof.
  intros H256 H512 hlen chunks t s h next Hb H64 Hrec c Hc valid.
  assert (Hv : valid = true).
  { subst valid. pose proof (honest_file_proof_accepted H256 H512 hlen chunks t (Z.to_nat c) Hb) as Hh.
    rewrite Z2Nat.id in Hh by lia. rewrite Z_nat_N in Hh. apply Hh; [lia|exact H64]. }
  rewrite Hv. unfold post_proof. fold c. rewrite Z.eqb_refl.
  destruct (listed s) eqn:Hl; cbn [negb orb]; [rewrite (Hrec eq_refl)|]; reflexivity.
Qed.
