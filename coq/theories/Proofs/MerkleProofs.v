(* Merkle completeness for the wealdtech layout: the proof GenerateProof derives for an
   existing leaf is accepted by VerifyProofUsing, for ANY hash function. *)
From Coq Require Import NArith ZArith List Bool Lia PeanoNat.
From JK Require Import Base.Bytes Model.Merkle.
Import ListNotations.
Open Scope N_scope.

Lemma beqb_refl : forall a, beqb a a = true.
Proof. induction a as [|x a IH]; cbn [beqb]; [reflexivity|]. rewrite N.eqb_refl, IH. reflexivity. Qed.

Lemma beqb_eq : forall a b, beqb a b = true -> a = b.
Proof.
  induction a as [|x a IH]; destruct b as [|y b]; cbn [beqb]; intro Hq; try discriminate; [reflexivity|].
  apply andb_true_iff in Hq. destruct Hq as [H1 H2]. apply N.eqb_eq in H1. subst. f_equal. auto.
Qed.

(* i = 2*(i/2) + bit, and i xor 1 flips the bit *)
Lemma even_decomp : forall i, i = 2 * N.div2 i + (if N.even i then 0 else 1).
Proof. destruct i as [|[p|p|]]; reflexivity. Qed.

Lemma lxor1_decomp : forall i, N.lxor i 1 = 2 * N.div2 i + (if N.even i then 1 else 0).
Proof. destruct i as [|[p|p|]]; reflexivity. Qed.

Section Completeness.
  Variable H : bytes -> bytes.
  Variable hlen : nat.

  Lemma pair_up_length : forall m l, length l = (2 * m)%nat -> length (pair_up H l) = m.
  Proof.
    induction m as [|m IH]; intros l Hl.
    - destruct l; [reflexivity|discriminate].
    - destruct l as [|a [|b r]]; cbn [length] in Hl; try lia.
      cbn [pair_up length]. f_equal. apply IH. lia.
  Qed.

  Lemma pair_up_nth_nat : forall k l, (2 * k + 1 < length l)%nat ->
    nth k (pair_up H l) [] = H (nth (2 * k) l [] ++ nth (2 * k + 1) l []).
  Proof.
    induction k as [|k IH]; intros l Hl.
    - destruct l as [|a [|b r]]; cbn [length] in Hl; try lia. reflexivity.
    - destruct l as [|a [|b r]]; cbn [length] in Hl; try lia.
      cbn [pair_up]. replace (2 * S k)%nat with (S (S (2 * k))) by lia.
      replace (S (S (2 * k)) + 1)%nat with (S (S (2 * k + 1))) by lia.
      cbn [nth]. apply IH. lia.
  Qed.

  Lemma pair_up_nthN : forall k l, 2 * k + 1 < N.of_nat (length l) ->
    nthN (pair_up H l) k = H (nthN l (2 * k) ++ nthN l (2 * k + 1)).
  Proof.
    intros k l Hk. unfold nthN.
    replace (N.to_nat (2 * k)) with (2 * N.to_nat k)%nat by lia.
    replace (N.to_nat (2 * k + 1)) with (2 * N.to_nat k + 1)%nat by lia.
    apply pair_up_nth_nat. lia.
  Qed.

  (* the walk only looks at the low (length hashes) bits of the index *)
  Definition low_bits_agree (d : nat) (a b : N) : Prop :=
    forall k, k < N.of_nat d -> N.testbit a k = N.testbit b k.

  Lemma low_bits_step : forall d a b, low_bits_agree (S d) a b ->
    N.even a = N.even b /\ low_bits_agree d (N.div2 a) (N.div2 b).
  Proof.
    intros d a b Hab. split.
    - rewrite <- !N.negb_odd, <- !N.bit0_odd. f_equal. apply Hab. lia.
    - intros k Hk. rewrite <- !N.testbit_succ_r_div2 by apply N.le_0_l. apply Hab. lia.
  Qed.

  Lemma walk_low_bits : forall hashes cur a b,
    low_bits_agree (length hashes) a b -> walk H cur hashes a = walk H cur hashes b.
  Proof.
    induction hashes as [|h r IH]; intros cur a b Hab; [reflexivity|].
    cbn [length] in Hab. apply low_bits_step in Hab. destruct Hab as [He Hd].
    cbn [walk]. rewrite He. apply IH. exact Hd.
  Qed.

  (* walking up from leaf i along the generated siblings reaches the root *)
  Lemma walk_gen_proof : forall d l i,
    length l = Nat.pow 2 d -> i < N.of_nat (Nat.pow 2 d) ->
    walk H (nthN l i) (gen_proof_lv H d l i) i = root_lv H d l.
  Proof.
    induction d as [|d IH]; intros l i Hl Hi.
    - cbn [gen_proof_lv walk root_lv]. cbn in Hi. replace i with 0 by lia. reflexivity.
    - cbn [gen_proof_lv walk root_lv].
      assert (Hpow : Nat.pow 2 (S d) = (2 * Nat.pow 2 d)%nat) by (cbn [Nat.pow]; lia).
      pose proof (even_decomp i) as Hi2. pose proof (lxor1_decomp i) as Hx.
      assert (Hk : 2 * N.div2 i + 1 < N.of_nat (length l)).
      { rewrite Hl. destruct (N.even i); lia. }
      pose proof (pair_up_nthN (N.div2 i) l Hk) as Hp.
      assert (Hcur : (if N.even i then H (nthN l i ++ nthN l (N.lxor i 1))
                      else H (nthN l (N.lxor i 1) ++ nthN l i)) = nthN (pair_up H l) (N.div2 i)).
      { clear IH Hk Hi. remember (N.div2 i) as k eqn:Heqk. clear Heqk.
        destruct (N.even i); subst i; rewrite Hx, Hp.
        - replace (2 * k + 0) with (2 * k) by lia. reflexivity.
        - replace (2 * k + 0) with (2 * k) by lia. reflexivity. }
      rewrite Hcur. apply IH.
      + apply pair_up_length. rewrite Hl. exact Hpow.
      + rewrite Hpow in Hi. destruct (N.even i); lia.
  Qed.

  Lemma gen_proof_lv_length : forall d l n, length (gen_proof_lv H d l n) = d.
  Proof. induction d as [|d IH]; intros l n; cbn [gen_proof_lv length]; auto. Qed.

  Lemma pow2_N : forall d, N.of_nat (Nat.pow 2 d) = 2 ^ N.of_nat d.
  Proof.
    induction d as [|d IH]; [reflexivity|].
    rewrite Nat2N.inj_succ, N.pow_succ_r', <- IH. cbn [Nat.pow]. lia.
  Qed.

  (* index + (1 << len) in uint64 arithmetic has the low len bits of index *)
  Lemma start_index_low_bits : forall i d,
    i < 2 ^ N.of_nat d -> i < 18446744073709551616 ->
    low_bits_agree d (start_index i d) i.
  Proof.
    intros i d Hi H64 k Hk. unfold start_index.
    destruct (Nat.ltb d 64) eqn:Hd.
    - apply Nat.ltb_lt in Hd. rewrite N.shiftl_1_l.
      change 18446744073709551616 with (2 ^ 64).
      assert (k < 64) by lia.
      rewrite N.mod_pow2_bits_low by assumption.
      rewrite <- (N.mod_pow2_bits_low (i + 2 ^ N.of_nat d) (N.of_nat d) k) by assumption.
      rewrite <- (N.mul_1_l (2 ^ N.of_nat d)) at 1.
      rewrite N.mod_add by (apply N.pow_nonzero; discriminate).
      rewrite N.mod_pow2_bits_low by assumption. reflexivity.
    - rewrite N.add_0_r, N.mod_small by assumption. reflexivity.
  Qed.

  (* ---- leaves: data hashes followed by padding ---- *)
  Lemma depth_of_spec : forall n, (0 < n)%nat -> (n <= Nat.pow 2 (depth_of n))%nat.
  Proof. intros n Hn. unfold depth_of. apply Nat.log2_log2_up_spec. exact Hn. Qed.

  Lemma leaf_level_length : forall data, data <> [] ->
    length (leaf_level H hlen data) = Nat.pow 2 (depth_of (length data)).
  Proof.
    intros data Hne. unfold leaf_level. rewrite app_length, map_length, repeat_length.
    assert (0 < length data)%nat by (destruct data; [congruence|cbn; lia]).
    pose proof (depth_of_spec (length data) H0). lia.
  Qed.

  Lemma leaf_level_nth : forall data i, (i < length data)%nat ->
    nth i (leaf_level H hlen data) [] = H (nth i data []).
  Proof.
    intros data i Hi. unfold leaf_level. rewrite app_nth1 by (rewrite map_length; exact Hi).
    rewrite (nth_indep (map H data) [] (H [])) by (rewrite map_length; exact Hi).
    apply map_nth.
  Qed.

  Theorem honest_proof_accepted_lib : forall data t i,
    build H hlen data = Some t ->
    (i < length data)%nat ->
    N.of_nat (length data) <= 18446744073709551616 ->
    verify_proof H (root H t) (nth i data []) (gen_proof H t (N.of_nat i)) (N.of_nat i) = true.
  Proof.
    intros data t i Hb Hi H64.
    assert (Hne : data <> []) by (destruct data; [cbn in Hi; lia|discriminate]).
    unfold build in Hb. destruct data as [|x0 r0] eqn:Hd; [congruence|]. rewrite <- Hd in *.
    injection Hb as Ht. subst t.
    unfold verify_proof, proof_hash, root, gen_proof. cbn [t_depth t_leaves].
    set (d := depth_of (length data)). set (l := leaf_level H hlen data).
    assert (Hl : length l = Nat.pow 2 d) by (apply leaf_level_length; exact Hne).
    assert (Hid : N.of_nat i < N.of_nat (Nat.pow 2 d)).
    { pose proof (depth_of_spec (length data)). fold d in H0. lia. }
    assert (Hlen : length (gen_proof_lv H d l (N.of_nat i)) = d).
    { apply gen_proof_lv_length. }
    rewrite Hlen.
    rewrite (walk_low_bits _ _ (start_index (N.of_nat i) d) (N.of_nat i)).
    2:{ rewrite Hlen. apply start_index_low_bits; [rewrite <- pow2_N; exact Hid|lia]. }
    replace (H (nth i data [])) with (nthN l (N.of_nat i)).
    2:{ unfold nthN, l. rewrite Nat2N.id. apply leaf_level_nth. exact Hi. }
    rewrite walk_gen_proof by assumption. apply beqb_refl.
  Qed.

End Completeness.

(* ---- the repo's wrapper: leaves are sha256("%d%x") of (chunk index, chunk) ---- *)
Section File.
  Variables H256 H512 : bytes -> bytes.
  Variable hlen : nat.

  Lemma file_data_from_length : forall chunks z, length (file_data_from H256 z chunks) = length chunks.
  Proof. induction chunks as [|c r IH]; intro z; cbn [file_data_from length]; auto. Qed.

  Lemma file_data_from_nth : forall chunks z i, (i < length chunks)%nat ->
    nth i (file_data_from H256 z chunks) [] = H256 (leaf_preimage (z + Z.of_nat i) (nth i chunks [])).
  Proof.
    induction chunks as [|c r IH]; intros z i Hi; cbn [length] in Hi; [lia|].
    destruct i as [|i]; cbn [file_data_from nth].
    - rewrite Z.add_0_r. reflexivity.
    - rewrite IH by lia. f_equal. f_equal. lia.
  Qed.

  Theorem honest_file_proof_accepted : forall chunks t i,
    build_file H256 H512 hlen chunks = Some t ->
    (i < length chunks)%nat ->
    N.of_nat (length chunks) <= 18446744073709551616 ->
    verify_file_proof H256 H512 (root H512 t) (Z.of_nat i) (nth i chunks [])
                      (gen_proof H512 t (N.of_nat i)) (N.of_nat i) = true.
  Proof.
    intros chunks t i Hb Hi H64. unfold verify_file_proof, build_file, file_data in *.
    pose proof (honest_proof_accepted_lib H512 hlen _ t i Hb) as Hlib.
    rewrite file_data_from_length in Hlib. specialize (Hlib Hi H64).
    rewrite file_data_from_nth in Hlib by exact Hi. exact Hlib.
  Qed.

  (* a non-empty file always has a tree *)
  Lemma build_file_some : forall chunks, chunks <> [] -> exists t, build_file H256 H512 hlen chunks = Some t.
  Proof.
    intros [|c r] Hne; [congruence|]. unfold build_file, file_data. cbn [file_data_from build].
    eexists. reflexivity.
  Qed.
End File.
