(* The oracle handlers CreateFeed / UpdateFeed, generated from the current source (Gen/GoOracle.v), against the
   model of C11's "touches only its own resources" for feeds (Model/OwnResource.v ostep). *)
From Coq Require Import ZArith NArith List Bool String.
From JK Require Import Base.AList Base.GoSem Gen.GoOracle Model.OwnResource.
Import ListNotations.

Definition is_some {A} (o : option A) : bool := match o with Some _ => true | None => false end.

(* closed forms: the feed is written exactly when the handler reports success, as the last effect, and success is
   "the name is free and the creator parses, pays, the deposit account parses and receives" / "the feed exists and
   its recorded owner string is the signer's" *)
Lemma gen_CreateFeed_spec taken c1 c2 c3 c4 :
  gen_CreateFeed taken c1 c2 c3 c4 =
  GVal (if taken then [] else if negb c1 then [] else
        [Ev "charge-deposit" []] ++ (if negb c2 then [] else if negb c3 then [] else
        [Ev "forward-deposit" []] ++ (if negb c4 then [] else [Ev "store-feed" []])),
        negb taken && c1 && c2 && c3 && c4).
Proof. destruct taken, c1, c2, c3, c4; reflexivity. Qed.

Lemma gen_UpdateFeed_spec found not_owner :
  gen_UpdateFeed found not_owner =
  GVal (if found && negb not_owner then [Ev "set-data" []; Ev "set-time" []; Ev "store-feed" []] else [],
        found && negb not_owner).
Proof. destruct found, not_owner; reflexivity. Qed.

Lemma create_writes_iff_success taken c1 c2 c3 c4 evs ok :
  gen_CreateFeed taken c1 c2 c3 c4 = GVal (evs, ok) ->
  (In (Ev "store-feed" []) evs <-> ok = true).
Proof.
  rewrite gen_CreateFeed_spec. intros [= <- <-].
  destruct taken, c1, c2, c3, c4; cbn; split; intros H; try discriminate; try reflexivity;
    repeat (destruct H as [H|H]; try discriminate); try contradiction; auto 6.
Qed.

Theorem ocreate_is_the_interpretation st s name c1 c2 c3 c4 now :
  ostep st (OCreate s name (c1 && c2 && c3 && c4) now) =
  match gen_CreateFeed (is_some (aget N.eqb st name)) c1 c2 c3 c4 with
  | GVal (_, true) => (aset N.eqb st name {| f_owner := s; f_data := 0%N; f_time := now |}, Ok)
  | _ => (st, Fail)
  end.
Proof.
  rewrite gen_CreateFeed_spec. cbn [ostep].
  destruct (aget N.eqb st name); cbn [is_some negb andb]; [reflexivity|].
  destruct c1, c2, c3, c4; reflexivity.
Qed.

Theorem oupdate_is_the_interpretation st s name data now :
  ostep st (OUpdate s name data now) =
  match aget N.eqb st name with
  | Some f =>
      match gen_UpdateFeed true (negb (sp_eqb (f_owner f) s)) with
      | GVal (_, true) => (aset N.eqb st name {| f_owner := f_owner f; f_data := data; f_time := now |}, Ok)
      | _ => (st, Fail)
      end
  | None => match gen_UpdateFeed false false with GVal (_, true) => (st, Ok) | _ => (st, Fail) end
  end.
Proof.
  cbn [ostep]. destruct (aget N.eqb st name) as [f|]; rewrite gen_UpdateFeed_spec; [|reflexivity].
  destruct (sp_eqb (f_owner f) s); reflexivity.
Qed.
