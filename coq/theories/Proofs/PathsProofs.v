(* Proofs about the path-hashing model (property C20). *)
From Coq Require Import NArith List Bool Lia.
From JK Require Import Base.Bytes Model.Paths.
Import ListNotations.
Open Scope N_scope.

(* ---------- byte-string lemmas ---------- *)

Lemma split_aux_app cur s t :
  split_slash_aux cur (s ++ slash :: t) = split_slash_aux cur s ++ split_slash_aux [] t.
Proof.
  revert cur; induction s as [|c r IH]; intros cur; cbn [app split_slash_aux].
  - rewrite N.eqb_refl. reflexivity.
  - destruct (c =? slash); [cbn [app]; f_equal; apply IH | apply IH].
Qed.

Lemma split_aux_noslash cur t :
  has_slash t = false -> split_slash_aux cur t = [rev cur ++ t].
Proof.
  revert cur; induction t as [|c r IH]; intros cur Hs; cbn [split_slash_aux].
  - rewrite app_nil_r. reflexivity.
  - unfold has_slash in Hs. cbn [existsb] in Hs. apply orb_false_iff in Hs as [Hc Hr].
    rewrite Hc. rewrite IH by exact Hr. cbn [rev]. rewrite <- app_assoc. reflexivity.
Qed.

Lemma split_snoc_segment parent child :
  has_slash child = false ->
  split_slash (parent ++ slash :: child) = split_slash parent ++ [child].
Proof.
  intros Hc. unfold split_slash. rewrite split_aux_app.
  rewrite (split_aux_noslash [] child Hc). reflexivity.
Qed.

Lemma split_aux_nonempty cur s : split_slash_aux cur s <> [].
Proof.
  revert cur; induction s as [|c r IH]; intros cur; cbn [split_slash_aux]; [discriminate|].
  destruct (c =? slash); [discriminate | apply IH].
Qed.

(* strings.Join(strings.Split(s, "/"), "/") = s *)
Lemma join_split_aux cur s : join_slash (split_slash_aux cur s) = rev cur ++ s.
Proof.
  revert cur; induction s as [|c r IH]; intros cur; cbn [split_slash_aux].
  - cbn. rewrite app_nil_r. reflexivity.
  - destruct (c =? slash) eqn:E.
    + apply N.eqb_eq in E; subst c. cbn [join_slash].
      destruct (split_slash_aux [] r) as [|x l] eqn:S; [exfalso; exact (split_aux_nonempty [] r S)|].
      rewrite <- S, IH. reflexivity.
    + rewrite IH. cbn [rev]. rewrite <- app_assoc. reflexivity.
Qed.

Lemma ends_with_slash_app a b :
  b <> [] -> ends_with_slash (a ++ b) = ends_with_slash b.
Proof.
  intros Hb. unfold ends_with_slash. rewrite rev_app_distr.
  destruct (rev b) as [|c r] eqn:E.
  - apply (f_equal (@rev N)) in E. rewrite rev_involutive in E. cbn in E. contradiction.
  - reflexivity.
Qed.

Lemma noslash_not_ending c : has_slash c = false -> ends_with_slash c = false.
Proof.
  intros Hs. unfold ends_with_slash. destruct (rev c) as [|x r] eqn:E; [reflexivity|].
  assert (Hin : In x c) by (apply in_rev; rewrite E; left; reflexivity).
  unfold has_slash in Hs.
  destruct (x =? slash) eqn:Ex; [|reflexivity].
  assert (existsb (fun c0 => c0 =? slash) c = true) by (apply existsb_exists; exists x; auto).
  congruence.
Qed.

Lemma trim_not_ending s : ends_with_slash s = false -> trim_slash s = s.
Proof.
  unfold ends_with_slash, trim_slash. destruct (rev s) as [|c r]; [reflexivity|].
  intros ->. reflexivity.
Qed.

Lemma trim_snoc_slash s : trim_slash (s ++ [slash]) = s.
Proof.
  unfold trim_slash. rewrite rev_app_distr. cbn [rev app]. rewrite N.eqb_refl.
  apply rev_involutive.
Qed.

Lemma hexd_inj a b : hexd a = hexd b -> a = b.
Proof.
  unfold hexd. destruct (N.ltb_spec a 10), (N.ltb_spec b 10); lia.
Qed.

Lemma byte_split_inj a b : a / 16 = b / 16 -> a mod 16 = b mod 16 -> a = b.
Proof.
  intros Hq Hr. rewrite (N.div_mod a 16), (N.div_mod b 16) by lia. rewrite Hq, Hr. reflexivity.
Qed.

Lemma hex_inj a b : hex a = hex b -> a = b.
Proof.
  revert b; induction a as [|x a IH]; intros [|y b] E; try reflexivity; try discriminate.
  unfold hex in E. cbn [map concat app] in E. injection E as E1 E2 E3.
  f_equal; [apply byte_split_inj; apply hexd_inj; assumption | apply IH; exact E3].
Qed.

Lemma hex_length a : length (hex a) = (2 * length a)%nat.
Proof. induction a as [|x a IH]; [reflexivity|]. unfold hex in *. cbn [map concat app length]. rewrite IH. lia. Qed.

Lemma app_inv_same_tail_len {A} (a b c d : list A) :
  a ++ b = c ++ d -> length b = length d -> a = c /\ b = d.
Proof.
  intros E L.
  assert (La : length a = length c).
  { apply (f_equal (@length A)) in E. rewrite !app_length in E. lia. }
  revert c E La; induction a as [|x a IH]; intros [|y c] E La; try discriminate.
  - split; [reflexivity | exact E].
  - cbn in E. injection E as -> E. destruct (IH c E) as [-> ->]; [cbn in La; lia|]. split; reflexivity.
Qed.

(* ---------- the C20 theorems, for an arbitrary hash function ---------- *)

Section PathsProofs.
  Variable H : bytes -> bytes.

  Lemma fold_segments_snoc l c :
    fold_segments H (l ++ [c]) = path_step H (fold_segments H l) c.
  Proof. unfold fold_segments. rewrite fold_left_app. reflexivity. Qed.

  Lemma path_step_is_add total chunk :
    path_step H total chunk = add_to_merkle H total (hexH H chunk).
  Proof. reflexivity. Qed.

  (* parent/child relation *)
  Lemma child_relation parent child :
    child <> [] -> has_slash child = false -> ends_with_slash parent = false ->
    merkle_path H (parent ++ slash :: child)
    = add_to_merkle H (merkle_path H parent) (hexH H child).
  Proof.
    intros Hne Hns Hp. unfold merkle_path.
    rewrite (trim_not_ending (parent ++ slash :: child)).
    2:{ change (slash :: child) with ([slash] ++ child). rewrite app_assoc.
        rewrite ends_with_slash_app by exact Hne. apply noslash_not_ending; exact Hns. }
    rewrite (trim_not_ending parent Hp).
    rewrite split_snoc_segment by exact Hns.
    rewrite fold_segments_snoc. apply path_step_is_add.
  Qed.

  Lemma trailing_neutral p :
    ends_with_slash p = false -> merkle_path H (p ++ [slash]) = merkle_path H p.
  Proof.
    intros Hp. unfold merkle_path. rewrite trim_snoc_slash, (trim_not_ending p Hp). reflexivity.
  Qed.

  Lemma child_relation_trailing parent child :
    child <> [] -> has_slash child = false -> ends_with_slash parent = false ->
    merkle_path H ((parent ++ slash :: child) ++ [slash])
    = add_to_merkle H (merkle_path H parent) (hexH H child).
  Proof.
    intros Hne Hns Hp. rewrite trailing_neutral.
    - apply child_relation; assumption.
    - change (slash :: child) with ([slash] ++ child). rewrite app_assoc.
      rewrite ends_with_slash_app by exact Hne. apply noslash_not_ending; exact Hns.
  Qed.

  (* what PostFile returns for (MerklePath parent, hex(H child)) is the address of parent/child *)
  Lemma post_file_address parent child :
    child <> [] -> has_slash child = false -> ends_with_slash parent = false ->
    post_file_path H (merkle_path H parent) (hexH H child)
    = merkle_path H (parent ++ slash :: child).
  Proof. intros. unfold post_file_path. symmetry. apply child_relation; assumption. Qed.

  (* the client-side split recombines to the plain path's address *)
  Lemma client_split_parts parent child :
    child <> [] -> has_slash child = false -> ends_with_slash parent = false ->
    client_split H (parent ++ slash :: child) = (merkle_path H parent, hexH H child).
  Proof.
    intros Hne Hns Hp. unfold client_split.
    rewrite (trim_not_ending (parent ++ slash :: child)).
    2:{ change (slash :: child) with ([slash] ++ child). rewrite app_assoc.
        rewrite ends_with_slash_app by exact Hne. apply noslash_not_ending; exact Hns. }
    rewrite split_snoc_segment by exact Hns.
    rewrite removelast_last, last_last. unfold split_slash. rewrite join_split_aux. reflexivity.
  Qed.

  Lemma client_split_recombines parent child :
    child <> [] -> has_slash child = false -> ends_with_slash parent = false ->
    let (hp, hc) := client_split H (parent ++ slash :: child) in
    post_file_path H hp hc = merkle_path H (parent ++ slash :: child).
  Proof.
    intros Hne Hns Hp. rewrite client_split_parts by assumption. apply post_file_address; assumption.
  Qed.

  (* injectivity up to an explicit collision *)
  Definition collision : Prop := exists x y : bytes, x <> y /\ H x = H y.

  Hypothesis H_len : forall x, length (H x) = 32%nat.

  Lemma hexH_len x : length (hexH H x) = 64%nat.
  Proof. unfold hexH. rewrite hex_length, H_len. reflexivity. Qed.

  Lemma fold_nonempty_len l : l <> [] -> length (fold_segments H l) = 64%nat.
  Proof.
    destruct l as [|c l] using rev_ind; [contradiction|]. intros _.
    rewrite fold_segments_snoc. unfold path_step. apply hexH_len.
  Qed.

  Lemma bytes_eq_dec (x y : bytes) : {x = y} + {x <> y}.
  Proof. apply list_eq_dec. apply N.eq_dec. Qed.

  Lemma hexH_inj_or_collision x y : hexH H x = hexH H y -> x = y \/ collision.
  Proof.
    intros E. apply hex_inj in E. destruct (bytes_eq_dec x y) as [->|N]; [left; reflexivity|].
    right. exists x, y. split; assumption.
  Qed.

  Lemma segments_injective l1 :
    forall l2, fold_segments H l1 = fold_segments H l2 -> l1 <> [] -> l2 <> [] ->
               l1 = l2 \/ collision.
  Proof.
    induction l1 as [|a l1' IH] using rev_ind; intros l2 E N1 N2; [contradiction|].
    destruct l2 as [|b l2' _] using rev_ind; [contradiction|].
    rewrite !fold_segments_snoc in E. unfold path_step in E.
    destruct (hexH_inj_or_collision _ _ E) as [E'|C]; [|right; exact C].
    apply app_inv_same_tail_len in E' as [Et Eh]; [|rewrite !hexH_len; reflexivity].
    destruct (hexH_inj_or_collision _ _ Eh) as [->|C]; [|right; exact C].
    destruct l1' as [|x1 r1].
    - destruct l2' as [|x2 r2]; [left; reflexivity|].
      exfalso. assert (L : length (fold_segments H (x2 :: r2)) = 64%nat) by (apply fold_nonempty_len; discriminate).
      rewrite <- Et in L. cbn in L. discriminate.
    - destruct l2' as [|x2 r2].
      + exfalso. assert (L : length (fold_segments H (x1 :: r1)) = 64%nat) by (apply fold_nonempty_len; discriminate).
        rewrite Et in L. cbn in L. discriminate.
      + destruct (IH (x2 :: r2) Et) as [->|C]; try discriminate; [left; reflexivity | right; exact C].
  Qed.
End PathsProofs.
