(* C16, second part: MsgInit (the only other handler that writes name records) never takes or
   shortens a live name, and a paid term is honoured along every history of registrations AND
   initialisations. *)
From Coq Require Import ZArith NArith List Bool Lia.
From JK Require Import Base.Dec Base.AList Base.Bytes Model.RnsReg Proofs.RnsRegProofs.
Import ListNotations.
Open Scope Z_scope.

Lemma wrap64_le_MAX x : wrap64 x <= MAX.
Proof.
  unfold wrap64, MAX.
  pose proof (Z.mod_pos_bound (x + 2 ^ 63) (2 ^ 64) ltac:(lia)) as B.
  change (2 ^ 63) with 9223372036854775808 in *. change (2 ^ 64) with 18446744073709551616 in *. lia.
Qed.

Opaque wrap64 init_term.

Lemma init_not_ok_noop s op o s' : init_name s op = (o, s') -> o <> Ok -> s' = s.
Proof.
  unfold init_name. intros R N.
  destruct (negb (i_basic_ok op)); [inversion R; reflexivity|].
  destruct (negb (i_fresh op)); [inversion R; reflexivity|].
  destruct (i_name op) as [idx|]; [|inversion R; reflexivity].
  destruct (match aget N.eqb (s_names s) idx with Some w => i_height op <? n_expires w | None => false end);
    inversion R; subst; [reflexivity | congruence].
Qed.

(* what a successful initialisation did *)
Lemma init_ok_inv s op s' :
  init_name s op = (Ok, s') ->
  exists idx, i_name op = Some idx /\ i_fresh op = true /\
    (forall w, lookup s idx = Some w -> n_expires w <= i_height op) /\
    lookup s' idx = Some {| n_owner := i_sender op; n_expires := wrap64 (init_term + i_height op); n_data := i_data op;
                            n_locked := wrap64 (init_term + i_height op); n_subs := 0 |} /\
    (forall k, k <> idx -> lookup s' k = lookup s k) /\
    s_bank s' = s_bank s /\ s_primary s' = s_primary s.
Proof.
  unfold init_name, lookup. intros R.
  destruct (negb (i_basic_ok op)); [inversion R|].
  destruct (i_fresh op) eqn:F; cbn [negb] in R; [|inversion R].
  destruct (i_name op) as [idx|]; [|inversion R].
  destruct (aget N.eqb (s_names s) idx) as [w0|] eqn:G.
  - destruct (i_height op <? n_expires w0) eqn:L; inversion R; subst s'. cbn [s_names s_bank s_primary].
    exists idx. split; [reflexivity|]. split; [reflexivity|]. split.
    { intros w Hw. rewrite G in Hw. injection Hw as <-. apply Z.ltb_ge in L. exact L. }
    split; [apply aget_aset_same; intros; apply N.eqb_eq|].
    all: try (split; [intros k Nk; apply aget_aset_other; [intros a b; apply N.eqb_eq | exact Nk] | split; reflexivity]).
  - inversion R; subst s'. cbn [s_names s_bank s_primary].
    exists idx. split; [reflexivity|]. split; [reflexivity|]. split; [intros w Hw; rewrite G in Hw; discriminate|].
    split; [apply aget_aset_same; intros; apply N.eqb_eq|].
    split; [intros k Nk; apply aget_aset_other; [intros a b; apply N.eqb_eq | exact Nk] | split; reflexivity].
Qed.

(* every name live at the height of an initialisation keeps its owner and its expiry *)
Lemma init_live_names_keep_owner s op k w :
  lookup s k = Some w -> i_height op < n_expires w ->
  lookup (snd (init_name s op)) k = Some w.
Proof.
  intros Lw Live. destruct (init_name s op) as [o s'] eqn:R. cbn [snd]. destruct o.
  - destruct (init_ok_inv s op s' R) as (idx & _ & _ & Hl & _ & Ho & _).
    destruct (N.eq_dec k idx) as [->|Nk].
    + pose proof (Hl w Lw). lia.
    + rewrite (Ho k Nk). exact Lw.
  - rewrite (init_not_ok_noop s op Fail s' R) by discriminate. exact Lw.
  - rewrite (init_not_ok_noop s op Panic s' R) by discriminate. exact Lw.
Qed.

Lemma init_never_panics s op : fst (init_name s op) <> Panic.
Proof.
  unfold init_name.
  destruct (negb (i_basic_ok op)); [discriminate|]. destruct (negb (i_fresh op)); [discriminate|].
  destruct (i_name op) as [idx|]; [|discriminate].
  destruct (match aget N.eqb (s_names s) idx with Some w => i_height op <? n_expires w | None => false end); discriminate.
Qed.

Lemma init_bank s op : s_bank (snd (init_name s op)) = s_bank s.
Proof.
  destruct (init_name s op) as [o s'] eqn:R. cbn [snd]. destruct o.
  - destruct (init_ok_inv s op s' R) as (idx & _ & _ & _ & _ & _ & B & _). exact B.
  - rewrite (init_not_ok_noop s op Fail s' R) by discriminate. reflexivity.
  - rewrite (init_not_ok_noop s op Panic s' R) by discriminate. reflexivity.
Qed.

Lemma init_wf s op : wf s -> wf (snd (init_name s op)).
Proof.
  intros Hwf. destruct (init_name s op) as [o s'] eqn:R. cbn [snd].
  destruct o; try (rewrite (init_not_ok_noop s op _ s' R) by discriminate; exact Hwf).
  destruct (init_ok_inv s op s' R) as (idx & _ & _ & _ & L & Ho & _).
  intros k w Lk. destruct (N.eq_dec k idx) as [->|Nk].
  - rewrite L in Lk. inversion Lk; subst w. cbn [n_expires]. apply wrap64_le_MAX.
  - rewrite (Ho k Nk) in Lk. exact (Hwf k w Lk).
Qed.

(* the initialised account holds the generated name for init_term blocks *)
Lemma init_term_granted s op s' :
  valid_height (i_height op) -> i_height op + init_term <= MAX ->
  init_name s op = (Ok, s') ->
  exists idx w, i_name op = Some idx /\ lookup s' idx = Some w /\ n_owner w = i_sender op /\
                n_expires w = i_height op + init_term.
Proof.
  intros [H0 H1] Hm R. destruct (init_ok_inv s op s' R) as (idx & Hn & _ & _ & L & _).
  exists idx. eexists. split; [exact Hn|]. split; [exact L|]. split; [reflexivity|]. cbn [n_expires].
  rewrite wrap64_small; [lia|]. change init_term with 5733818 in *. unfold MAX in *. lia.
Qed.

(* ---------- histories of registrations and initialisations ---------- *)

Lemma hstep_wf acc s o : wf s -> valid_height (hop_height o) -> wf (snd (hstep acc s o)).
Proof. destruct o as [r|i]; cbn [hstep hop_height]; intros Hwf Hh; [apply wf_step; assumption | apply init_wf; exact Hwf]. Qed.

Lemma hstep_live_names_keep_owner acc s o k w :
  wf s -> valid_height (hop_height o) -> lookup s k = Some w -> hop_height o < n_expires w ->
  exists w', lookup (snd (hstep acc s o)) k = Some w' /\ n_owner w' = n_owner w /\ n_expires w <= n_expires w'.
Proof.
  destruct o as [r|i]; cbn [hstep hop_height]; intros Hwf Hh L Live.
  - exact (live_names_keep_owner acc s r k w Hwf Hh L Live).
  - exists w. split; [apply init_live_names_keep_owner; assumption|]. split; [reflexivity | lia].
Qed.

Lemma hrun_wf acc ops : forall s, wf s -> Forall (fun o => valid_height (hop_height o)) ops -> wf (hrun acc s ops).
Proof.
  induction ops as [|o r IH]; intros s Hwf Hv; cbn [hrun]; [exact Hwf|].
  inversion Hv; subst. apply IH; [apply hstep_wf; assumption | assumption].
Qed.

Lemma hpaid_term_honoured acc ops : forall s idx a T,
  wf s ->
  (exists w, lookup s idx = Some w /\ n_owner w = a /\ T <= n_expires w) ->
  Forall (fun o => valid_height (hop_height o) /\ hop_height o < T) ops ->
  exists w, lookup (hrun acc s ops) idx = Some w /\ n_owner w = a /\ T <= n_expires w.
Proof.
  induction ops as [|o r IH]; intros s idx a T Hwf Hw Hv; cbn [hrun]; [exact Hw|].
  inversion Hv as [|? ? [Hh Hlt] Hr]; subst.
  apply IH; [apply hstep_wf; assumption | | exact Hr].
  destruct Hw as (w & L & Ho & HT).
  destruct (hstep_live_names_keep_owner acc s o idx w Hwf Hh L ltac:(lia)) as (w' & L' & Ho' & HE).
  exists w'. split; [exact L'|]. split; [congruence | lia].
Qed.

Lemma hregistration_protected acc s op s1 idx len t ops :
  wf s -> valid_height (o_height op) ->
  register acc s op = (Ok, s1) -> o_parse op = Some (idx, len, t) ->
  Forall (fun o => valid_height (hop_height o) /\ hop_height o < o_height op + o_years op * blocks_per_year) ops ->
  exists w, lookup (hrun acc s1 ops) idx = Some w /\ n_owner w = o_sender op /\
            o_height op + o_years op * blocks_per_year <= n_expires w.
Proof.
  intros Hwf Hh R Hp Hv.
  apply hpaid_term_honoured; [| | exact Hv].
  - pose proof (wf_step acc s op Hwf Hh) as W. rewrite R in W. exact W.
  - destruct (registered_live_for_term acc s op s1 idx len t Hwf Hh R Hp) as (w & L & Ho & HT & _).
    exists w. split; [exact L|]. split; [exact Ho | exact HT].
Qed.

(* the name handed out by an initialisation is protected in the same way *)
Lemma hinit_protected acc s op s1 ops :
  wf s -> valid_height (i_height op) -> i_height op + init_term <= MAX ->
  init_name s op = (Ok, s1) ->
  Forall (fun o => valid_height (hop_height o) /\ hop_height o < i_height op + init_term) ops ->
  exists idx w, i_name op = Some idx /\ lookup (hrun acc s1 ops) idx = Some w /\ n_owner w = i_sender op /\
                i_height op + init_term <= n_expires w.
Proof.
  intros Hwf Hh Hm R Hv.
  destruct (init_term_granted s op s1 Hh Hm R) as (idx & w & Hn & L & Ho & He).
  exists idx.
  destruct (hpaid_term_honoured acc ops s1 idx (i_sender op) (i_height op + init_term)) as (w' & L' & Ho' & HT).
  - pose proof (init_wf s op Hwf) as W. rewrite R in W. exact W.
  - exists w. split; [exact L|]. split; [exact Ho | lia].
  - exact Hv.
  - exists w'. split; [exact Hn|]. split; [exact L'|]. split; [exact Ho' | exact HT].
Qed.
