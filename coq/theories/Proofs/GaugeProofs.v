(* Proofs about the payment-gauge model (Model/Gauge.v).
   Part A: one gauge, one denomination: closed form of the cumulative release, bounds,
           monotonicity, no panic, nothing outside the interval.
   Part B: many gauges, many denominations, histories of creations and reward blocks:
           frame property of a reward block, inductive invariant, closed form after every
           reward block, no panic. *)
From Coq Require Import ZArith NArith List Bool Lia.
From JK Require Import Base.Dec Base.AList Model.Gauge.
Import ListNotations.
Open Scope Z_scope.

Lemma P18_ge : 1000 <= P18.
Proof. vm_compute. discriminate. Qed.

(* ------------------------------------------------------------------ *)
(* Part A.  arithmetic of the ratio                                     *)
(* ------------------------------------------------------------------ *)

(* 1 - Quo(left, total) on raw 18-decimal integers, for 0 <= left, 0 < total *)
Definition rat (left total : Z) : Z := P18 - chop_nn ((left * P18 * P18) / total).

(* a gauge whose interval is expressible: at least one microsecond, at most 2^63-1 ns *)
Definition wf_interval (start end_ : Z) : Prop := 1000 <= end_ - start <= max_dur.

Definition usec (x : Z) : Z := x / 1000.

Lemma tsub_exact a b : min_dur <= a - b <= max_dur -> tsub a b = a - b.
Proof.
  intros H. unfold tsub.
  destruct (Z.ltb_spec max_dur (a - b)); [lia|].
  destruct (Z.ltb_spec (a - b) min_dur); [lia|reflexivity].
Qed.

Lemma micros_nonneg d : 0 <= d -> micros d = d / 1000.
Proof. intros. unfold micros. apply Z.quot_div_nonneg; lia. Qed.

Lemma min_dur_neg : min_dur < 0. Proof. reflexivity. Qed.

Lemma gauge_ratio_closed start end_ t :
  wf_interval start end_ -> start <= t <= end_ ->
  gauge_ratio start end_ t = Some (rat (usec (end_ - t)) (usec (end_ - start))).
Proof.
  intros [W1 W2] [T1 T2]. pose proof min_dur_neg. unfold gauge_ratio.
  rewrite !tsub_exact by lia. rewrite !micros_nonneg by lia. unfold usec.
  assert (HD : 0 < (end_ - start) / 1000) by (apply Z.div_str_pos; lia).
  assert (HL : 0 <= (end_ - t) / 1000) by (apply Z.div_pos; lia).
  destruct (Z.eqb_spec ((end_ - start) / 1000) 0); [lia|].
  f_equal. unfold rat, dec. pose proof P18_pos.
  set (D := (end_ - start) / 1000) in *. set (L := (end_ - t) / 1000) in *.
  rewrite dquo_nonneg by nia.
  replace (L * P18 * P18 * P18) with ((L * P18 * P18) * P18) by ring.
  rewrite Z.div_mul_cancel_r by lia. ring.
Qed.

Lemma usec_left_range start end_ t :
  start <= t <= end_ -> 0 <= usec (end_ - t) <= usec (end_ - start).
Proof.
  intros. unfold usec. split; [apply Z.div_pos; lia | apply Z.div_le_mono; lia].
Qed.

Lemma usec_total_pos start end_ : wf_interval start end_ -> 0 < usec (end_ - start).
Proof. intros [W _]. unfold usec. apply Z.div_str_pos. lia. Qed.

Lemma rat_range L D : 0 < D -> 0 <= L <= D -> 0 <= rat L D <= P18.
Proof.
  intros HD HL. unfold rat. pose proof P18_pos as HP.
  assert (0 <= L * P18 * P18) by nia.
  assert (0 <= (L * P18 * P18) / D) by (apply Z.div_pos; lia).
  assert ((L * P18 * P18) / D <= P18 * P18).
  { apply Z.div_le_upper_bound; [lia|]. nia. }
  pose proof (chop_nn_nonneg ((L * P18 * P18) / D) ltac:(lia)).
  pose proof (chop_nn_mono ((L * P18 * P18) / D) (P18 * P18) ltac:(lia)) as M.
  rewrite (chop_nn_exact P18) in M by lia. lia.
Qed.

Lemma rat_mono L1 L2 D : 0 < D -> 0 <= L2 <= L1 -> rat L1 D <= rat L2 D.
Proof.
  intros HD HL. unfold rat. pose proof P18_pos.
  assert (0 <= (L2 * P18 * P18) / D) by (apply Z.div_pos; nia).
  assert ((L2 * P18 * P18) / D <= (L1 * P18 * P18) / D) by (apply Z.div_le_mono; nia).
  pose proof (chop_nn_mono ((L2 * P18 * P18) / D) ((L1 * P18 * P18) / D) ltac:(lia)). lia.
Qed.

Lemma rat_at_start D : 0 < D -> rat D D = 0.
Proof.
  intros. unfold rat. pose proof P18_pos.
  replace (D * P18 * P18) with ((P18 * P18) * D) by ring.
  rewrite Z.div_mul by lia. rewrite chop_nn_exact by lia. lia.
Qed.

Lemma rat_at_end D : 0 < D -> rat 0 D = P18.
Proof.
  intros. unfold rat. cbn [Z.mul]. rewrite Z.div_0_l by lia.
  replace 0 with (0 * P18) by ring. rewrite chop_nn_exact by lia. lia.
Qed.

(* D*c is within D/2 (+ D/10^18) of L*10^18 *)
Lemma rat_scaled_bounds L D :
  0 < D -> 0 <= L ->
  let c := chop_nn ((L * P18 * P18) / D) in
  2 * (D * c) <= 2 * (L * P18) + D /\ L * P18 - D <= D * c.
Proof.
  intros HD HL c. pose proof P18_pos as HP. pose proof P18_ge as HG.
  assert (Ha0 : 0 <= L * P18 * P18) by nia.
  pose proof (Z.div_mod (L * P18 * P18) D ltac:(lia)) as Hd.
  pose proof (Z.mod_pos_bound (L * P18 * P18) D ltac:(lia)) as Hm.
  assert (Hq0 : 0 <= (L * P18 * P18) / D) by (apply Z.div_pos; lia).
  destruct (chop_nn_bounds ((L * P18 * P18) / D) Hq0) as [B1 B2].
  fold c in B1, B2.
  set (a := (L * P18 * P18) / D) in *. set (m := (L * P18 * P18) mod D) in *.
  set (LP := L * P18) in *.
  assert (E : LP * P18 = D * a + m) by (unfold LP; lia).
  set (X := D * c).
  assert (S1 : 2 * P18 * X <= 2 * (D * a) + P18 * D).
  { unfold X. replace (2 * P18 * (D * c)) with (D * (2 * P18 * c)) by ring.
    replace (2 * (D * a) + P18 * D) with (D * (2 * a + P18)) by ring.
    apply Z.mul_le_mono_nonneg_l; lia. }
  assert (S2 : 2 * (D * a) - P18 * D <= 2 * P18 * X).
  { unfold X. replace (2 * P18 * (D * c)) with (D * (2 * P18 * c)) by ring.
    replace (2 * (D * a) - P18 * D) with (D * (2 * a - P18)) by ring.
    apply Z.mul_le_mono_nonneg_l; lia. }
  split.
  - (* 2*P18*X <= 2*LP*P18 + P18*D, cancel P18 *)
    assert (P18 * (2 * X) <= P18 * (2 * LP + D)) by nia.
    apply Z.mul_le_mono_pos_l in H; lia.
  - (* 2*P18*X >= 2*LP*P18 - 2*m - P18*D > 2*LP*P18 - 2*D - P18*D *)
    assert (P18 * (2 * (LP - D)) <= P18 * (2 * X)) by nia.
    apply Z.mul_le_mono_pos_l in H; lia.
Qed.

(* ---------- the closed form ---------- *)
Definition cumf (start end_ A t : Z) : Z :=
  (rat (usec (end_ - t)) (usec (end_ - start)) * A) / P18.

Lemma cum_at_closed start end_ A t :
  wf_interval start end_ -> start <= t <= end_ -> 0 <= A ->
  cum_at start end_ A t = cumf start end_ A t.
Proof.
  intros W T HA. unfold cum_at, cumf. rewrite gauge_ratio_closed by assumption.
  pose proof (usec_total_pos _ _ W). pose proof (usec_left_range _ _ _ T).
  pose proof (rat_range (usec (end_ - t)) (usec (end_ - start)) ltac:(lia) ltac:(lia)).
  rewrite dmul_dec_int by lia. apply dtrunc_nonneg. nia.
Qed.

Lemma cumf_range start end_ A t :
  wf_interval start end_ -> start <= t <= end_ -> 0 <= A -> 0 <= cumf start end_ A t <= A.
Proof.
  intros W T HA. unfold cumf. pose proof P18_pos.
  pose proof (usec_total_pos _ _ W). pose proof (usec_left_range _ _ _ T).
  pose proof (rat_range (usec (end_ - t)) (usec (end_ - start)) ltac:(lia) ltac:(lia)).
  set (r := rat _ _) in *. split.
  - apply Z.div_pos; nia.
  - apply Z.div_le_upper_bound; [lia|]. nia.
Qed.

Lemma cumf_mono start end_ A t t' :
  wf_interval start end_ -> start <= t -> t <= t' -> t' <= end_ -> 0 <= A ->
  cumf start end_ A t <= cumf start end_ A t'.
Proof.
  intros W T1 T2 T3 HA. unfold cumf. pose proof P18_pos.
  pose proof (usec_total_pos _ _ W).
  assert (0 <= usec (end_ - t') <= usec (end_ - t)).
  { unfold usec. split; [apply Z.div_pos; lia | apply Z.div_le_mono; lia]. }
  pose proof (rat_mono (usec (end_ - t)) (usec (end_ - t')) (usec (end_ - start)) ltac:(lia) ltac:(lia)).
  pose proof (usec_left_range start end_ t' ltac:(lia)).
  pose proof (rat_range (usec (end_ - t')) (usec (end_ - start)) ltac:(lia) ltac:(lia)).
  apply Z.div_le_mono; [lia|]. nia.
Qed.

Lemma cumf_at_start start end_ A : wf_interval start end_ -> cumf start end_ A start = 0.
Proof.
  intros W. unfold cumf. rewrite rat_at_start by (apply usec_total_pos; assumption).
  reflexivity.
Qed.

Lemma cumf_at_end start end_ A : wf_interval start end_ -> cumf start end_ A end_ = A.
Proof.
  intros W. unfold cumf. replace (end_ - end_) with 0 by ring. unfold usec at 1. cbn [Z.div Z.div_eucl].
  rewrite rat_at_end by (apply usec_total_pos; assumption).
  rewrite Z.mul_comm. apply Z.div_mul. pose proof P18_pos. lia.
Qed.

(* the release is linear in elapsed/total microseconds up to the 18-decimal rounding *)
Lemma cumf_bounds start end_ A t :
  wf_interval start end_ -> start <= t <= end_ -> 0 <= A ->
  let D := usec (end_ - start) in
  let e := D - usec (end_ - t) in
  let cum := cumf start end_ A t in
  D * P18 * cum <= A * e * P18 + A * D /\
  A * e * P18 - A * D - D * P18 < D * P18 * cum.
Proof.
  intros W T HA D e cum. pose proof P18_pos as HP.
  pose proof (usec_total_pos _ _ W) as HD. fold D in HD.
  pose proof (usec_left_range _ _ _ T) as HL. fold D in HL.
  set (L := usec (end_ - t)) in *.
  destruct (rat_scaled_bounds L D HD ltac:(lia)) as [B1 B2].
  pose proof (rat_range L D HD ltac:(lia)) as HR.
  unfold cum, cumf. fold L D. unfold rat in *.
  set (c := chop_nn ((L * P18 * P18) / D)) in *.
  pose proof (Z.div_mod ((P18 - c) * A) P18 ltac:(lia)) as Hd.
  pose proof (Z.mod_pos_bound ((P18 - c) * A) P18 ltac:(lia)) as Hm.
  set (q := ((P18 - c) * A) / P18) in *. set (m := ((P18 - c) * A) mod P18) in *.
  set (X := D * c) in *. set (LP := L * P18) in *.
  (* P18*q = (P18-c)*A - m ;  D*P18*q = D*P18*A - X*A - D*m *)
  assert (E : D * P18 * q = D * P18 * A - X * A - D * m).
  { unfold X. replace (D * P18 * q) with (D * (P18 * q)) by ring. rewrite <- (Z.add_simpl_r (P18 * q) m).
    rewrite <- Hd. ring. }
  unfold e. fold LP.
  replace (A * (D - L) * P18) with (D * P18 * A - LP * A) by (unfold LP; ring).
  rewrite E. split.
  - (* -X*A - D*m <= -LP*A + A*D  <=  (LP - D) * A <= X * A *)
    assert ((LP - D) * A <= X * A) by (apply Z.mul_le_mono_nonneg_r; lia).
    assert (0 <= D * m) by nia. lia.
  - (* D*P18*A - LP*A - A*D - D*P18 < D*P18*A - X*A - D*m  <=  X*A + D*m < LP*A + A*D + D*P18 *)
    assert (X * A <= (LP + D) * A) by (apply Z.mul_le_mono_nonneg_r; lia).
    assert (D * m < D * P18) by (apply Z.mul_lt_mono_pos_l; lia). lia.
Qed.

(* within one base unit of floor(A*e/D) for amounts up to 10^18 *)
Lemma cumf_within_one start end_ A t :
  wf_interval start end_ -> start <= t <= end_ -> 0 <= A <= P18 ->
  let D := usec (end_ - start) in
  let e := D - usec (end_ - t) in
  (A * e) / D - 1 <= cumf start end_ A t <= (A * e) / D + 1.
Proof.
  intros W T HA D e. pose proof P18_pos as HP.
  pose proof (usec_total_pos _ _ W) as HD. fold D in HD.
  destruct (cumf_bounds start end_ A t W T ltac:(lia)) as [U Lo]. fold D e in U, Lo.
  set (cum := cumf start end_ A t) in *.
  pose proof (Z.div_mod (A * e) D ltac:(lia)) as Hd.
  pose proof (Z.mod_pos_bound (A * e) D ltac:(lia)) as Hm.
  set (f := (A * e) / D) in *. set (m := (A * e) mod D) in *.
  set (DP := D * P18) in *.
  assert (E : A * e * P18 = DP * f + m * P18) by (unfold DP; nia).
  assert (AD : A * D <= DP) by (unfold DP; nia).
  assert (MP : m * P18 <= DP - P18) by (unfold DP; nia).
  split.
  - (* DP*cum > DP*f + m*P18 - A*D - DP >= DP*(f-2) *)
    assert (DP * (f - 2) < DP * cum) by nia.
    apply Z.mul_lt_mono_pos_l in H; [lia | unfold DP; nia].
  - assert (DP * cum < DP * (f + 2)) by nia.
    apply Z.mul_lt_mono_pos_l in H; [lia | unfold DP; nia].
Qed.

(* ---------- one coin of one gauge at one reward block ---------- *)
Lemma pull_coin_closed r A c :
  0 <= A <= int64_max -> 0 <= r <= P18 -> 0 <= c -> c <= (r * A) / P18 ->
  pull_coin r (A - c) A = CMove ((r * A) / P18 - c) ((r * A) / P18 - c).
Proof.
  intros HA Hr Hc Hle. pose proof P18_pos as HP. unfold pull_coin.
  rewrite dmul_dec_int by lia. unfold dec.
  replace (A - (A - c)) with c by ring.
  assert (Hq : (r * A) / P18 <= A) by (apply Z.div_le_upper_bound; nia).
  assert (Hmul : c * P18 <= r * A).
  { pose proof (Z.mul_div_le (r * A) P18 HP). nia. }
  assert (Ht : dtrunc (r * A - c * P18) = (r * A) / P18 - c).
  { rewrite dtrunc_nonneg by lia.
    replace (r * A - c * P18) with (r * A + (- c) * P18) by ring.
    rewrite Z.div_add by lia. ring. }
  unfold dtrunc64. rewrite Ht.
  assert (I : in_int64 ((r * A) / P18 - c) = true).
  { apply in_int64_iff. unfold int64_min. unfold int64_max in *. lia. }
  rewrite I. set (amt := (r * A) / P18 - c) in *.
  destruct (Z.eqb_spec amt 0) as [E|E]; [rewrite E; reflexivity|].
  destruct (Z.ltb_spec amt 0); [lia|].
  destruct (Z.leb_spec amt (A - c)); [reflexivity|lia].
Qed.

(* ---------- sequences of reward times ---------- *)
Fixpoint nondecr (prev : Z) (ts : list Z) : Prop :=
  match ts with [] => True | t :: r => prev <= t /\ nondecr t r end.

Lemma last_cons_indep {A} (x : A) r d d' : last (x :: r) d = last (x :: r) d'.
Proof. revert x. induction r as [|y r IH]; intros x; [reflexivity|]. cbn. destruct r; [reflexivity|apply (IH y)]. Qed.

Lemma last_cons {A} (x : A) r d : last (x :: r) d = last r x.
Proof. destruct r as [|y r]; [reflexivity|]. change (last (y :: r) d = last (y :: r) x). apply last_cons_indep. Qed.

Lemma nondecr_last prev ts : nondecr prev ts -> prev <= last ts prev.
Proof.
  revert prev. induction ts as [|t r IH]; intros prev H; [cbn; lia|].
  destruct H as [H1 H2]. rewrite last_cons. specialize (IH t H2). lia.
Qed.

(* starting anywhere at or below the pro-rata amount of the first reward time, the balance
   after the last reward block is A minus the closed form at that time: earlier blocks and
   their spacing leave no trace *)
Lemma run_coin_closed start end_ A :
  wf_interval start end_ -> 0 <= A <= int64_max ->
  forall ts t0 c, nondecr t0 ts -> start <= t0 -> last ts t0 <= end_ ->
    0 <= c <= cumf start end_ A t0 ->
    run_coin start end_ A ts (A - c) = Some (A - (match ts with [] => c | _ => cumf start end_ A (last ts t0) end)).
Proof.
  intros W HA. induction ts as [|t r IH]; intros t0 c ND S0 LE Hc; [reflexivity|].
  destruct ND as [N1 N2].
  assert (LT : t <= last (t :: r) t0).
  { rewrite last_cons. apply nondecr_last. exact N2. }
  assert (Tin : start <= t <= end_) by lia.
  pose proof (cumf_mono start end_ A t0 t W S0 N1 ltac:(lia) ltac:(lia)) as M0.
  pose proof (cumf_range start end_ A t W Tin ltac:(lia)) as R.
  cbn [run_coin].
  destruct (Z.ltb_spec end_ t); [lia|].
  destruct (Z.leb_spec end_ start); [destruct W; lia|].
  assert (LASTGE : cumf start end_ A t <= cumf start end_ A (last (t :: r) t0)).
  { apply cumf_mono; try assumption; lia. }
  pose proof (cumf_range start end_ A (last (t :: r) t0) W ltac:(lia) ltac:(lia)) as RL.
  destruct (Z.eqb_spec (A - c) 0) as [Z0|NZ].
  - (* nothing left: everything is released already, and the closed form says A *)
    f_equal. lia.
  - rewrite gauge_ratio_closed by assumption.
    pose proof (usec_total_pos _ _ W). pose proof (usec_left_range _ _ _ Tin).
    pose proof (rat_range (usec (end_ - t)) (usec (end_ - start)) ltac:(lia) ltac:(lia)) as RR.
    assert (Hcc : c <= cumf start end_ A t) by lia. unfold cumf in Hcc.
    rewrite pull_coin_closed by lia.
    fold (cumf start end_ A t).
    replace (A - c - (cumf start end_ A t - c)) with (A - cumf start end_ A t) by ring.
    destruct r as [|t' r'].
    + reflexivity.
    + specialize (IH t (cumf start end_ A t) N2 ltac:(lia)).
      rewrite (last_cons t (t' :: r') t0) in *.
      apply IH; lia.
Qed.

(* a fresh gauge (balance = recorded amount) after any non-decreasing sequence of reward
   times inside [start, end] *)
Lemma run_coin_fresh start end_ A ts :
  wf_interval start end_ -> 0 <= A <= int64_max ->
  nondecr start ts -> last ts start <= end_ -> ts <> [] ->
  run_coin start end_ A ts A = Some (A - cumf start end_ A (last ts start)).
Proof.
  intros W HA ND LE NE.
  pose proof (run_coin_closed start end_ A W HA ts start 0 ND ltac:(lia) LE) as H.
  rewrite cumf_at_start in H by assumption. specialize (H ltac:(lia)).
  replace (A - 0) with A in H by ring. destruct ts; [contradiction|exact H].
Qed.

(* the first reward block past the end releases nothing (the gauge is removed) *)
Lemma run_coin_past_end start end_ A t r bal :
  end_ < t -> run_coin start end_ A (t :: r) bal = Some bal.
Proof. intros H. cbn [run_coin]. destruct (Z.ltb_spec end_ t); [reflexivity|lia]. Qed.

(* ------------------------------------------------------------------ *)
(* Part B.  many gauges, many denominations, histories                  *)
(* ------------------------------------------------------------------ *)

Lemma Neqb_spec : forall a b : N, N.eqb a b = true <-> a = b.
Proof. apply N.eqb_eq. Qed.

Lemma cval_cadd1 c d x d' :
  cval (cadd1 c d x) d' = if N.eqb d' d then cval c d + x else cval c d'.
Proof.
  unfold cadd1. unfold cval at 1. unfold aval. destruct (N.eqb d' d) eqn:E.
  - apply N.eqb_eq in E; subst. rewrite (aget_aset_same N.eqb Neqb_spec). reflexivity.
  - rewrite (aget_aset_other N.eqb Neqb_spec) by (intros ->; rewrite N.eqb_refl in E; discriminate).
    reflexivity.
Qed.

Lemma keys_cadd1 c d x d' : In d' (map fst (cadd1 c d x)) <-> d' = d \/ In d' (map fst c).
Proof. unfold cadd1. apply (akeys_aset_in N.eqb Neqb_spec). Qed.

Lemma nodup_cadd1 c d x : NoDup (map fst c) -> NoDup (map fst (cadd1 c d x)).
Proof. unfold cadd1. apply (nodup_aset N.eqb Neqb_spec). Qed.

Lemma cval_notin c d : ~ In d (map fst c) -> cval c d = 0.
Proof.
  intros H. unfold cval, aval.
  assert (aget N.eqb c d = None) as -> by (apply (aget_none_notin N.eqb Neqb_spec); exact H).
  reflexivity.
Qed.

Lemma cval_in c d A : NoDup (map fst c) -> In (d, A) c -> cval c d = A.
Proof.
  induction c as [|[k v] r IH]; intros ND HI; [destruct HI|].
  inversion ND as [|? ? Hn Hr]; subst. unfold cval, aval. cbn [aget].
  destruct HI as [E|HI].
  - inversion E; subst. rewrite N.eqb_refl. reflexivity.
  - destruct (N.eqb d k) eqn:E.
    + apply N.eqb_eq in E; subst k. exfalso. apply Hn. change d with (fst (d, A)). apply in_map. exact HI.
    + apply (IH Hr HI).
Qed.

Lemma cval_cadd a b d : NoDup (map fst b) -> cval (cadd a b) d = cval a d + cval b d.
Proof.
  unfold cadd. revert a. induction b as [|[k v] r IH]; intros a ND.
  - cbn [fold_left]. change (cval [] d) with 0. lia.
  - inversion ND as [|? ? Hn Hr]; subst. cbn [fold_left fst snd]. rewrite IH by exact Hr.
    rewrite cval_cadd1.
    assert (HK : cval ((k, v) :: r) d = if N.eqb d k then v else cval r d).
    { unfold cval, aval. cbn [aget]. destruct (N.eqb d k); reflexivity. }
    rewrite HK. destruct (N.eqb d k) eqn:E.
    + apply N.eqb_eq in E; subst k. rewrite (cval_notin r d Hn). lia.
    + lia.
Qed.

Lemma keys_cadd a b d : In d (map fst (cadd a b)) <-> In d (map fst a) \/ In d (map fst b).
Proof.
  unfold cadd. revert a. induction b as [|[k v] r IH]; intros a; cbn [fold_left fst snd map].
  - cbn. tauto.
  - rewrite IH, keys_cadd1. cbn. intuition.
Qed.

Lemma nodup_cadd a b : NoDup (map fst a) -> NoDup (map fst (cadd a b)).
Proof.
  unfold cadd. revert a. induction b as [|[k v] r IH]; intros a ND; [exact ND|].
  cbn [fold_left]. apply IH. apply nodup_cadd1. exact ND.
Qed.

(* ---------- the loop over the coins of one gauge ---------- *)
Definition coin_step (ratio : Z) (snap : coins) (acc : option (coins * coins)) (c : N * Z) :=
  match acc with
  | None => None
  | Some (b, mv) =>
    match pull_coin ratio (cval snap (fst c)) (snd c) with
    | CPanic => None
    | CMove _ m => Some (cadd1 b (fst c) (- m), cadd1 mv (fst c) m)
    end
  end.

Lemma pull_coins_unfold ratio snap cs :
  pull_coins ratio snap cs = fold_left (coin_step ratio snap) cs (Some (snap, [])).
Proof. reflexivity. Qed.

Lemma coin_fold_spec ratio snap (rel : N -> Z) :
  forall cs b mv, NoDup (map fst cs) ->
    (forall c, In c cs -> pull_coin ratio (cval snap (fst c)) (snd c) = CMove (rel (fst c)) (rel (fst c))) ->
    exists b' mv', fold_left (coin_step ratio snap) cs (Some (b, mv)) = Some (b', mv') /\
      (forall d, In d (map fst cs) -> cval b' d = cval b d - rel d /\ cval mv' d = cval mv d + rel d) /\
      (forall d, ~ In d (map fst cs) -> cval b' d = cval b d /\ cval mv' d = cval mv d) /\
      (NoDup (map fst mv) -> NoDup (map fst mv')).
Proof.
  induction cs as [|[d0 A0] r IH]; intros b mv ND HC.
  - exists b, mv. cbn. split; [reflexivity|]. split; [intros d []|]. split; [intros; split; reflexivity|auto].
  - inversion ND as [|? ? Hn Hr]; subst.
    cbn [fold_left coin_step fst snd].
    pose proof (HC (d0, A0) (or_introl eq_refl)) as H0. cbn [fst snd] in H0. rewrite H0.
    destruct (IH (cadd1 b d0 (- rel d0)) (cadd1 mv d0 (rel d0)) Hr) as (b' & mv' & F & I1 & I2 & I3).
    { intros c Hc. apply HC. right. exact Hc. }
    exists b', mv'. split; [exact F|]. split; [|split].
    + intros d [E|Hd].
      * cbn in E. subst d. destruct (I2 d0 Hn) as [X Y]. rewrite X, Y, !cval_cadd1, N.eqb_refl. lia.
      * destruct (I1 d Hd) as [X Y]. rewrite X, Y, !cval_cadd1.
        destruct (N.eqb d d0) eqn:E; [apply N.eqb_eq in E; subst; contradiction|]. lia.
    + intros d Hd. cbn in Hd.
      destruct (I2 d ltac:(tauto)) as [X Y]. rewrite X, Y, !cval_cadd1.
      destruct (N.eqb d d0) eqn:E; [apply N.eqb_eq in E; subst; tauto|]. split; reflexivity.
    + intros NDm. apply I3. apply nodup_cadd1. exact NDm.
Qed.

(* ---------- one gauge at one reward block ---------- *)
(* a gauge created in the past, with an expressible interval, whose account holds, per
   recorded denomination, the recorded amount minus something between 0 and the pro-rata
   amount at tl (capped at the end), and nothing else *)
Definition gauge_ok (tl : Z) (g : gauge) (bal : coins) : Prop :=
  g_start g <= tl /\ wf_interval (g_start g) (g_end g) /\ NoDup (map fst (g_coins g)) /\
  (forall d A, In (d, A) (g_coins g) ->
     0 <= A <= int64_max /\
     0 <= A - cval bal d <= cumf (g_start g) (g_end g) A (Z.min tl (g_end g))) /\
  (forall d, ~ In d (map fst (g_coins g)) -> cval bal d = 0).

Lemma wf_start_lt_end s e : wf_interval s e -> s < e.
Proof. intros [H _]. lia. Qed.

Lemma gauge_ok_mono tl tl' g bal : tl <= tl' -> gauge_ok tl g bal -> gauge_ok tl' g bal.
Proof.
  intros Hle (S & W & ND & HC & HN). pose proof (wf_start_lt_end _ _ W).
  split; [lia|]. split; [exact W|]. split; [exact ND|]. split; [|exact HN].
  intros d A HI. destruct (HC d A HI) as [HA HB]. split; [exact HA|].
  pose proof (cumf_mono (g_start g) (g_end g) A (Z.min tl (g_end g)) (Z.min tl' (g_end g)) W ltac:(lia) ltac:(lia) ltac:(lia) ltac:(lia)).
  lia.
Qed.

Lemma pull_one_ok tl now g bal :
  gauge_ok tl g bal -> tl <= now ->
  exists keep b mv, pull_one now g bal = GDone keep b mv /\
    (forall d, cval b d + cval mv d = cval bal d /\ 0 <= cval mv d) /\ NoDup (map fst mv) /\
    (keep = true -> now <= g_end g /\ gauge_ok now g b /\
       forall d A, In (d, A) (g_coins g) -> cval b d = A - cumf (g_start g) (g_end g) A now) /\
    (keep = false -> b = bal /\ mv = [] /\ (g_end g < now \/ cempty bal = true)).
Proof.
  intros (S & W & ND & HC & HN) Hle. pose proof (wf_start_lt_end _ _ W) as SE.
  assert (ZERO : forall d, cval (@nil (N * Z)) d = 0) by reflexivity.
  unfold pull_one.
  destruct (Z.ltb_spec (g_end g) now) as [PE|PE].
  { exists false, bal, []. split; [reflexivity|]. split; [intros d; rewrite ZERO; lia|].
    split; [constructor|]. split; [discriminate|]. intros _. auto. }
  destruct (Z.leb_spec (g_end g) (g_start g)); [lia|].
  destruct (cempty bal) eqn:EM.
  { exists false, bal, []. split; [reflexivity|]. split; [intros d; rewrite ZERO; lia|].
    split; [constructor|]. split; [discriminate|]. intros _. auto. }
  assert (Tin : g_start g <= now <= g_end g) by lia.
  rewrite gauge_ratio_closed by assumption. cbv beta iota.
  set (r := rat (usec (g_end g - now)) (usec (g_end g - g_start g))).
  pose proof (usec_total_pos _ _ W). pose proof (usec_left_range _ _ _ Tin).
  pose proof (rat_range (usec (g_end g - now)) (usec (g_end g - g_start g)) ltac:(lia) ltac:(lia)) as RR.
  fold r in RR.
  set (rel := fun d => cumf (g_start g) (g_end g) (cval (g_coins g) d) now - (cval (g_coins g) d - cval bal d)).
  assert (CUM : forall d A, In (d, A) (g_coins g) ->
            0 <= A <= int64_max /\ 0 <= A - cval bal d <= cumf (g_start g) (g_end g) A now).
  { intros d A HI. destruct (HC d A HI) as [HA HB]. split; [exact HA|].
    pose proof (cumf_mono (g_start g) (g_end g) A (Z.min tl (g_end g)) now W ltac:(lia) ltac:(lia) ltac:(lia) ltac:(lia)).
    lia. }
  destruct (coin_fold_spec r bal rel (g_coins g) bal [] ND) as (b' & mv' & F & I1 & I2 & I3).
  { intros [d A] HI. cbn [fst snd]. destruct (CUM d A HI) as [HA HB].
    unfold rel. rewrite (cval_in _ _ _ ND HI).
    replace (cval bal d) with (A - (A - cval bal d)) at 1 by ring.
    unfold cumf in HB |- *. fold r in HB |- *.
    rewrite pull_coin_closed by lia. f_equal; ring. }
  assert (F' : pull_coins r bal (g_coins g) = Some (b', mv')) by exact F.
  exists true, b', mv'. rewrite F'. split; [reflexivity|].
  assert (B' : forall d A, In (d, A) (g_coins g) -> cval b' d = A - cumf (g_start g) (g_end g) A now).
  { intros d A HI. assert (Hk : In d (map fst (g_coins g))) by (change d with (fst (d, A)); apply in_map; exact HI).
    destruct (I1 d Hk) as [X _]. rewrite X. unfold rel. rewrite (cval_in _ _ _ ND HI). ring. }
  split.
  { intros d. destruct (in_dec N.eq_dec d (map fst (g_coins g))) as [Hk|Hk].
    - destruct (I1 d Hk) as [X Y]. rewrite X, Y, ZERO.
      apply in_map_iff in Hk as ([d' A] & E & HI). cbn in E. subst d'.
      destruct (CUM d A HI) as [HA HB]. unfold rel. rewrite (cval_in _ _ _ ND HI). lia.
    - destruct (I2 d Hk) as [X Y]. rewrite X, Y, ZERO. lia. }
  split; [apply I3; constructor|].
  split; [|discriminate]. intros _. split; [lia|]. split; [|exact B'].
  split; [lia|]. split; [exact W|]. split; [exact ND|]. split.
  - intros d A HI. destruct (CUM d A HI) as [HA HB]. split; [exact HA|].
    rewrite (B' d A HI). rewrite Z.min_l by lia.
    pose proof (cumf_range (g_start g) (g_end g) A now W Tin ltac:(lia)). lia.
  - intros d Hk. destruct (I2 d Hk) as [X _]. rewrite X. apply HN. exact Hk.
Qed.

(* ---------- a reward block over all gauges ---------- *)
(* tokens of one denomination in all gauge accounts, and together with the reward pool *)
Fixpoint esum (d : N) (E : list (N * coins)) : Z :=
  match E with [] => 0 | (_, c) :: r => cval c d + esum d r end.
Definition tot (d : N) (s : gstate) : Z := cval (gs_pool s) d + esum d (gs_escrow s).

Lemma esum_aset d E id b :
  NoDup (akeys E) ->
  esum d (aset N.eqb E id b) =
  esum d E - cval (match aget N.eqb E id with Some c => c | None => [] end) d + cval b d.
Proof.
  induction E as [|[k c] r IH]; cbn [aset aget esum]; intros ND.
  - change (cval [] d) with 0. cbn [esum]. lia.
  - inversion ND as [|? ? Hn Hr]; subst. destruct (N.eqb id k) eqn:E; cbn [esum]; [lia|].
    rewrite IH by exact Hr. lia.
Qed.

Definition Inv (tl : Z) (s : gstate) : Prop :=
  NoDup (akeys (gs_gauges s)) /\
  forall id g, aget N.eqb (gs_gauges s) id = Some g -> gauge_ok tl g (escrow_of s id).

Definition rstep (now : Z) (acc : option gstate) (ig : N * gauge) : option gstate :=
  match acc with None => None | Some s' => pull_gauge now s' ig end.

Lemma reward_block_unfold s now : reward_block s now = fold_left (rstep now) (gs_gauges s) (Some s).
Proof. reflexivity. Qed.

Lemma escrow_of_aset s G E P id b id' :
  gs_escrow s = E ->
  escrow_of {| gs_gauges := G; gs_escrow := aset N.eqb E id b; gs_pool := P |} id' =
  if N.eqb id' id then b else escrow_of s id'.
Proof.
  intros <-. unfold escrow_of. cbn [gs_escrow]. destruct (N.eqb id' id) eqn:Eq.
  - apply N.eqb_eq in Eq; subst. rewrite (aget_aset_same N.eqb Neqb_spec). reflexivity.
  - rewrite (aget_aset_other N.eqb Neqb_spec) by (intros ->; rewrite N.eqb_refl in Eq; discriminate).
    reflexivity.
Qed.

Lemma aget_in {V} (l : list (N * V)) k v : aget N.eqb l k = Some v -> In (k, v) l.
Proof.
  induction l as [|[k' v'] r IH]; cbn; [discriminate|].
  destruct (N.eqb k k') eqn:E; intros H.
  - apply N.eqb_eq in E; subst. inversion H; subst. left; reflexivity.
  - right. apply IH. exact H.
Qed.

Lemma in_aget {V} (l : list (N * V)) k v : NoDup (akeys l) -> In (k, v) l -> aget N.eqb l k = Some v.
Proof.
  induction l as [|[k' v'] r IH]; intros ND HI; [destruct HI|].
  inversion ND as [|? ? Hn Hr]; subst. cbn [aget]. destruct HI as [E|HI].
  - inversion E; subst. rewrite N.eqb_refl. reflexivity.
  - destruct (N.eqb k k') eqn:E.
    + apply N.eqb_eq in E; subst k'. exfalso. apply Hn. unfold akeys. change k with (fst (k, v)). apply in_map. exact HI.
    + apply IH; assumption.
Qed.

Lemma in_keys {V} (l : list (N * V)) k v : In (k, v) l -> In k (akeys l).
Proof. intros H. unfold akeys. change k with (fst (k, v)). apply in_map. exact H. Qed.

Lemma reward_fold tl now : tl <= now ->
  forall rest st, NoDup (akeys rest) ->
    (forall id g, In (id, g) rest -> gauge_ok tl g (escrow_of st id)) ->
    exists st', fold_left (rstep now) rest (Some st) = Some st' /\
      (forall id, ~ In id (akeys rest) ->
         escrow_of st' id = escrow_of st id /\ aget N.eqb (gs_gauges st') id = aget N.eqb (gs_gauges st) id) /\
      (forall id g, In (id, g) rest -> exists keep b mv,
         pull_one now g (escrow_of st id) = GDone keep b mv /\ escrow_of st' id = b /\
         aget N.eqb (gs_gauges st') id = if keep then aget N.eqb (gs_gauges st) id else None) /\
      (NoDup (akeys (gs_gauges st)) -> NoDup (akeys (gs_gauges st'))) /\
      (NoDup (akeys (gs_escrow st)) ->
         NoDup (akeys (gs_escrow st')) /\ forall d, tot d st' = tot d st).
Proof.
  intros Hle. induction rest as [|[id0 g0] r IH]; intros st ND HG.
  - exists st. cbn. split; [reflexivity|]. split; [intros; split; reflexivity|]. split; [intros ? ? []|auto].
  - inversion ND as [|? ? Hn Hr]; subst.
    destruct (pull_one_ok tl now g0 (escrow_of st id0) (HG id0 g0 (or_introl eq_refl)) Hle)
      as (keep & b & mv & P1 & CONS & NDM & _ & _).
    cbn [fold_left rstep pull_gauge]. rewrite P1.
    set (st1 := {| gs_gauges := if keep then gs_gauges st else adel N.eqb (gs_gauges st) id0;
                   gs_escrow := aset N.eqb (gs_escrow st) id0 b;
                   gs_pool := cadd (gs_pool st) mv |}).
    assert (E1 : forall id, escrow_of st1 id = if N.eqb id id0 then b else escrow_of st id).
    { intros id. unfold st1. apply escrow_of_aset. reflexivity. }
    assert (G1 : forall id, id <> id0 -> aget N.eqb (gs_gauges st1) id = aget N.eqb (gs_gauges st) id).
    { intros id Hne. unfold st1. cbn [gs_gauges]. destruct keep; [reflexivity|].
      apply (aget_adel_other N.eqb Neqb_spec). exact Hne. }
    assert (NE : forall id g, In (id, g) r -> id <> id0).
    { intros id g HI ->. apply Hn. exact (in_keys _ _ _ HI). }
    destruct (IH st1 Hr) as (st' & F & I1 & I2 & I3 & I4).
    { intros id g HI. rewrite E1. pose proof (NE id g HI) as Hne.
      apply N.eqb_neq in Hne. rewrite Hne. apply HG. right. exact HI. }
    exists st'. split; [exact F|]. split; [|split; [|split]].
    + intros id Hk. cbn in Hk. assert (id <> id0) by (intros ->; tauto).
      destruct (I1 id ltac:(tauto)) as [X Y]. rewrite X, Y, E1, G1 by assumption.
      apply N.eqb_neq in H. rewrite H. split; reflexivity.
    + intros id g [E|HI].
      * inversion E; subst id0 g0. exists keep, b, mv. split; [exact P1|].
        destruct (I1 id Hn) as [X Y]. rewrite X, Y, E1, N.eqb_refl. split; [reflexivity|].
        unfold st1. cbn [gs_gauges]. destruct keep; [reflexivity|].
        apply (aget_adel_same N.eqb).
      * pose proof (NE id g HI) as Hne. destruct (I2 id g HI) as (k' & b' & mv' & Q1 & Q2 & Q3).
        exists k', b', mv'. rewrite E1 in Q1. pose proof Hne as Hne'. apply N.eqb_neq in Hne'. rewrite Hne' in Q1.
        split; [exact Q1|]. split; [exact Q2|]. rewrite Q3, G1 by exact Hne. reflexivity.
    + intros NDG. apply I3. unfold st1. cbn [gs_gauges]. destruct keep; [exact NDG|].
      apply (nodup_adel N.eqb Neqb_spec). exact NDG.
    + intros NDE.
      assert (NDE1 : NoDup (akeys (gs_escrow st1))).
      { unfold st1. cbn [gs_escrow]. apply (nodup_aset N.eqb Neqb_spec). exact NDE. }
      destruct (I4 NDE1) as [N' T']. split; [exact N'|]. intros d. rewrite T'.
      unfold tot, st1. cbn [gs_pool gs_escrow]. rewrite esum_aset by exact NDE.
      rewrite cval_cadd by exact NDM. fold (escrow_of st id0).
      destruct (CONS d) as [C1 _]. lia.
Qed.

(* RunRewardBlock from any good state at any time not before the last one: it does not panic,
   every gauge still listed is inside its interval and its account holds exactly the recorded
   amount minus the closed form at this block's time; accounts of other ids are untouched;
   what happens to one gauge's account depends on that gauge and that account only *)
Lemma reward_block_ok tl s now :
  Inv tl s -> tl <= now ->
  exists s', reward_block s now = Some s' /\ Inv now s' /\
    (forall id g, aget N.eqb (gs_gauges s') id = Some g ->
       aget N.eqb (gs_gauges s) id = Some g /\ now <= g_end g /\
       forall d A, In (d, A) (g_coins g) ->
         cval (escrow_of s' id) d = A - cumf (g_start g) (g_end g) A now) /\
    (forall id, aget N.eqb (gs_gauges s) id = None ->
       escrow_of s' id = escrow_of s id /\ aget N.eqb (gs_gauges s') id = None) /\
    (forall id g, aget N.eqb (gs_gauges s) id = Some g -> exists keep b mv,
       pull_one now g (escrow_of s id) = GDone keep b mv /\ escrow_of s' id = b /\
       aget N.eqb (gs_gauges s') id = if keep then Some g else None).
Proof.
  intros [ND HG] Hle. rewrite reward_block_unfold.
  destruct (reward_fold tl now Hle (gs_gauges s) s ND) as (s' & F & I1 & I2 & I3 & _).
  { intros id g HI. apply HG. apply in_aget; assumption. }
  exists s'. split; [exact F|].
  assert (FR : forall id, aget N.eqb (gs_gauges s) id = None ->
            escrow_of s' id = escrow_of s id /\ aget N.eqb (gs_gauges s') id = None).
  { intros id Hn. destruct (I1 id) as [X Y]; [apply (aget_none_notin N.eqb Neqb_spec); exact Hn|].
    rewrite X, Y. auto. }
  assert (PER : forall id g, aget N.eqb (gs_gauges s) id = Some g -> exists keep b mv,
       pull_one now g (escrow_of s id) = GDone keep b mv /\ escrow_of s' id = b /\
       aget N.eqb (gs_gauges s') id = if keep then Some g else None).
  { intros id g Hg. destruct (I2 id g (aget_in _ _ _ Hg)) as (k & b & mv & Q1 & Q2 & Q3).
    exists k, b, mv. rewrite Hg in Q3. auto. }
  assert (KEPT : forall id g, aget N.eqb (gs_gauges s') id = Some g ->
       aget N.eqb (gs_gauges s) id = Some g /\ now <= g_end g /\ gauge_ok now g (escrow_of s' id) /\
       forall d A, In (d, A) (g_coins g) ->
         cval (escrow_of s' id) d = A - cumf (g_start g) (g_end g) A now).
  { intros id g Hg'. destruct (aget N.eqb (gs_gauges s) id) as [g0|] eqn:Hg.
    - destruct (PER id g0 Hg) as (k & b & mv & Q1 & Q2 & Q3).
      rewrite Hg' in Q3. destruct k; [|discriminate]. inversion Q3; subst g0.
      destruct (pull_one_ok tl now g (escrow_of s id) (HG id g Hg) Hle) as (k' & b' & mv' & P1 & _ & _ & P3 & _).
      rewrite Q1 in P1. inversion P1; subst k' b' mv'. destruct (P3 eq_refl) as (A1 & A2 & A3).
      rewrite Q2. auto.
    - destruct (FR id Hg) as [_ Y]. rewrite Y in Hg'. discriminate. }
  split; [split; [apply I3; exact ND | intros id g Hg'; apply (KEPT id g Hg')]|].
  split; [intros id g Hg'; destruct (KEPT id g Hg') as (A1 & A2 & _ & A4); auto|].
  split; [exact FR|exact PER].
Qed.

(* ---------- creations ---------- *)
Definition op_time (o : gop) : Z :=
  match o with OpCreate _ now _ _ => now | OpReward now => now end.

(* what a history has to respect: block time does not go backwards; a gauge is opened for an
   interval of at least a microsecond and at most 2^63-1 ns with non-negative coins of
   distinct denominations; an id is either new (its account holds nothing) or belongs to a
   gauge opened at this very block time with the same end (the id hashes height, end and
   coins); recorded amounts stay within int64 *)
Definition op_ok (tl : Z) (s : gstate) (o : gop) : Prop :=
  match o with
  | OpReward now => tl <= now
  | OpCreate id now e cs =>
    tl <= now /\ wf_interval now e /\ NoDup (map fst cs) /\
    (forall d x, In (d, x) cs -> 0 <= x) /\
    match aget N.eqb (gs_gauges s) id with
    | None => (forall d, cval (escrow_of s id) d = 0) /\ (forall d, cval cs d <= int64_max)
    | Some g => g_start g = now /\ g_end g = e /\ (forall d, cval (g_coins g) d + cval cs d <= int64_max)
    end
  end.

Lemma create_gauge_eq s id now e cs :
  create_gauge s id now e cs =
  {| gs_gauges := aset N.eqb (gs_gauges s) id
       {| g_start := now; g_end := e;
          g_coins := match aget N.eqb (gs_gauges s) id with
                     | Some old => cadd (g_coins old) cs | None => cs end |};
     gs_escrow := aset N.eqb (gs_escrow s) id (cadd (escrow_of s id) cs);
     gs_pool := csub (gs_pool s) cs |}.
Proof. reflexivity. Qed.

Lemma create_ok tl s id now e cs :
  Inv tl s -> op_ok tl s (OpCreate id now e cs) -> Inv now (create_gauge s id now e cs).
Proof.
  intros [ND HG] (Hle & W & NDc & POS & HID).
  pose proof (wf_start_lt_end _ _ W) as SE.
  rewrite create_gauge_eq.
  split; [cbn [gs_gauges]; apply (nodup_aset N.eqb Neqb_spec); exact ND|].
  intros id' g' Hg'. cbn [gs_gauges] in Hg'.
  rewrite (escrow_of_aset s _ (gs_escrow s) _ id _ id' eq_refl).
  destruct (N.eqb id' id) eqn:E.
  2:{ rewrite (aget_aset_other N.eqb Neqb_spec) in Hg' by (intros ->; rewrite N.eqb_refl in E; discriminate).
      apply (gauge_ok_mono tl now); [exact Hle|]. apply HG. exact Hg'. }
  apply N.eqb_eq in E; subst id'. rewrite (aget_aset_same N.eqb Neqb_spec) in Hg'.
  inversion Hg'; subst g'; clear Hg'.
  assert (CS0 : forall d, 0 <= cval cs d).
  { intros d. destruct (in_dec N.eq_dec d (map fst cs)) as [Hk|Hk]; [|rewrite cval_notin by exact Hk; lia].
    apply in_map_iff in Hk as ([d' x] & Ed & HI). cbn in Ed; subst d'.
    rewrite (cval_in _ _ _ NDc HI). exact (POS d x HI). }
  destruct (aget N.eqb (gs_gauges s) id) as [old|] eqn:Hold.
  - destruct HID as (S1 & S2 & BND). destruct (HG id old Hold) as (OS & OW & OND & OC & ON).
    assert (TL : tl = now) by lia. subst tl.
    split; [cbn; lia|]. split; [exact W|]. cbn [g_start g_end g_coins].
    split; [apply nodup_cadd; exact OND|]. split.
    + intros d A HI.
      pose proof (cval_in _ _ _ (nodup_cadd (g_coins old) cs OND) HI) as EA.
      rewrite cval_cadd in EA by exact NDc. rewrite cval_cadd by exact NDc.
      assert (OLD : 0 <= cval (g_coins old) d /\ cval (g_coins old) d - cval (escrow_of s id) d = 0).
      { destruct (in_dec N.eq_dec d (map fst (g_coins old))) as [Hk|Hk].
        - apply in_map_iff in Hk as ([d' A0] & Ed & HI0). cbn in Ed; subst d'.
          destruct (OC d A0 HI0) as [HA HB]. rewrite (cval_in _ _ _ OND HI0).
          assert (HM : Z.min now (g_end old) = g_start old) by lia. rewrite HM in HB.
          rewrite cumf_at_start in HB by exact OW. lia.
        - rewrite (cval_notin _ _ Hk), (ON d Hk). lia. }
      specialize (BND d). specialize (CS0 d). split; [lia|].
      rewrite Z.min_l by lia. rewrite cumf_at_start by exact W. lia.
    + intros d Hk. rewrite cval_cadd by exact NDc.
      assert (~ In d (map fst (g_coins old)) /\ ~ In d (map fst cs)) as [K1 K2].
      { split; intros C; apply Hk; apply keys_cadd; tauto. }
      rewrite (ON d K1), (cval_notin _ _ K2). lia.
  - destruct HID as [EZ BND].
    split; [cbn; lia|]. split; [exact W|]. cbn [g_start g_end g_coins].
    split; [exact NDc|]. split.
    + intros d A HI. pose proof (cval_in _ _ _ NDc HI) as EA.
      rewrite cval_cadd by exact NDc. rewrite (EZ d), EA.
      specialize (BND d). rewrite EA in BND. pose proof (POS d A HI). split; [lia|].
      rewrite Z.min_l by lia. rewrite cumf_at_start by exact W. lia.
    + intros d Hk. rewrite cval_cadd by exact NDc. rewrite (EZ d), (cval_notin _ _ Hk). lia.
Qed.

(* ---------- histories ---------- *)
Fixpoint hist_ok (tl : Z) (s : gstate) (ops : list gop) : Prop :=
  match ops with
  | [] => True
  | o :: r => op_ok tl s o /\
              match gstep s o with Some s' => hist_ok (op_time o) s' r | None => True end
  end.

Fixpoint end_time (tl : Z) (ops : list gop) : Z :=
  match ops with [] => tl | o :: r => end_time (op_time o) r end.

Lemma step_ok tl s o : Inv tl s -> op_ok tl s o -> exists s', gstep s o = Some s' /\ Inv (op_time o) s'.
Proof.
  intros HI HO. destruct o as [id now e cs|now].
  - exists (create_gauge s id now e cs). split; [reflexivity|]. apply (create_ok tl); assumption.
  - destruct (reward_block_ok tl s now HI HO) as (s' & R & I' & _). exists s'. auto.
Qed.

Lemma run_ok ops : forall tl s, Inv tl s -> hist_ok tl s ops ->
  exists s', grun s ops = Some s' /\ Inv (end_time tl ops) s'.
Proof.
  induction ops as [|o r IH]; intros tl s HI HH.
  - exists s. auto.
  - destruct HH as [HO HR]. destruct (step_ok tl s o HI HO) as (s1 & S1 & I1).
    cbn [grun end_time]. rewrite S1 in *. apply IH; assumption.
Qed.

Lemma inv_empty tl : Inv tl gempty.
Proof. split; [constructor|]. intros id g H. discriminate. Qed.

(* consequences of the invariant for every listed gauge: the account never holds more than
   was recorded nor less than zero; what left it is at most the pro-rata amount *)
Lemma inv_balance_range tl s id g d A :
  Inv tl s -> aget N.eqb (gs_gauges s) id = Some g -> In (d, A) (g_coins g) ->
  0 <= cval (escrow_of s id) d <= A /\
  A - cval (escrow_of s id) d <= cumf (g_start g) (g_end g) A (Z.min tl (g_end g)).
Proof.
  intros [_ HG] Hg HI. destruct (HG id g Hg) as (S & W & ND & HC & _).
  destruct (HC d A HI) as [HA HB]. pose proof (wf_start_lt_end _ _ W).
  pose proof (cumf_range (g_start g) (g_end g) A (Z.min tl (g_end g)) W ltac:(lia) ltac:(lia)). lia.
Qed.

(* ---------- statements in terms of the model's own formula cum_at ---------- *)
Lemma last_in_interval start end_ ts :
  nondecr start ts -> last ts start <= end_ -> start <= last ts start <= end_.
Proof. intros ND LE. pose proof (nondecr_last start ts ND). lia. Qed.

Lemma closed_form_fresh start end_ A ts :
  wf_interval start end_ -> 0 <= A <= int64_max ->
  nondecr start ts -> last ts start <= end_ -> ts <> [] ->
  run_coin start end_ A ts A = Some (A - cum_at start end_ A (last ts start)).
Proof.
  intros W HA ND LE NE. rewrite cum_at_closed; try assumption; try lia.
  - apply run_coin_fresh; assumption.
  - apply last_in_interval; assumption.
Qed.

Lemma closed_form_from_any_point start end_ A ts t0 c :
  wf_interval start end_ -> 0 <= A <= int64_max ->
  nondecr t0 ts -> start <= t0 -> last ts t0 <= end_ -> ts <> [] ->
  0 <= c <= cum_at start end_ A t0 ->
  run_coin start end_ A ts (A - c) = Some (A - cum_at start end_ A (last ts t0)).
Proof.
  intros W HA ND S0 LE NE Hc. pose proof (nondecr_last t0 ts ND).
  rewrite cum_at_closed in Hc by (try assumption; lia).
  rewrite cum_at_closed by (try assumption; lia).
  rewrite (run_coin_closed start end_ A W HA ts t0 c ND S0 LE Hc).
  destruct ts; [contradiction|reflexivity].
Qed.

Lemma cum_at_bounds start end_ A t :
  wf_interval start end_ -> start <= t <= end_ -> 0 <= A ->
  let D := usec (end_ - start) in
  let e := D - usec (end_ - t) in
  let cum := cum_at start end_ A t in
  D * P18 * cum <= A * e * P18 + A * D /\
  A * e * P18 - A * D - D * P18 < D * P18 * cum.
Proof. intros W T HA. cbv zeta. rewrite cum_at_closed by assumption. apply cumf_bounds; assumption. Qed.

Lemma cum_at_within_one start end_ A t :
  wf_interval start end_ -> start <= t <= end_ -> 0 <= A <= P18 ->
  let D := usec (end_ - start) in
  let e := D - usec (end_ - t) in
  (A * e) / D - 1 <= cum_at start end_ A t <= (A * e) / D + 1.
Proof. intros W T HA. cbv zeta. rewrite cum_at_closed by (try assumption; lia). apply cumf_within_one; assumption. Qed.

Lemma cum_at_mono start end_ A t t' :
  wf_interval start end_ -> start <= t -> t <= t' -> t' <= end_ -> 0 <= A ->
  cum_at start end_ A t <= cum_at start end_ A t'.
Proof. intros. rewrite !cum_at_closed by (try assumption; lia). apply cumf_mono; assumption. Qed.

Lemma cum_at_range start end_ A t :
  wf_interval start end_ -> start <= t <= end_ -> 0 <= A ->
  0 <= cum_at start end_ A t <= A /\ cum_at start end_ A start = 0 /\ cum_at start end_ A end_ = A.
Proof.
  intros W T HA. pose proof (wf_start_lt_end _ _ W).
  rewrite !cum_at_closed by (try assumption; lia).
  rewrite cumf_at_start, cumf_at_end by assumption.
  split; [apply cumf_range; assumption|auto].
Qed.

(* balances only go down along a run, by a non-negative amount each block, and a run never panics *)
Lemma run_coin_step_nonneg start end_ A t c :
  wf_interval start end_ -> 0 <= A <= int64_max -> start <= t <= end_ ->
  0 <= c <= cum_at start end_ A t ->
  exists m, gauge_ratio start end_ t = Some (rat (usec (end_ - t)) (usec (end_ - start))) /\
    pull_coin (rat (usec (end_ - t)) (usec (end_ - start))) (A - c) A = CMove m m /\
    0 <= m <= A - c /\ m = cum_at start end_ A t - c.
Proof.
  intros W HA T Hc. rewrite cum_at_closed in * by (try assumption; lia).
  pose proof (usec_total_pos _ _ W). pose proof (usec_left_range _ _ _ T).
  pose proof (rat_range (usec (end_ - t)) (usec (end_ - start)) ltac:(lia) ltac:(lia)) as RR.
  pose proof (cumf_range start end_ A t W T ltac:(lia)) as CR.
  exists (cumf start end_ A t - c). split; [apply gauge_ratio_closed; assumption|].
  unfold cumf in *. rewrite pull_coin_closed by lia. split; [reflexivity|lia].
Qed.

(* ---------- more about one reward block ---------- *)
Lemma pull_one_past_end now g bal : g_end g < now -> pull_one now g bal = GDone false bal [].
Proof. intros H. unfold pull_one. destruct (Z.ltb_spec (g_end g) now); [reflexivity|lia]. Qed.

Lemma reward_block_past_end tl s now id g :
  Inv tl s -> tl <= now -> aget N.eqb (gs_gauges s) id = Some g -> g_end g < now ->
  exists s', reward_block s now = Some s' /\
    escrow_of s' id = escrow_of s id /\ aget N.eqb (gs_gauges s') id = None.
Proof.
  intros HI Hle Hg PE. destruct (reward_block_ok tl s now HI Hle) as (s' & R & _ & _ & _ & PER).
  exists s'. split; [exact R|]. destruct (PER id g Hg) as (k & b & mv & Q1 & Q2 & Q3).
  rewrite pull_one_past_end in Q1 by exact PE. inversion Q1; subst. auto.
Qed.

Lemma reward_block_never_credits tl s now :
  Inv tl s -> tl <= now ->
  exists s', reward_block s now = Some s' /\
    forall id d, 0 <= cval (escrow_of s' id) d <= cval (escrow_of s id) d \/
                 (aget N.eqb (gs_gauges s) id = None /\ escrow_of s' id = escrow_of s id).
Proof.
  intros HI Hle. destruct (reward_block_ok tl s now HI Hle) as (s' & R & _ & _ & FR & PER).
  exists s'. split; [exact R|]. intros id d.
  destruct (aget N.eqb (gs_gauges s) id) as [g|] eqn:Hg.
  - left. destruct (PER id g Hg) as (k & b & mv & Q1 & Q2 & Q3).
    destruct HI as [_ HG].
    destruct (pull_one_ok tl now g (escrow_of s id) (HG id g Hg) Hle) as (k' & b' & mv' & P1 & CONS & _ & P3 & P4).
    rewrite Q1 in P1. inversion P1; subst k' b' mv'. rewrite Q2. destruct (CONS d) as [C1 C2].
    split; [|lia].
    destruct k.
    + destruct (P3 eq_refl) as (_ & GOK & _). destruct GOK as (S0 & W & ND & HC & HN).
      destruct (in_dec N.eq_dec d (map fst (g_coins g))) as [Hk|Hk].
      * apply in_map_iff in Hk as ([d' A] & E & HIn). cbn in E; subst d'.
        destruct (HC d A HIn) as [HA HB]. pose proof (wf_start_lt_end _ _ W).
        pose proof (cumf_range (g_start g) (g_end g) A (Z.min now (g_end g)) W ltac:(lia) ltac:(lia)). lia.
      * rewrite (HN d Hk). lia.
    + destruct (P4 eq_refl) as (-> & _ & _).
      destruct (HG id g Hg) as (S0 & W & ND & HC & HN).
      destruct (in_dec N.eq_dec d (map fst (g_coins g))) as [Hk|Hk].
      * apply in_map_iff in Hk as ([d' A] & E & HIn). cbn in E; subst d'.
        destruct (HC d A HIn) as [HA HB]. pose proof (wf_start_lt_end _ _ W).
        pose proof (cumf_range (g_start g) (g_end g) A (Z.min tl (g_end g)) W ltac:(lia) ltac:(lia)). lia.
      * rewrite (HN d Hk). lia.
  - right. destruct (FR id Hg) as [X _]. auto.
Qed.

(* histories from the empty state *)
Lemma history_never_panics t0 ops :
  hist_ok t0 gempty ops -> exists s, grun gempty ops = Some s /\ Inv (end_time t0 ops) s.
Proof. intros H. apply (run_ok ops t0 gempty (inv_empty t0) H). Qed.

Lemma reward_block_frame tl s now id :
  Inv tl s -> tl <= now -> aget N.eqb (gs_gauges s) id = None ->
  exists s', reward_block s now = Some s' /\ escrow_of s' id = escrow_of s id /\
             aget N.eqb (gs_gauges s') id = None.
Proof.
  intros HI Hle Hn.
  destruct (reward_block_ok tl s now HI Hle) as (s' & R & _ & _ & FR & _).
  exists s'. destruct (FR id Hn). auto.
Qed.

(* what leaves the gauge accounts in a reward block arrives in the storage module account:
   per denomination, pool + all gauge accounts is unchanged *)
Lemma reward_block_conserves tl s now :
  Inv tl s -> tl <= now -> NoDup (akeys (gs_escrow s)) ->
  exists s', reward_block s now = Some s' /\ NoDup (akeys (gs_escrow s')) /\
             forall d, tot d s' = tot d s.
Proof.
  intros [ND HG] Hle NDE. rewrite reward_block_unfold.
  destruct (reward_fold tl now Hle (gs_gauges s) s ND) as (s' & F & _ & _ & _ & I4).
  { intros id g HI. apply HG. apply in_aget; assumption. }
  exists s'. destruct (I4 NDE). auto.
Qed.

Lemma step_nodup_escrow tl s o s' :
  Inv tl s -> op_ok tl s o -> NoDup (akeys (gs_escrow s)) -> gstep s o = Some s' ->
  NoDup (akeys (gs_escrow s')).
Proof.
  intros HI HO NDE HS. destruct o as [id now e cs|now]; cbn [gstep] in HS.
  - inversion HS; subst s'. rewrite create_gauge_eq. cbn [gs_escrow].
    apply (nodup_aset N.eqb Neqb_spec). exact NDE.
  - destruct (reward_block_conserves tl s now HI HO NDE) as (s'' & R & N' & _).
    rewrite R in HS. inversion HS; subst. exact N'.
Qed.

(* along every admissible history the gauge accounts stay distinct entries, every reward block
   conserves pool + accounts per denomination, and no reward block panics *)
Lemma run_conserving ops : forall tl s,
  Inv tl s -> NoDup (akeys (gs_escrow s)) -> hist_ok tl s ops ->
  exists s', grun s ops = Some s' /\ Inv (end_time tl ops) s' /\ NoDup (akeys (gs_escrow s')).
Proof.
  induction ops as [|o r IH]; intros tl s HI NDE HH.
  - exists s. auto.
  - destruct HH as [HO HR]. destruct (step_ok tl s o HI HO) as (s1 & S1 & I1).
    pose proof (step_nodup_escrow tl s o s1 HI HO NDE S1) as N1.
    cbn [grun end_time]. rewrite S1 in *. apply IH; assumption.
Qed.
