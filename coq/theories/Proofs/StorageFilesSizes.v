(* Every stored file has a positive FileSize, in every state a history reaches: PostFile refuses
   size <= 0 (ValidateBasic, c877e2c0) and no other writer changes a file's size (they save the
   file with another prover list).  Used by Proofs/RewardBridge.v to discharge the positivity
   hypothesis of the "credited = counted" statement on reachable states. *)
From Coq Require Import ZArith NArith List Bool Lia.
From JK Require Import Base.AList Model.StorageFiles Proofs.StorageFilesProofs.
Import ListNotations.
Open Scope Z_scope.

Definition SizesPos (s : sstate) : Prop := forall k f, get_file s k = Some f -> 0 < f_size f.

Lemma sp_same s s' : (forall k, get_file s' k = get_file s k) -> SizesPos s -> SizesPos s'.
Proof. intros E P k f G. rewrite E in G. apply (P k f G). Qed.

Lemma sp_set_file s f : SizesPos s -> 0 < f_size f -> SizesPos (set_file s f).
Proof.
  intros P Pf k g G. rewrite get_set_file in G. destruct (k3_eqb k (fk1 f)); [injection G as <-; exact Pf | apply (P k g G)].
Qed.

Lemma sp_remove_file s m o st : SizesPos s -> SizesPos (remove_file s m o st).
Proof. intros P k f G. rewrite get_file_remove in G. destruct (k3_eqb k (m, o, st)); [discriminate | apply (P k f G)]. Qed.

Lemma sp_rpk s f key s' f' :
  NoDup (f_proofs f) -> remove_prover_with_key s f key = Some (s', f') -> SizesPos s -> 0 < f_size f -> SizesPos s'.
Proof.
  intros ND R P Pf. destruct (rpk_spec s f key ND) as [(_ & E) | (pre & post & _ & _ & E)]; rewrite E in R; injection R as <- <-.
  - exact P.
  - apply sp_set_file; [|exact Pf]. apply (sp_same s); [reflexivity | exact P].
Qed.

Lemma sp_burn s p : SizesPos s -> SizesPos (burn_contract s p).
Proof. intros P. unfold burn_contract. destruct (aget N.eqb (burns s) p); [apply (sp_same s); [reflexivity | exact P] | exact P]. Qed.

Lemma sp_manage_proof h w key w' :
  WInv w -> In key (f_proofs (w_file w)) -> manage_proof h w key = Some w' -> SizesPos (w_state w) -> SizesPos (w_state w').
Proof.
  intros (I & G) Ik M P. destruct (inv_file _ I _ _ G) as (ND & _ & H). destruct (H key Ik) as (_ & r & B & _).
  pose proof (P _ _ G) as Pf.
  unfold manage_proof in M. rewrite B, andb_false_r in M.
  destruct (f_interval (w_file w) =? 0); [discriminate|].
  destruct (negb (proven_last_block (w_file w) h (p_last r)) && negb (is_young (w_file w) h)).
  - destruct (remove_prover_with_key (w_state w) (w_file w) key) as [[s' f']|] eqn:R; [|discriminate].
    injection M as <-. cbn [w_state]. apply sp_burn. eapply sp_rpk; eassumption.
  - injection M as <-. exact P.
Qed.

Lemma sp_manage_proofs h : forall keys w w',
  WInv w -> NoDup keys -> incl keys (f_proofs (w_file w)) -> manage_proofs h w keys = Some w' ->
  SizesPos (w_state w) -> SizesPos (w_state w').
Proof.
  induction keys as [|k r IH]; intros w w' WI ND Inc M P; cbn [manage_proofs] in M.
  - injection M as <-. exact P.
  - destruct (manage_proof h w k) as [w1|] eqn:M1; [|discriminate].
    assert (Ik : In k (f_proofs (w_file w))) by (apply Inc; left; reflexivity).
    pose proof (manage_proof_step h w k w1 WI Ik M1) as St.
    inversion ND as [|? ? Hn Hr]; subst.
    apply (IH w1 w' (ws_inv _ _ _ _ St) Hr); [|exact M | eapply sp_manage_proof; eassumption].
    intros x Ix. apply (ws_keep _ _ _ _ St); [apply Inc; right; exact Ix | intros ->; contradiction].
Qed.

Lemma sp_manage_file h s cr f s' cr' :
  Inv s -> get_file s (fk1 f) = Some f -> manage_file h (s, cr) f = Some (s', cr') -> SizesPos s -> SizesPos s'.
Proof.
  intros I G M P. unfold manage_file in M. destruct (f_proofs f) as [|k0 r0] eqn:EP.
  - cbn in M. injection M as <- _. destruct (negb (is_young f h)); [apply sp_remove_file|]; exact P.
  - rewrite <- EP in M.
    destruct (manage_proofs h {| w_state := s; w_file := f; w_credits := cr |} (f_proofs f)) as [w|] eqn:MP; [|discriminate].
    injection M as <- _. destruct (inv_file s I _ _ G) as (ND & _).
    assert (WI : WInv {| w_state := s; w_file := f; w_credits := cr |}) by (split; assumption).
    apply (sp_manage_proofs h _ _ _ WI ND (incl_refl _) MP). exact P.
Qed.

Lemma sp_manage_files h : forall fs s cr s' cr',
  Inv s -> NoDup (map fk1 fs) -> (forall f, In f fs -> get_file s (fk1 f) = Some f) ->
  manage_files h (s, cr) fs = Some (s', cr') -> SizesPos s -> SizesPos s'.
Proof.
  induction fs as [|f r IH]; intros s cr s' cr' I ND Hg M P; cbn [manage_files] in M.
  - injection M as <- _. exact P.
  - destruct (manage_file h (s, cr) f) as [[s1 cr1]|] eqn:M1; [|discriminate].
    pose proof (Hg f (or_introl eq_refl)) as G.
    pose proof (manage_file_done h s cr f s1 cr1 I G M1) as D.
    cbn [map] in ND. inversion ND as [|? ? Hn Hr]; subst.
    apply (IH s1 cr1 s' cr' (fd_inv _ _ _ _ _ D) Hr); [|exact M | eapply sp_manage_file; eassumption].
    intros g Ig. rewrite (fd_frame _ _ _ _ _ D); [apply Hg; right; exact Ig|].
    intros E. apply Hn. rewrite <- E. apply in_map. exact Ig.
Qed.

Lemma sp_reward_block s h cw s' cr : Inv s -> reward_block s h cw = Some (s', cr) -> SizesPos s -> SizesPos s'.
Proof.
  intros I R P. unfold reward_block in R. destruct (cw =? 0); [discriminate|].
  destruct (Z.rem h cw >? 0); [injection R as <- _; exact P|].
  destruct (snapshot_ok s I) as (ND & Hg). eapply sp_manage_files; eassumption.
Qed.

Ltac sp_triv P := first [exact P | apply (sp_same _ _ (fun _ => eq_refl)); exact P].

Theorem sp_step s o : Inv s -> SizesPos s -> SizesPos (step s o).
Proof.
  intros I P. unfold step. destruct o; cbn [msg_step].
  - unfold post_file. destruct ((size <=? 0) || (maxp <=? 0)) eqn:E1; [exact P|].
    destruct (size >? Z.quot max_int64 maxp); [exact P|]. destruct paid; [|exact P]. cbn [negb r_state ok_].
    apply sp_set_file; [apply sp_remove_file; exact P|]. cbn [f_size]. apply orb_false_iff in E1 as [E1 _]. lia.
  - apply sp_remove_file. exact P.
  - unfold post_proof. destruct (get_file s (merkle, owner, start)) as [f|] eqn:G; [|exact P].
    destruct (if len f =? f_max f then _ else _) as [[p isnew]|]; [|exact P].
    destruct (negb (to_prove =? p_chunk p)); [exact P|]. destruct (f_interval f =? 0); [exact P|].
    destruct (negb verified); [exact P|]. destruct (chunk_size =? 0); [exact P|].
    cbn [r_state ok_]. eapply sp_same; [intros k; reflexivity|].
    eapply sp_same; [intros k; reflexivity|].
    destruct isnew; [|exact P]. unfold add_prover. destruct (len f >=? f_max f); [exact P|].
    apply sp_set_file; [eapply sp_same; [intros k; reflexivity | exact P]|]. cbn [f_size with_plist]. apply (P _ _ G).
  - destruct (attest_effects s creator prover merkle owner start height min_pass I) as (Ef & _).
    apply (sp_same s _ Ef P).
  - unfold report. destruct (aget k4_eqb (reports s) _) as [fm|]; [|exact P].
    destruct (negb (is_listed creator (fm_atts fm))); [exact P|].
    destruct (count_complete _ <? min_pass); [sp_triv P|].
    destruct (get_file s (merkle, owner, start)) as [f|] eqn:G; [|exact P].
    set (s1 := with_reports s _).
    destruct (remove_prover_with_key s1 f (mk_pkey f prover)) as [[s2 f2]|] eqn:R; [|exact P].
    cbn [r_state ok_]. destruct (inv_file s I _ _ G) as (ND & _).
    apply (sp_rpk s1 f _ s2 f2 ND R); [apply (sp_same s); [reflexivity | exact P] | apply (P _ _ G)].
  - unfold req_attest. destruct (get_file s _) as [f|]; [|exact P].
    destruct (get_prover s f creator); [|exact P]. destruct (aget k4_eqb (attests s) _); [exact P|].
    destruct chosen; sp_triv P.
  - unfold req_report. destruct (get_file s _) as [f|]; [|exact P].
    destruct (aget k4_eqb (reports s) _); [exact P|]. destruct (get_prover s f prover); [|exact P].
    destruct chosen; sp_triv P.
  - unfold init_provider. destruct (aget N.eqb (burns s) creator); [exact P|]. destruct paid; sp_triv P.
  - unfold shutdown_provider. destruct (aget N.eqb (burns s) creator); [|exact P]. destruct paid; sp_triv P.
  - destruct (reward_block s height cw) as [[s' cr]|] eqn:R; [|exact P].
    cbn [r_state ok_]. eapply sp_reward_block; eassumption.
Qed.

Theorem sp_history ops : SizesPos (run init ops).
Proof.
  assert (H : forall ops s, Inv s -> SizesPos s -> SizesPos (run s ops)).
  { induction ops0 as [|o r IH]; intros s I P; cbn; [exact P|]. apply IH; [apply inv_step; exact I | apply sp_step; assumption]. }
  apply H; [apply inv_init | intros k f G; discriminate].
Qed.
