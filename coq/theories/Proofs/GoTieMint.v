(* Ties by proof between the functions generated from x/jklmint's current source (Gen/GoMint.v:
   GetMintForBlock, mintStaker, mintStorageProviderStipend, BlockMint) and the models of C13 (Model/Mint.v)
   and C05 (Model/BeginBlock.v: which blocks panic). *)
From Coq Require Import ZArith NArith List Bool String Lia.
From JK Require Import Base.Dec Base.AList Base.GoSem Gen.GoMint Model.Mint.
From JK Require Model.BeginBlock.
Import ListNotations.
Open Scope Z_scope.

Lemma dec_eq0 n : (dec n =? 0) = (n =? 0).
Proof.
  unfold dec. pose proof P18_pos.
  destruct (Z.eqb_spec n 0) as [->|N]; [reflexivity|].
  destruct (Z.eqb_spec (n * P18) 0); [nia|reflexivity].
Qed.

(* ---------------- GetMintForBlock ---------------- *)

(* exactly what the Go function computes, panics included *)
Lemma gen_GetMintForBlock_spec prev blocks decrease :
  gen_GetMintForBlock prev blocks decrease
  = if blocks =? 0 then GPanic
    else match dtrunc64 (dec prev - dquo (dec decrease) (dec blocks)) with
         | None => GPanic
         | Some raw => GVal (if raw <? 0 then 0 else raw)
         end.
Proof.
  unfold gen_GetMintForBlock, gen_int64ToDec, gdec_quo, gdec_trunc64. cbn [gbind].
  rewrite dec_eq0. destruct (blocks =? 0); [reflexivity|]. cbn [gbind].
  destruct (dtrunc64 _) as [raw|]; [|reflexivity]. cbn [gbind]. destruct (raw <? 0); reflexivity.
Qed.

(* when the raw emission fits int64 (always, for int64 parameters of the sizes the chain uses: see
   Proofs/BeginBlockProofs.v) the function is the model's [mint_for_block] *)
Lemma gen_GetMintForBlock_model prev blocks decrease :
  blocks <> 0 -> in_int64 (mint_for_block_raw prev blocks decrease) = true ->
  gen_GetMintForBlock prev blocks decrease = GVal (mint_for_block prev blocks decrease).
Proof.
  intros Hb Hr. rewrite gen_GetMintForBlock_spec.
  destruct (Z.eqb_spec blocks 0); [contradiction|].
  unfold mint_for_block, mint_for_block_raw, dtrunc64 in *. rewrite Hr. reflexivity.
Qed.

(* ---------------- the split functions ---------------- *)

Lemma gen_mintStaker_spec e ratio ok :
  gen_mintStaker e ratio ok
  = match BeginBlock.share64 ratio e with
    | None => GPanic
    | Some x => if x <? 0 then GPanic else GVal ([Ev "to-stakers" [x]], ok)
    end.
Proof.
  unfold gen_mintStaker, BeginBlock.share64, gdec_quo_int64, gdec_trunc64, gcoin64. cbn [Z.eqb gbind].
  destruct (dtrunc64 _) as [x|]; [|reflexivity]. cbn [gbind].
  destruct (x <? 0); [reflexivity|]. cbn [gbind app]. destruct ok; reflexivity.
Qed.

Lemma gen_mintStipend_spec e ratio ok :
  gen_mintStipend e ratio ok
  = match BeginBlock.share64 ratio e with
    | None => GPanic
    | Some x => GVal ([Ev "to-stipend" [x]], ok)
    end.
Proof.
  unfold gen_mintStipend, BeginBlock.share64, gdec_quo_int64, gdec_trunc64. cbn [Z.eqb gbind].
  destruct (dtrunc64 _) as [x|]; [|reflexivity]. cbn [gbind app]. destruct ok; reflexivity.
Qed.

(* the amount a split function hands to the bank is the model's [share] *)
Lemma share64_share ratio e x : BeginBlock.share64 ratio e = Some x -> x = share ratio e.
Proof.
  unfold BeginBlock.share64, share, dtrunc64. destruct (in_int64 _); [|discriminate]. now intros [= <-].
Qed.

(* ---------------- BlockMint ---------------- *)

(* the effects of one BlockMint in program order, cut after the first step that reports an error *)
Definition blockmint_events (e : Z) (ok_mint ok_staker ok_dev ok_stipend : bool) : list gev :=
  Ev "mint" [e] ::
  if ok_mint then Ev "staker-share-of" [e] ::
    if ok_staker then Ev "dev-share-of" [e] ::
      if ok_dev then Ev "stipend-share-of" [e] ::
        if ok_stipend then [Ev "record-emission" [e]] else []
      else []
    else []
  else [].

Lemma gen_BlockMint_spec tpb decrease found last ok_mint ok_staker ok_dev ok_stipend :
  gen_BlockMint tpb decrease found last ok_mint ok_staker ok_dev ok_stipend
  = glet e := gen_GetMintForBlock (if found then last else tpb) 5256000 decrease in
    if e <? 0 then GPanic else GVal (blockmint_events e ok_mint ok_staker ok_dev ok_stipend).
Proof.
  unfold gen_BlockMint, blockmint_events, gcoin64.
  destruct found; cbn [gbind]; (destruct (gen_GetMintForBlock _ 5256000 decrease) as [e|]; [|reflexivity]); cbn [gbind];
    (destruct (e <? 0); [reflexivity|]); cbn [gbind app];
    destruct ok_mint, ok_staker, ok_dev, ok_stipend; reflexivity.
Qed.

(* the emission the code mints, hands to the three split functions and records is the model's *)
Definition prev_of (p : mparams) (s : mstate) : Z := match m_last s with Some m => m | None => tokens_per_block p end.

Lemma mint_for_block_nonneg prev blocks decrease : 0 <= mint_for_block prev blocks decrease.
Proof. unfold mint_for_block. destruct (Z.ltb_spec (mint_for_block_raw prev blocks decrease) 0); lia. Qed.

Theorem gen_BlockMint_model acc p s ok_mint ok_staker ok_dev ok_stipend :
  in_int64 (mint_for_block_raw (prev_of p s) bpy (mint_decrease p)) = true ->
  gen_BlockMint (tokens_per_block p) (mint_decrease p)
    (match m_last s with Some _ => true | None => false end) (match m_last s with Some m => m | None => 0 end)
    ok_mint ok_staker ok_dev ok_stipend
  = GVal (blockmint_events (r_emission (block_mint acc p s)) ok_mint ok_staker ok_dev ok_stipend).
Proof.
  intros Hr. rewrite gen_BlockMint_spec.
  assert (E : (if match m_last s with Some _ => true | None => false end
               then match m_last s with Some m => m | None => 0 end else tokens_per_block p) = prev_of p s)
    by (unfold prev_of; destruct (m_last s); reflexivity).
  rewrite E. change 5256000 with bpy.
  rewrite gen_GetMintForBlock_model by (unfold bpy; lia || assumption). cbn [gbind].
  assert (Em : r_emission (block_mint acc p s) = mint_for_block (prev_of p s) bpy (mint_decrease p)).
  { unfold block_mint. fold (prev_of p s). cbv zeta.
    repeat match goal with |- context [match ?x with _ => _ end] => destruct x end; reflexivity. }
  rewrite Em.
  pose proof (mint_for_block_nonneg (prev_of p s) bpy (mint_decrease p)).
  destruct (Z.ltb_spec (mint_for_block (prev_of p s) bpy (mint_decrease p)) 0); [lia|]. reflexivity.
Qed.

(* and the block is recorded (the model's [r_recorded]) exactly when every step of the model's bank succeeds,
   i.e. when the oracle answers the events above were given are the ones the model's bank produces *)
Theorem block_mint_recorded_iff acc p s :
  let e := r_emission (block_mint acc p s) in
  let b0 := credit (m_bank s) (a_mod acc) e in
  r_recorded (block_mint acc p s) = true <->
  exists b1 b2 b3,
    pay acc b0 (a_fee acc) (share (staker_ratio p) e) = Some b1 /\
    pay acc b1 (a_dev acc) (share (dev_ratio p) e) = Some b2 /\
    stipend_ok p = true /\
    pay acc b2 (a_stip acc) (share (prov_ratio p) e) = Some b3.
Proof.
  cbv zeta.
  assert (Em : r_emission (block_mint acc p s) = mint_for_block (prev_of p s) bpy (mint_decrease p)).
  { unfold block_mint. fold (prev_of p s). cbv zeta.
    repeat match goal with |- context [match ?x with _ => _ end] => destruct x end; reflexivity. }
  rewrite Em. unfold block_mint. fold (prev_of p s). cbv zeta.
  set (e := mint_for_block (prev_of p s) bpy (mint_decrease p)).
  set (b0 := credit (m_bank s) (a_mod acc) e).
  destruct (pay acc b0 (a_fee acc) (share (staker_ratio p) e)) as [b1|] eqn:E1; cbn.
  2:{ split; [discriminate | intros (? & ? & ? & H & _); discriminate]. }
  destruct (pay acc b1 (a_dev acc) (share (dev_ratio p) e)) as [b2|] eqn:E2; cbn.
  2:{ split; [discriminate | intros (x1 & ? & ? & H1 & H2 & _)]. injection H1 as <-. rewrite E2 in H2. discriminate. }
  destruct (stipend_ok p) eqn:E3; cbn.
  2:{ split; [discriminate | intros (x1 & x2 & ? & _ & _ & H & _); discriminate]. }
  destruct (pay acc b2 (a_stip acc) (share (prov_ratio p) e)) as [b3|] eqn:E4; cbn.
  - split; [intros _; exists b1, b2, b3; repeat split; assumption | reflexivity].
  - split; [discriminate | intros (x1 & x2 & x3 & H1 & H2 & _ & H4)].
    injection H1 as <-. rewrite E2 in H2. injection H2 as <-. rewrite E4 in H4. discriminate.
Qed.
