(* Tie by proof between storage's BuyStorage handler (with validateBuy and UpgradeStorage) as generated from the
   current source (Gen/GoPrice.v) and a closed form written with the vocabulary of Model/StoragePay.v (C04). *)
From Coq Require Import ZArith NArith List Bool String Lia.
From JK Require Import Base.Dec Base.AList Base.GoSem Gen.GoPrice Proofs.GoTiePrice.
From JK Require Model.StoragePay.
Import ListNotations.
Open Scope Z_scope.
Module SP := Model.StoragePay.

Lemma wrap64_range x : int64_min <= wrap64 x <= int64_max.
Proof.
  unfold wrap64, int64_min, int64_max.
  pose proof (Z.mod_pos_bound (x + 2 ^ 63) (2 ^ 64) ltac:(lia)). lia.
Qed.

(* wrap64 is a residue mod 2^64: wrapping an operand of a product first changes nothing *)
Lemma wrap64_mul_l a b : wrap64 (wrap64 a * b) = wrap64 (a * b).
Proof.
  unfold wrap64. f_equal.
  rewrite <- (Z.add_mod_idemp_l (((a + 2 ^ 63) mod 2 ^ 64 - 2 ^ 63) * b)) by lia.
  rewrite <- (Z.add_mod_idemp_l (a * b)) by lia. f_equal. f_equal.
  rewrite <- Z.mul_mod_idemp_l by lia.
  rewrite <- (Z.mul_mod_idemp_l a) by lia. f_equal. f_equal.
  rewrite Zminus_mod_idemp_l.
  replace (a + 2 ^ 63 - 2 ^ 63) with a by lia. reflexivity.
Qed.

Lemma quot_small k w : w <> 0 -> Z.abs (Z.quot k w) <= Z.abs k.
Proof.
  intros Hw. rewrite <- Z.quot_abs by assumption.
  apply Z.quot_le_upper_bound; [lia|]. nia.
Qed.

Lemma quot_in_range a c : c <> 0 -> c <> -1 -> int64_min <= a <= int64_max -> int64_min <= Z.quot a c <= int64_max.
Proof.
  intros Hc Hc1 Ha. pose proof (quot_small a c Hc). unfold int64_min, int64_max in *.
  destruct (Z.eq_dec a (- 2 ^ 63)) as [->|]; [|lia].
  destruct (Z.eq_dec c 1) as [->|]; [rewrite Z.quot_1_r; lia|].
  assert (Z.abs c >= 2) by lia.
  assert (Z.abs (Z.quot (- 2 ^ 63) c) <= 2 ^ 62).
  { rewrite <- Z.quot_abs by assumption. apply Z.quot_le_upper_bound; [lia|].
    change (Z.abs (- 2 ^ 63)) with (2 ^ 63). nia. }
  lia.
Qed.

(* ---------------- validateBuy ---------------- *)
Definition buy_duration (days : Z) : Z := wrap64 (days * SP.DAY_NS).

Lemma gen_validateBuy_spec days bytes not_ujkl :
  int64_min <= bytes <= int64_max ->
  gen_validateBuy days bytes not_ujkl
  = let d := buy_duration days in
    if d <? SP.MONTH_NS then GVal (d, 0, 0, false)
    else let gbs := Z.quot bytes SP.GB in
         if gbs <=? 0 then GVal (d, bytes, gbs, false)
         else GVal (d, bytes, gbs, negb not_ujkl).
Proof.
  intros Hb. unfold gen_validateBuy, buy_duration, i64mul, SP.MONTH_NS, SP.DAY_NS, SP.GB. cbv zeta.
  rewrite wrap64_mul_l. replace (days * 3600000000000 * 24) with (days * 86400000000000) by lia.
  change (30 * 86400000000000) with 2592000000000000.
  destruct (wrap64 (days * 86400000000000) <? 2592000000000000); [reflexivity|].
  unfold i64quo. cbn [Z.eqb gbind].
  assert (E : wrap64 (Z.quot bytes 1000000000) = Z.quot bytes 1000000000).
  { apply wrap64_id. apply quot_in_range; [lia|lia|assumption]. }
  rewrite E. destruct (Z.quot bytes 1000000000 <=? 0); [reflexivity|]. destruct not_ujkl; reflexivity.
Qed.

(* ---------------- UpgradeStorage ---------------- *)
(* the price of upgrading a running plan: new cost minus the cost of the old size for the time left *)
Definition upgrade_spec (bytes duration cost plan_end now plan_avail plan_used ppt jkl : Z) : gres (Z * bool) :=
  let prorated := SP.sat64 (plan_end - now) in
  let ph := dquo (dec (Z.quot prorated 1000000)) (dec SP.HOUR_MS) in
  let cur_gbs := Z.quot plan_avail SP.GB in
  match dtrunc64 ph with
  | None => GPanic
  | Some hours =>
    match SP.storage_cost ppt jkl cur_gbs hours with
    | None => GPanic
    | Some old_cost =>
      if duration - Z.rem duration SP.MONTH_NS <=? 0 then GVal (0, false)
      else if bytes <? plan_used then GVal (0, false)
      else let price := cost - old_cost in
           if price <=? 0 then GVal (0, false) else GVal (price, true)
    end
  end.

Lemma gsat64_sat64 x : gsat64 x = SP.sat64 x.
Proof. reflexivity. Qed.

Lemma gen_UpgradeStorage_spec bytes duration cost plan_end now plan_avail plan_used ppt jkl :
  int64_min <= plan_avail <= int64_max ->
  gen_UpgradeStorage bytes duration cost plan_end now plan_avail plan_used ppt jkl
  = upgrade_spec bytes duration cost plan_end now plan_avail plan_used ppt jkl.
Proof.
  intros Ha. unfold gen_UpgradeStorage, upgrade_spec, gdec_quo, SP.HOUR_MS, SP.GB, SP.MONTH_NS, SP.DAY_NS. cbv zeta.
  rewrite gsat64_sat64.
  assert (D : (dec 3600000 =? 0) = false) by reflexivity. rewrite D. cbn [gbind].
  unfold i64quo. cbn [Z.eqb gbind].
  rewrite (wrap64_id (Z.quot plan_avail 1000000000)) by (apply quot_in_range; [lia|lia|assumption]).
  unfold gdec_trunc64. destruct (dtrunc64 _) as [hours|]; [|reflexivity]. cbn [gbind].
  rewrite gen_GetStorageCost_model.
  destruct (SP.storage_cost ppt jkl _ hours) as [old|]; [|reflexivity]. cbn [of_option gbind].
  unfold gdur_truncate. change (30 * 86400000000000) with 2592000000000000.
  change (2592000000000000 <=? 0) with false. cbn [gbind].
  destruct (duration - Z.rem duration 2592000000000000 <=? 0); [reflexivity|].
  destruct (bytes <? plan_used); [reflexivity|].
  destruct (Z.leb_spec (cost - old) 0) as [L|L]; [reflexivity|].
  unfold gcoin64. destruct (Z.ltb_spec (cost - old) 0); [lia|]. reflexivity.
Qed.

(* ---------------- BuyStorage ---------------- *)

(* everything after the price is known: the referral discount, the charge, the plan, the three shares *)
Definition buy_tail (evs0 : list gev) (to_pay0 space_used bytes duration : Z)
           (ref_resolves creator_ok ref_is_creator : bool) (polr refc : Z)
           (ok_charge gauge_acc_ok ok_fund pol_acc_ok ok_pol ok_ref ok_fees : bool) : gres (list gev * bool) :=
  let referred := ref_resolves && (negb creator_ok || negb ref_is_creator) in
  let long := 365 * 24 * SP.HOUR_MS <? Z.quot duration 1000000 in
  let pol0 := dquo_int (dec polr) 100 in
  let discount := if referred then (if long then dquo_int (dec 5) 100 else dquo_int (dec 10) 100) else dec 0 in
  let pol := if referred then (if long then pol0 - SP.d_0_05 else pol0 - SP.d_0_1) else pol0 in
  let p := if referred then dtrunc (dmul (dec to_pay0) (if long then SP.d_0_95 else SP.d_0_90)) else to_pay0 in
  if referred && (p <? 0) then GPanic else
  if negb creator_ok then GVal (evs0, false) else
  let e1 := evs0 ++ [Ev "charge-creator" [p]] in
  if negb ok_charge then GVal (e1, false) else
  let e2 := e1 ++ [Ev "set-plan" [bytes; space_used]] in
  let ref_dec := dquo_int (dec refc) 100 in
  let spc := dtrunc (dmul (dec p) (dec 1 - ref_dec - pol - discount)) in
  if spc <? 0 then GPanic else
  let e3 := e2 ++ [Ev "new-gauge" [spc]] in
  if negb gauge_acc_ok then GVal (e3, false) else
  let e4 := e3 ++ [Ev "fund-gauge" [spc]] in
  if negb ok_fund then GVal (e4, false) else
  if negb pol_acc_ok then GVal (e4, false) else
  let pol_cut := dtrunc (dmul (dec p) pol) in
  if pol_cut <? 0 then GPanic else
  let e5 := e4 ++ [Ev "to-pol" [pol_cut]] in
  if negb ok_pol then GVal (e5, false) else
  let ref_cut := dtrunc (dmul (dec p) ref_dec) in
  if ref_cut <? 0 then GPanic else
  if referred then GVal (e5 ++ [Ev "to-referrer" [ref_cut]], ok_ref)
  else GVal (e5 ++ [Ev "to-stakers" [ref_cut]], ok_fees).

Definition buy_spec (for_resolves : bool) (days bytes : Z) (not_ujkl for_ok acc_exists found : bool)
           (plan_used plan_avail plan_end now ppt jkl : Z) (ref_resolves creator_ok ref_is_creator : bool) (polr refc : Z)
           (ok_charge gauge_acc_ok ok_fund pol_acc_ok ok_pol ok_ref ok_fees : bool) : gres (list gev * bool) :=
  if negb for_resolves then GVal ([], false) else
  let duration := buy_duration days in
  if duration <? SP.MONTH_NS then GVal ([], false) else
  let gbs := Z.quot bytes SP.GB in
  if gbs <=? 0 then GVal ([], false) else
  if not_ujkl then GVal ([], false) else
  let hours := dtrunc (dquo (dec (Z.quot duration 1000000)) (dec SP.HOUR_MS)) in
  if negb (in_int64 hours) then GPanic else
  match SP.storage_cost ppt jkl gbs hours with
  | None => GPanic
  | Some cost =>
    if cost <? 0 then GPanic else
    if negb for_ok then GVal ([], false) else
    let evs0 := if acc_exists then [] else [Ev "new-account" []] in
    let tail tp used := buy_tail evs0 tp used bytes duration ref_resolves creator_ok ref_is_creator polr refc
                                 ok_charge gauge_acc_ok ok_fund pol_acc_ok ok_pol ok_ref ok_fees in
    if found then
      if bytes <? plan_used then GVal (evs0, false)
      else if now <? plan_end then
        match upgrade_spec bytes duration cost plan_end now plan_avail plan_used ppt jkl with
        | GPanic => GPanic
        | GVal (_, false) => GVal (evs0, false)
        | GVal (price, true) => tail price plan_used
        end
      else tail cost plan_used
    else tail cost 0
  end.

Ltac split_ifs :=
  repeat (cbn [gbind negb andb orb app fst snd];
          match goal with
          | |- ?x = ?x => reflexivity
          | |- context [if negb ?b then _ else _] => is_var b; destruct b
          | |- context [if ?b then _ else _] => destruct b
          end).

Lemma consts :
  i64mul 8760 3600000 = 365 * 24 * SP.HOUR_MS /\ SP.d_0_95 = 950000000000000000 /\ SP.d_0_90 = 900000000000000000 /\
  SP.d_0_05 = 50000000000000000 /\ SP.d_0_1 = 100000000000000000.
Proof. repeat split; reflexivity. Qed.

Theorem gen_BuyStorage_spec for_resolves days bytes not_ujkl for_ok acc_exists found plan_used plan_avail plan_end now ppt jkl
        ref_resolves creator_ok ref_is_creator polr refc ok_charge gauge_acc_ok ok_fund pol_acc_ok ok_pol ok_ref ok_fees :
  int64_min <= bytes <= int64_max -> int64_min <= plan_avail <= int64_max ->
  gen_BuyStorage for_resolves days bytes not_ujkl for_ok acc_exists found plan_used plan_avail plan_end now ppt jkl
                 ref_resolves creator_ok ref_is_creator polr refc ok_charge gauge_acc_ok ok_fund pol_acc_ok ok_pol ok_ref ok_fees
  = buy_spec for_resolves days bytes not_ujkl for_ok acc_exists found plan_used plan_avail plan_end now ppt jkl
             ref_resolves creator_ok ref_is_creator polr refc ok_charge gauge_acc_ok ok_fund pol_acc_ok ok_pol ok_ref ok_fees.
Proof.
  intros Hb Ha. destruct consts as (C1 & C2 & C3 & C4 & C5).
  unfold gen_BuyStorage, buy_spec. cbv zeta.
  destruct for_resolves; cbn [negb]; [|reflexivity].
  rewrite gen_validateBuy_spec by assumption. cbv zeta.
  destruct (buy_duration days <? SP.MONTH_NS); cbn [gbind negb]; [reflexivity|].
  destruct (Z.quot bytes SP.GB <=? 0); cbn [gbind negb]; [reflexivity|].
  destruct not_ujkl; cbn [gbind negb]; [reflexivity|].
  unfold gdec_quo, SP.HOUR_MS. assert (D : (dec 3600000 =? 0) = false) by reflexivity. rewrite D. cbn [gbind].
  unfold gint_int64.
  destruct (in_int64 (dtrunc (dquo (dec (Z.quot (buy_duration days) 1000000)) (dec 3600000)))); cbn [gbind negb]; [|reflexivity].
  rewrite gen_GetStorageCost_model.
  destruct (SP.storage_cost ppt jkl _ _) as [cost|]; cbn [of_option gbind]; [|reflexivity].
  unfold gcoin64 at 1. destruct (cost <? 0); cbn [gbind]; [reflexivity|].
  destruct for_ok; cbn [negb]; [|reflexivity].
  rewrite !(gen_UpgradeStorage_spec _ _ _ _ _ _ _ _ _ Ha).
  rewrite C1. unfold buy_tail, gdec_quo_int64, gcoin64. rewrite C2, C3, C4, C5. cbv zeta. cbn [Z.eqb].
  destruct acc_exists, found; cbn [negb gbind app];
    try (destruct (bytes <? plan_used); [reflexivity|]);
    try (destruct (now <? plan_end);
         [destruct (upgrade_spec bytes (buy_duration days) cost plan_end now plan_avail plan_used ppt jkl) as [[price [|]]|];
          cbn [gbind negb]; try reflexivity|]);
    destruct ref_resolves, creator_ok, ref_is_creator; cbn [gbind negb andb orb app];
    time split_ifs.
Qed.
