(* Lemmas and invariants for Model.Forms (C14). *)
From Coq Require Import ZArith NArith List Bool Lia Permutation.
From JK Require Import Base.AList Model.Forms.
Import ListNotations.
Open Scope Z_scope.

(* ---------------------------------------------------------------- equalities *)

Lemma str_eqb_spec : forall a b, str_eqb a b = true <-> a = b.
Proof.
  intros [a1 a2] [b1 b2]. unfold str_eqb. cbn. rewrite andb_true_iff, N.eqb_eq, eqb_true_iff.
  split; [intros [-> ->]; reflexivity | intros E; inversion E; auto].
Qed.

Lemma fkey_eqb_spec : forall a b, fkey_eqb a b = true <-> a = b.
Proof.
  intros [[m1 o1] s1] [[m2 o2] s2]. unfold fkey_eqb.
  rewrite !andb_true_iff, N.eqb_eq, str_eqb_spec, Z.eqb_eq.
  split; [intros [[-> ->] ->]; reflexivity | intros E; inversion E; auto].
Qed.

Lemma pkey_eqb_spec : forall a b, pkey_eqb a b = true <-> a = b.
Proof.
  intros [a1 a2] [b1 b2]. unfold pkey_eqb. cbn. rewrite andb_true_iff, str_eqb_spec, fkey_eqb_spec.
  split; [intros [-> ->]; reflexivity | intros E; inversion E; auto].
Qed.

Lemma str_eqb_refl a : str_eqb a a = true.
Proof. apply str_eqb_spec. reflexivity. Qed.

Lemma str_dec (a b : str) : {a = b} + {a <> b}.
Proof. destruct (str_eqb a b) eqn:E; [left; apply str_eqb_spec; exact E | right; intros ->; rewrite str_eqb_refl in E; discriminate]. Qed.

Lemma pkey_dec (a b : pkey) : {a = b} + {a <> b}.
Proof.
  destruct (pkey_eqb a b) eqn:E; [left; apply pkey_eqb_spec; exact E | right; intros ->].
  assert (pkey_eqb b b = true) by (apply pkey_eqb_spec; reflexivity). congruence.
Qed.

Lemma mem_spec a l : mem a l = true <-> In a l.
Proof.
  unfold mem. rewrite existsb_exists. split.
  - intros [x [H E]]. apply str_eqb_spec in E. subst. exact H.
  - intros H. exists a. split; [exact H | apply str_eqb_refl].
Qed.

Lemma listed_spec f c : listed f c = true <-> In c (map fst f).
Proof.
  unfold listed. rewrite existsb_exists, in_map_iff. split.
  - intros [e [H E]]. apply str_eqb_spec in E. exists e. auto.
  - intros [e [E H]]. exists e. split; [exact H | apply str_eqb_spec; exact E].
Qed.

(* generic: setting a binding to the value it already has changes nothing *)
Lemma aset_same {K V} (eqb : K -> K -> bool) (Hs : forall a b, eqb a b = true <-> a = b)
      (l : list (K * V)) k v : aget eqb l k = Some v -> aset eqb l k v = l.
Proof.
  induction l as [|[k' v'] r IH]; cbn; [discriminate|].
  destruct (eqb k k') eqn:E.
  - apply Hs in E. subst k'. intros H. inversion H. reflexivity.
  - intros H. rewrite IH by exact H. reflexivity.
Qed.

(* ---------------------------------------------------------------- the shuffle oracle *)

Lemma remove1_perm a l l' : remove1 a l = Some l' -> Permutation l (a :: l').
Proof.
  revert l'. induction l as [|x r IH]; cbn; intros l'; [discriminate|].
  destruct (str_eqb a x) eqn:E.
  - apply str_eqb_spec in E. subst x. intros H. inversion H. apply Permutation_refl.
  - destruct (remove1 a r) as [r'|]; [|discriminate]. intros H. inversion H. subst l'.
    eapply perm_trans; [apply perm_skip; apply IH; reflexivity | apply perm_swap].
Qed.

Lemma is_perm_spec p : forall l, is_perm p l = true -> Permutation p l.
Proof.
  induction p as [|a p IH]; cbn; intros l.
  - destruct l; [constructor | discriminate].
  - destruct (remove1 a l) as [l'|] eqn:R; [|discriminate]. intros H.
    apply remove1_perm in R. apply Permutation_sym in R.
    eapply perm_trans; [apply perm_skip; apply IH; exact H | exact R].
Qed.

Lemma In_firstn {A} (n : nat) (l : list A) x : In x (firstn n l) -> In x l.
Proof.
  revert n. induction l as [|y r IH]; intros [|n]; cbn; try tauto.
  intros [H|H]; [left; exact H | right; eapply IH; exact H].
Qed.

Lemma nodup_firstn {A} (n : nat) (l : list A) : NoDup l -> NoDup (firstn n l).
Proof.
  revert n. induction l as [|x r IH]; intros [|n] H; cbn; try constructor.
  - inversion H; subst. intros C. apply H2. eapply In_firstn. exact C.
  - inversion H; subst. apply IH. assumption.
Qed.

(* ---------------------------------------------------------------- counting *)

Lemma map_fst_mark f c : map fst (mark f c) = map fst f.
Proof.
  unfold mark. rewrite map_map. apply map_ext. intros e. destruct (str_eqb (fst e) c); reflexivity.
Qed.

Lemma in_mark_true f c p : In (p, true) (mark f c) -> In (p, true) f \/ (p = c /\ In c (map fst f)).
Proof.
  unfold mark. rewrite in_map_iff. intros [e [E H]].
  destruct (str_eqb (fst e) c) eqn:Q.
  - apply str_eqb_spec in Q. inversion E. subst. right. split; [reflexivity|]. apply in_map. exact H.
  - subst e. left. exact H.
Qed.

Lemma nodup_map_filter {A B} (g : A -> B) (P : A -> bool) l : NoDup (map g l) -> NoDup (map g (filter P l)).
Proof.
  induction l as [|x r IH]; cbn; intros H; [constructor|].
  inversion H; subst. destruct (P x); cbn; [constructor|]; auto.
  intros C. apply H2. apply in_map_iff in C as [y [E Hy]]. apply filter_In in Hy as [Hy _].
  rewrite <- E. apply in_map. exact Hy.
Qed.

Lemma in_dedup x l : In x (dedup l) <-> In x l.
Proof.
  induction l as [|a r IH]; cbn; [tauto|].
  destruct (mem a r) eqn:M.
  - rewrite IH. apply mem_spec in M. split; [auto | intros [->|H]; auto].
  - cbn. rewrite IH. tauto.
Qed.

Lemma nodup_dedup l : NoDup (dedup l).
Proof.
  induction l as [|a r IH]; cbn; [constructor|].
  destruct (mem a r) eqn:M; [exact IH|]. constructor; [|exact IH].
  rewrite in_dedup. intros C. apply mem_spec in C. congruence.
Qed.

Definition form_ok (f : form) (log : list str) : Prop :=
  NoDup (map fst f) /\ forall p, In (p, true) f -> In p log.

(* the heart of C14: the count the handlers compare with AttestMinToPass is at most the number
   of distinct listed providers that signed since the form was created *)
Lemma completes_le_signers f c log :
  form_ok f log -> listed f c = true ->
  completes (mark f c) <= Z.of_nat (length (distinct_listed_signers f (c :: log))).
Proof.
  intros [ND HL] LC. unfold completes, distinct_listed_signers.
  apply inj_le.
  rewrite <- (map_length fst (filter (fun e => snd e) (mark f c))).
  apply NoDup_incl_length.
  - apply nodup_map_filter. rewrite map_fst_mark. exact ND.
  - intros x Hx. apply in_map_iff in Hx as [[p b] [E Hp]]. cbn in E. subst p.
    apply filter_In in Hp as [Hp Hb]. cbn in Hb. subst b.
    apply in_dedup. apply filter_In.
    apply in_mark_true in Hp as [Hp | [-> Hc]].
    + split; [right; apply HL; exact Hp | apply listed_spec; apply (in_map fst) in Hp; exact Hp].
    + split; [left; reflexivity | exact LC].
Qed.

(* ---------------------------------------------------------------- the invariant *)

Definition Inv (sg : fstate * ghost) : Prop :=
  (forall k f, aget pkey_eqb (aforms (fst sg)) k = Some f -> form_ok f (glog (ga (snd sg)) k)) /\
  (forall k f, aget pkey_eqb (rforms (fst sg)) k = Some f -> form_ok f (glog (gr (snd sg)) k)) /\
  NoDup (akeys (providers (fst sg))).

Lemma Inv_init : Inv (init, {| ga := []; gr := [] |}).
Proof. repeat split; cbn; try discriminate; constructor. Qed.

Lemma form_ok_weaken f l l' : incl l l' -> form_ok f l -> form_ok f l'.
Proof. intros I [A B]. split; [exact A | intros p H; apply I, B, H]. Qed.

Lemma form_ok_blank chosen log : NoDup chosen -> form_ok (blank chosen) log.
Proof.
  intros ND. split.
  - unfold blank. rewrite map_map. cbn. rewrite map_id. exact ND.
  - intros p H. unfold blank in H. apply in_map_iff in H as [x [E _]]. discriminate.
Qed.

Lemma form_ok_mark f c log : form_ok f log -> form_ok (mark f c) (c :: log).
Proof.
  intros [A B]. split; [rewrite map_fst_mark; exact A|].
  intros p H. apply in_mark_true in H as [H | [-> _]]; [right; apply B; exact H | left; reflexivity].
Qed.

Lemma glog_aset_same g k v : glog (aset pkey_eqb g k v) k = v.
Proof. unfold glog. rewrite (aget_aset_same pkey_eqb pkey_eqb_spec). reflexivity. Qed.
Lemma glog_aset_other g k k' v : k' <> k -> glog (aset pkey_eqb g k v) k' = glog g k'.
Proof. intros N. unfold glog. rewrite (aget_aset_other pkey_eqb pkey_eqb_spec) by exact N. reflexivity. Qed.

Lemma allowed_nodup s ip : NoDup (akeys (providers s)) -> NoDup (allowed s ip).
Proof. intros H. unfold allowed. destruct ip; [constructor | apply NoDup_filter; exact H]. Qed.

Lemma pick_created s ip perm chosen :
  pick s ip perm = OCreated chosen ->
  Permutation perm (allowed s ip) /\ chosen = firstn (Z.to_nat (form_size s)) perm /\
  0 <= form_size s <= Z.of_nat (length perm).
Proof.
  unfold pick. destruct (is_perm perm (allowed s ip)) eqn:P; cbn; [|discriminate].
  destruct (Z.of_nat (length perm) <? form_size s) eqn:L; [discriminate|].
  destruct (form_size s <? 0) eqn:N; [discriminate|].
  intros H. inversion H. split; [apply is_perm_spec; exact P|]. split; [reflexivity|]. lia.
Qed.

Lemma pick_nodup s ip perm chosen :
  NoDup (akeys (providers s)) -> pick s ip perm = OCreated chosen -> NoDup chosen.
Proof.
  intros ND H. apply pick_created in H as [P [-> _]]. apply nodup_firstn.
  eapply Permutation_NoDup; [apply Permutation_sym; exact P | apply allowed_nodup; exact ND].
Qed.

(* shapes of the two request handlers *)
Lemma request_attestation_cases s c fk perm s' o :
  request_attestation s c fk perm = (s', o) ->
  (s' = s /\ (forall l, o <> OCreated l)) \/
  (exists chosen ip, o = OCreated chosen /\ aget pkey_eqb (aforms s) (c, fk) = None /\
     aget str_eqb (providers s) c = Some ip /\ pick s ip perm = OCreated chosen /\
     s' = set_aforms s (aset pkey_eqb (aforms s) (c, fk) (blank chosen))).
Proof.
  unfold request_attestation.
  destruct (aget fkey_eqb (files s) fk) as [prs|]; [|intros H; inversion H; left; split; [reflexivity | discriminate]].
  destruct (get_prover s prs c fk); [|intros H; inversion H; left; split; [reflexivity | discriminate]].
  destruct (aget pkey_eqb (aforms s) (c, fk)) eqn:F; [intros H; inversion H; left; split; [reflexivity | discriminate]|].
  destruct (aget str_eqb (providers s) c) as [ip|] eqn:P; [|intros H; inversion H; left; split; [reflexivity | discriminate]].
  destruct (pick s ip perm) eqn:K; intros H; inversion H; subst;
    try (left; split; [reflexivity | discriminate]).
  right. exists chosen, ip. auto.
Qed.

Lemma request_report_cases s p fk perm s' o :
  request_report s p fk perm = (s', o) ->
  (s' = s /\ (forall l, o <> OCreated l)) \/
  (exists chosen ip, o = OCreated chosen /\ aget pkey_eqb (rforms s) (p, fk) = None /\
     aget str_eqb (providers s) p = Some ip /\ pick s ip perm = OCreated chosen /\
     s' = set_rforms s (aset pkey_eqb (rforms s) (p, fk) (blank chosen))).
Proof.
  unfold request_report.
  destruct (aget fkey_eqb (files s) fk) as [prs|]; [|intros H; inversion H; left; split; [reflexivity | discriminate]].
  destruct (aget pkey_eqb (rforms s) (p, fk)) eqn:F; [intros H; inversion H; left; split; [reflexivity | discriminate]|].
  destruct (get_prover s prs p fk); [|intros H; inversion H; left; split; [reflexivity | discriminate]].
  destruct (aget str_eqb (providers s) p) as [ip|] eqn:P; [|intros H; inversion H; left; split; [reflexivity | discriminate]].
  destruct (pick s ip perm) eqn:K; intros H; inversion H; subst;
    try (left; split; [reflexivity | discriminate]).
  right. exists chosen, ip. auto.
Qed.

(* shapes of the two signing handlers: what can be written, and when *)
Inductive sign_shape (forms : fstate -> list (pkey * form)) (s : fstate) (c : str) (k : pkey) (s' : fstate) (o : outcome) : Prop :=
| SS_noop : s' = s -> o <> OActed -> o <> ORecorded -> sign_shape forms s c k s' o
| SS_recorded f : aget pkey_eqb (forms s) k = Some f -> listed f c = true ->
    completes (mark f c) < min_to_pass s -> o = ORecorded ->
    forms s' = aset pkey_eqb (forms s) k (mark f c) ->
    sign_shape forms s c k s' o
| SS_acted f : aget pkey_eqb (forms s) k = Some f -> listed f c = true ->
    min_to_pass s <= completes (mark f c) -> o = OActed ->
    forms s' = adel pkey_eqb (forms s) k ->
    sign_shape forms s c k s' o.

Lemma attest_shape s c p fk h s' o :
  attest s c p fk h = (s', o) ->
  sign_shape aforms s c (p, fk) s' o /\ rforms s' = rforms s /\ providers s' = providers s /\
  form_size s' = form_size s /\ min_to_pass s' = min_to_pass s /\
  (o <> OActed -> proofs s' = proofs s /\ files s' = files s) /\
  (o = OActed -> files s' = files s /\ proofs s' = aset pkey_eqb (proofs s) (p, fk) h /\
                 exists prs lp, aget fkey_eqb (files s) fk = Some prs /\ get_prover s prs p fk = Some lp).
Proof.
  unfold attest.
  destruct (aget pkey_eqb (aforms s) (p, fk)) as [f|] eqn:F.
  2:{ intros H; inversion H; subst. repeat split; try discriminate; auto. apply SS_noop; [reflexivity | discriminate | discriminate]. }
  destruct (listed f c) eqn:L; cbn [negb].
  2:{ intros H; inversion H; subst. repeat split; try discriminate; auto. apply SS_noop; [reflexivity | discriminate | discriminate]. }
  destruct (completes (mark f c) <? min_to_pass s) eqn:C.
  { intros H; inversion H; subst. repeat split; try discriminate; auto.
    eapply SS_recorded; eauto. lia. }
  destruct (aget fkey_eqb (files s) fk) as [prs|] eqn:G.
  2:{ intros H; inversion H; subst. repeat split; try discriminate; auto. apply SS_noop; [reflexivity | discriminate | discriminate]. }
  destruct (get_prover s prs p fk) as [lp|] eqn:GP.
  2:{ intros H; inversion H; subst. repeat split; try discriminate; auto. apply SS_noop; [reflexivity | discriminate | discriminate]. }
  intros H; inversion H; subst. cbn. repeat split; auto; try congruence.
  - eapply SS_acted; eauto. lia.
  - exists prs, lp. auto.
Qed.

Lemma do_report_shape s c p fk s' o :
  do_report s c p fk = (s', o) ->
  sign_shape rforms s c (p, fk) s' o /\ aforms s' = aforms s /\ providers s' = providers s /\
  form_size s' = form_size s /\ min_to_pass s' = min_to_pass s /\
  (o <> OActed -> proofs s' = proofs s /\ files s' = files s).
Proof.
  unfold do_report.
  destruct (aget pkey_eqb (rforms s) (p, fk)) as [f|] eqn:F.
  2:{ intros H; inversion H; subst. repeat split; try discriminate; auto. apply SS_noop; [reflexivity | discriminate | discriminate]. }
  destruct (listed f c) eqn:L; cbn [negb].
  2:{ intros H; inversion H; subst. repeat split; try discriminate; auto. apply SS_noop; [reflexivity | discriminate | discriminate]. }
  destruct (completes (mark f c) <? min_to_pass s) eqn:C.
  { intros H; inversion H; subst. repeat split; try discriminate; auto.
    eapply SS_recorded; eauto. lia. }
  destruct (aget fkey_eqb (files s) fk) as [prs|] eqn:G.
  2:{ intros H; inversion H; subst. repeat split; try discriminate; auto. apply SS_noop; [reflexivity | discriminate | discriminate]. }
  destruct (remove_prover prs p) as [[prs'|]|] eqn:R; intros H; inversion H; subst; cbn;
    repeat split; auto; try congruence; try discriminate.
  - eapply SS_acted; eauto. lia.
  - eapply SS_acted; eauto. lia.
  - apply SS_noop; [reflexivity | discriminate | discriminate].
Qed.

(* an invariant-preservation lemma shared by the two signing handlers *)
Lemma forms_inv_sign forms s c k s' o g :
  sign_shape forms s c k s' o ->
  (forall k0 f, aget pkey_eqb (forms s) k0 = Some f -> form_ok f (glog g k0)) ->
  forall k0 f, aget pkey_eqb (forms s') k0 = Some f ->
    form_ok f (glog (aset pkey_eqb g k (c :: glog g k)) k0).
Proof.
  intros SH I k0 f0 G.
  destruct (pkey_dec k0 k) as [->|N].
  - rewrite glog_aset_same.
    destruct SH as [E _ _ | f F L C O W | f F L C O W].
    + subst s'. eapply form_ok_weaken; [|apply I; exact G]. intros x Hx; right; exact Hx.
    + rewrite W, (aget_aset_same pkey_eqb pkey_eqb_spec) in G. inversion G. subst f0.
      apply form_ok_mark. apply I. exact F.
    + rewrite W, (aget_adel_same pkey_eqb) in G. discriminate.
  - rewrite glog_aset_other by exact N. apply I.
    destruct SH as [E _ _ | f F L C O W | f F L C O W].
    + subst s'. exact G.
    + rewrite W, (aget_aset_other pkey_eqb pkey_eqb_spec) in G by exact N. exact G.
    + rewrite W, (aget_adel_other pkey_eqb pkey_eqb_spec) in G by exact N. exact G.
Qed.

Lemma forms_inv_create (forms : list (pkey * form)) g k chosen :
  NoDup chosen ->
  (forall k0 f, aget pkey_eqb forms k0 = Some f -> form_ok f (glog g k0)) ->
  forall k0 f, aget pkey_eqb (aset pkey_eqb forms k (blank chosen)) k0 = Some f ->
    form_ok f (glog (aset pkey_eqb g k []) k0).
Proof.
  intros ND I k0 f G. destruct (pkey_dec k0 k) as [->|N].
  - rewrite (aget_aset_same pkey_eqb pkey_eqb_spec) in G. inversion G. apply form_ok_blank. exact ND.
  - rewrite (aget_aset_other pkey_eqb pkey_eqb_spec) in G by exact N.
    rewrite glog_aset_other by exact N. apply I. exact G.
Qed.

Lemma gstep_unfold s g o :
  gstep (s, g) o = (fst (step s o),
    match o, snd (step s o) with
    | ReqAttest c fk _, OCreated _ => {| ga := aset pkey_eqb (ga g) (c, fk) []; gr := gr g |}
    | ReqReport _ p fk _, OCreated _ => {| ga := ga g; gr := aset pkey_eqb (gr g) (p, fk) [] |}
    | Attest c p fk _, _ => {| ga := aset pkey_eqb (ga g) (p, fk) (c :: glog (ga g) (p, fk)); gr := gr g |}
    | Report c p fk, _ => {| ga := ga g; gr := aset pkey_eqb (gr g) (p, fk) (c :: glog (gr g) (p, fk)) |}
    | _, _ => g
    end).
Proof. unfold gstep. destruct o; match goal with |- context [step ?a ?b] => destruct (step a b) end; reflexivity. Qed.

Lemma Inv_step sg o : Inv sg -> Inv (gstep sg o).
Proof.
  destruct sg as [s g]. intros [IA [IR IP]]. cbn [fst snd] in *.
  rewrite gstep_unfold. destruct o as [c fk perm | c p fk h | c0 p fk perm | c p fk | fs mn | a v | fk v | pk v]; cbn [step].
  - (* ReqAttest *)
    destruct (request_attestation s c fk perm) as [s' out] eqn:E. cbn [fst snd].
    apply request_attestation_cases in E as [[-> NC] | [chosen [ip [-> [F [P [K ->]]]]]]].
    + assert (G : match out with OCreated _ => {| ga := aset pkey_eqb (ga g) (c, fk) []; gr := gr g |} | _ => g end = g)
        by (destruct out; try reflexivity; exfalso; eapply NC; reflexivity).
      rewrite G. split; [|split]; assumption.
    + split; [|split]; cbn [fst snd ga gr set_aforms aforms rforms providers]; try assumption.
      apply forms_inv_create; [eapply pick_nodup; eauto | exact IA].
  - (* Attest *)
    destruct (attest s c p fk h) as [s' out] eqn:E. cbn [fst snd].
    apply attest_shape in E as [SH [ER [EP _]]].
    split; [|split]; cbn [fst snd ga gr].
    + eapply forms_inv_sign; eauto.
    + rewrite ER. exact IR.
    + rewrite EP. exact IP.
  - (* ReqReport *)
    destruct (request_report s p fk perm) as [s' out] eqn:E. cbn [fst snd].
    apply request_report_cases in E as [[-> NC] | [chosen [ip [-> [F [P [K ->]]]]]]].
    + assert (G : match out with OCreated _ => {| ga := ga g; gr := aset pkey_eqb (gr g) (p, fk) [] |} | _ => g end = g)
        by (destruct out; try reflexivity; exfalso; eapply NC; reflexivity).
      rewrite G. split; [|split]; assumption.
    + split; [|split]; cbn [fst snd ga gr set_rforms aforms rforms providers]; try assumption.
      apply forms_inv_create; [eapply pick_nodup; eauto | exact IR].
  - (* Report *)
    destruct (do_report s c p fk) as [s' out] eqn:E. cbn [fst snd].
    apply do_report_shape in E as [SH [EA [EP _]]].
    split; [|split]; cbn [fst snd ga gr].
    + rewrite EA. exact IA.
    + eapply forms_inv_sign; eauto.
    + rewrite EP. exact IP.
  - split; [|split]; assumption.
  - destruct v; (split; [|split]); cbn; try assumption;
      [apply (nodup_aset str_eqb str_eqb_spec) | apply (nodup_adel str_eqb str_eqb_spec)]; exact IP.
  - destruct v; (split; [|split]); assumption.
  - destruct v; (split; [|split]); assumption.
Qed.

Lemma Inv_run ops : forall sg, Inv sg -> Inv (grun sg ops).
Proof. induction ops as [|o r IH]; intros sg H; [exact H | apply IH, Inv_step, H]. Qed.

(* ---------------------------------------------------------------- C14, one step *)

(* the quorum statement: the form exists, the signer is listed on it, and the minimum in force
   in the state the handler reads is reached by DISTINCT LISTED providers that signed since the
   form was created (the present signer included) *)
Definition quorum_at (s : fstate) (forms : list (pkey * form)) (log : list (pkey * list str)) (c : str) (k : pkey) : Prop :=
  exists f, aget pkey_eqb forms k = Some f /\ listed f c = true /\
    min_to_pass s <= Z.of_nat (length (distinct_listed_signers f (c :: glog log k))).

Definition touches_records (s s' : fstate) : Prop := proofs s' <> proofs s \/ files s' <> files s.

Lemma sign_quorum forms s c k s' o g :
  (forall k0 f, aget pkey_eqb (forms s) k0 = Some f -> form_ok f (glog g k0)) ->
  sign_shape forms s c k s' o -> o = OActed -> quorum_at s (forms s) g c k.
Proof.
  intros I SH ->. destruct SH as [_ N _ | f F L C O W | f F L C O W]; try congruence.
  exists f. repeat split; auto.
  eapply Z.le_trans; [exact C | apply completes_le_signers; [apply I; exact F | exact L]].
Qed.

Lemma attest_quorum s g c p fk h s' o :
  Inv (s, g) -> attest s c p fk h = (s', o) -> (o = OActed \/ touches_records s s') ->
  quorum_at s (aforms s) (ga g) c (p, fk).
Proof.
  intros [IA _] E H. apply attest_shape in E as [SH [_ [_ [_ [_ [FR _]]]]]].
  assert (o = OActed) as ->.
  { destruct H as [H | [H | H]]; [exact H | |]; destruct o; try reflexivity; exfalso; apply H; apply FR; discriminate. }
  eapply sign_quorum; eauto.
Qed.

Lemma report_quorum s g c p fk s' o :
  Inv (s, g) -> do_report s c p fk = (s', o) -> (o = OActed \/ touches_records s s') ->
  quorum_at s (rforms s) (gr g) c (p, fk).
Proof.
  intros [_ [IR _]] E H. apply do_report_shape in E as [SH [_ [_ [_ [_ FR]]]]].
  assert (o = OActed) as ->.
  { destruct H as [H | [H | H]]; [exact H | |]; destruct o; try reflexivity; exfalso; apply H; apply FR; discriminate. }
  eapply sign_quorum; eauto.
Qed.

(* ---------------------------------------------------------------- C14 over histories *)

Fixpoint gtrace (sg : fstate * ghost) (ops : list op) : list ((fstate * ghost) * op * (fstate * outcome)) :=
  match ops with
  | [] => []
  | o :: r => (sg, o, step (fst sg) o) :: gtrace (gstep sg o) r
  end.

Definition step_respects_quorum (t : (fstate * ghost) * op * (fstate * outcome)) : Prop :=
  let '((s, g), o, (s', out)) := t in
  match o with
  | Attest c p fk h => (out = OActed \/ touches_records s s') -> quorum_at s (aforms s) (ga g) c (p, fk)
  | Report c p fk => (out = OActed \/ touches_records s s') -> quorum_at s (rforms s) (gr g) c (p, fk)
  | _ => True
  end.

Lemma action_only_on_quorum ops : forall sg, Inv sg -> Forall step_respects_quorum (gtrace sg ops).
Proof.
  induction ops as [|o r IH]; intros sg I; cbn; constructor.
  - destruct sg as [s g]. cbn [fst]. destruct (step s o) as [s' out] eqn:E. cbn.
    destruct o; try exact Logic.I; cbn [step] in E.
    + intros H. eapply attest_quorum; eauto.
    + intros H. eapply report_quorum; eauto.
  - apply IH, Inv_step, I.
Qed.

(* what "acted" means for the records *)
Lemma attest_acted_refreshes s c p fk h s' :
  attest s c p fk h = (s', OActed) ->
  aget pkey_eqb (proofs s') (p, fk) = Some h /\ aget pkey_eqb (aforms s') (p, fk) = None /\
  (forall k, k <> (p, fk) -> aget pkey_eqb (proofs s') k = aget pkey_eqb (proofs s) k) /\ files s' = files s.
Proof.
  intros E. apply attest_shape in E as [SH [_ [_ [_ [_ [_ A]]]]]].
  destruct (A eq_refl) as [EF [EPr _]].
  destruct SH as [_ N _ | f F L C O W | f F L C O W]; try congruence.
  repeat split.
  - rewrite EPr. apply (aget_aset_same pkey_eqb pkey_eqb_spec).
  - rewrite W. apply (aget_adel_same pkey_eqb).
  - intros k N. rewrite EPr. apply (aget_aset_other pkey_eqb pkey_eqb_spec). exact N.
  - exact EF.
Qed.

Lemma report_acted_consumes s c p fk s' :
  do_report s c p fk = (s', OActed) -> aget pkey_eqb (rforms s') (p, fk) = None.
Proof.
  intros E. apply do_report_shape in E as [SH _].
  destruct SH as [_ N _ | f F L C O W | f F L C O W]; try congruence.
  rewrite W. apply (aget_adel_same pkey_eqb).
Qed.

(* a report that acts removes the prover's entry and record, when the prover is listed once *)
Lemma rp_no_match key l : forall arr m hit,
  (forall i, In i l -> forall x, nth_error arr i = Some x -> str_eqb x key = false) ->
  fold_left (rp_step key) l (Some (arr, m, hit)) = Some (arr, m, hit).
Proof.
  induction l as [|i r IH]; intros arr m hit H; cbn; [reflexivity|].
  destruct (nth_error arr i) as [x|] eqn:E.
  - rewrite (H i (or_introl eq_refl) x E). apply IH. intros j Hj. apply H. right. exact Hj.
  - apply IH. intros j Hj. apply H. right. exact Hj.
Qed.

(* ---------------------------------------------------------------- no-ops *)

Definition already_signed (f : form) (c : str) : Prop :=
  forall e, In e f -> fst e = c -> snd e = true.

Lemma mark_already f c : already_signed f c -> mark f c = f.
Proof.
  intros H. unfold mark. rewrite <- (map_id f) at 2. apply map_ext_in. intros [p b] I.
  cbn. destruct (str_eqb p c) eqn:E; [|reflexivity].
  apply str_eqb_spec in E. pose proof (H (p, b) I E) as Q. cbn in Q. subst b. reflexivity.
Qed.

Lemma set_aforms_id s : set_aforms s (aforms s) = s.
Proof. destruct s; reflexivity. Qed.
Lemma set_rforms_id s : set_rforms s (rforms s) = s.
Proof. destruct s; reflexivity. Qed.

Lemma attest_noop s c p fk h :
  aget pkey_eqb (aforms s) (p, fk) = None \/
  (exists f, aget pkey_eqb (aforms s) (p, fk) = Some f /\ listed f c = false) \/
  (exists f, aget pkey_eqb (aforms s) (p, fk) = Some f /\ already_signed f c /\ completes f < min_to_pass s) ->
  fst (attest s c p fk h) = s.
Proof.
  unfold attest. intros [H | [[f [H L]] | [f [H [A C]]]]]; rewrite H; [reflexivity | |].
  - rewrite L. reflexivity.
  - destruct (listed f c); [|reflexivity]. cbn [negb]. rewrite (mark_already f c A).
    destruct (completes f <? min_to_pass s) eqn:Q; [|lia]. cbn [fst].
    rewrite (aset_same pkey_eqb pkey_eqb_spec) by exact H. apply set_aforms_id.
Qed.

Lemma report_noop s c p fk :
  aget pkey_eqb (rforms s) (p, fk) = None \/
  (exists f, aget pkey_eqb (rforms s) (p, fk) = Some f /\ listed f c = false) \/
  (exists f, aget pkey_eqb (rforms s) (p, fk) = Some f /\ already_signed f c /\ completes f < min_to_pass s) ->
  fst (do_report s c p fk) = s.
Proof.
  unfold do_report. intros [H | [[f [H L]] | [f [H [A C]]]]]; rewrite H; [reflexivity | |].
  - rewrite L. reflexivity.
  - destruct (listed f c); [|reflexivity]. cbn [negb]. rewrite (mark_already f c A).
    destruct (completes f <? min_to_pass s) eqn:Q; [|lia]. cbn [fst].
    rewrite (aset_same pkey_eqb pkey_eqb_spec) by exact H. apply set_rforms_id.
Qed.

(* what is stored after a recorded signature is below the minimum then in force: a later repeated
   signature can only act if the minimum was lowered in between (see the Example in Props/C14.v) *)
Lemma recorded_below_minimum forms s c k s' o :
  sign_shape forms s c k s' o -> o = ORecorded ->
  exists f', aget pkey_eqb (forms s') k = Some f' /\ completes f' < min_to_pass s.
Proof.
  intros SH ->. destruct SH as [_ _ N | f F L C O W | f F L C O W]; try congruence.
  exists (mark f c). split; [rewrite W; apply (aget_aset_same pkey_eqb pkey_eqb_spec) | exact C].
Qed.

(* ---------------------------------------------------------------- who is named on a form *)

Definition named_ok (s : fstate) (prover p : str) : Prop :=
  p <> prover /\ holds_proof s p = true /\
  exists d t ipc, aget str_eqb (providers s) p = Some (IpHost (Some (d, t))) /\
    aget str_eqb (providers s) prover = Some ipc /\ (d, t) <> filter_of ipc.

Lemma allowed_named s prover ipc p :
  aget str_eqb (providers s) prover = Some ipc -> In p (allowed s ipc) -> named_ok s prover p.
Proof.
  intros P H.
  assert (A : provider_allowed s (filter_of ipc) p = true).
  { unfold allowed in H. destruct ipc; [destruct H | apply filter_In in H; apply H]. }
  unfold provider_allowed in A. apply andb_true_iff in A as [HP A].
  destruct (aget str_eqb (providers s) p) as [[|[[d t]|]]|] eqn:G; try discriminate.
  assert (NE : (d, t) <> filter_of ipc).
  { intros Q. rewrite <- Q in A. cbn in A. rewrite !N.eqb_refl in A. discriminate. }
  split; [|split; [exact HP | exists d, t, ipc; auto]].
  intros ->. rewrite P in G. inversion G. subst ipc. apply NE. reflexivity.
Qed.

Lemma pick_named s prover ipc perm chosen :
  NoDup (akeys (providers s)) -> aget str_eqb (providers s) prover = Some ipc ->
  pick s ipc perm = OCreated chosen ->
  Z.of_nat (length chosen) = form_size s /\ NoDup chosen /\ forall p, In p chosen -> named_ok s prover p.
Proof.
  intros ND P K. split; [|split; [eapply pick_nodup; eauto|]].
  - apply pick_created in K as [_ [-> R]]. rewrite firstn_length. lia.
  - intros p H. apply pick_created in K as [PM [-> _]]. apply In_firstn in H.
    eapply allowed_named; [exact P|]. eapply Permutation_in; [exact PM | exact H].
Qed.

Lemma request_attestation_names s c fk perm s' chosen :
  NoDup (akeys (providers s)) -> request_attestation s c fk perm = (s', OCreated chosen) ->
  aget pkey_eqb (aforms s') (c, fk) = Some (blank chosen) /\
  Z.of_nat (length chosen) = form_size s /\ NoDup chosen /\ forall p, In p chosen -> named_ok s c p.
Proof.
  intros ND E. apply request_attestation_cases in E as [[_ NC] | [ch [ip [Q [F [P [K ->]]]]]]].
  - exfalso. eapply NC. reflexivity.
  - inversion Q. subst ch. split; [cbn; apply (aget_aset_same pkey_eqb pkey_eqb_spec)|].
    eapply pick_named; eauto.
Qed.

Lemma request_report_names s p0 fk perm s' chosen :
  NoDup (akeys (providers s)) -> request_report s p0 fk perm = (s', OCreated chosen) ->
  aget pkey_eqb (rforms s') (p0, fk) = Some (blank chosen) /\
  Z.of_nat (length chosen) = form_size s /\ NoDup chosen /\ forall p, In p chosen -> named_ok s p0 p.
Proof.
  intros ND E. apply request_report_cases in E as [[_ NC] | [ch [ip [Q [F [P [K ->]]]]]]].
  - exfalso. eapply NC. reflexivity.
  - inversion Q. subst ch. split; [cbn; apply (aget_aset_same pkey_eqb pkey_eqb_spec)|].
    eapply pick_named; eauto.
Qed.

(* refused / failing requests write nothing *)
Lemma request_attestation_refused s c fk perm s' o :
  request_attestation s c fk perm = (s', o) -> (forall l, o <> OCreated l) -> s' = s.
Proof. intros E N. apply request_attestation_cases in E as [[-> _] | [ch [ip [-> _]]]]; [reflexivity | exfalso; eapply N; reflexivity]. Qed.
Lemma request_report_refused s p fk perm s' o :
  request_report s p fk perm = (s', o) -> (forall l, o <> OCreated l) -> s' = s.
Proof. intros E N. apply request_report_cases in E as [[-> _] | [ch [ip [-> _]]]]; [reflexivity | exfalso; eapply N; reflexivity]. Qed.

Lemma refused_request_writes_nothing s o s' out :
  (exists c fk perm, o = ReqAttest c fk perm) \/ (exists c p fk perm, o = ReqReport c p fk perm) ->
  step s o = (s', out) -> (forall l, out <> OCreated l) -> s' = s.
Proof.
  intros [[c [fk [perm ->]]] | [c [p [fk [perm ->]]]]] E N;
    [eapply request_attestation_refused | eapply request_report_refused]; eauto.
Qed.

Lemma request_report_names_step s (c : str) p0 fk perm s' chosen :
  NoDup (akeys (providers s)) -> step s (ReqReport c p0 fk perm) = (s', OCreated chosen) ->
  aget pkey_eqb (rforms s') (p0, fk) = Some (blank chosen) /\
  Z.of_nat (length chosen) = form_size s /\ NoDup chosen /\ forall p, In p chosen -> named_ok s p0 p.
Proof. exact (request_report_names s p0 fk perm s' chosen). Qed.

(* ---------------------------------------------------------------- RemoveProverWithKey *)

Lemma rp_no_match_in key l : forall arr m hit,
  (forall x, In x arr -> x <> key) ->
  fold_left (rp_step key) l (Some (arr, m, hit)) = Some (arr, m, hit).
Proof.
  intros arr m hit H. apply rp_no_match. intros i _ x E.
  destruct (str_eqb x key) eqn:Q; [|reflexivity]. apply str_eqb_spec in Q.
  exfalso. eapply H; [eapply nth_error_In; exact E | exact Q].
Qed.

Lemma skipn_app_exact {A} (l1 l2 : list A) n : skipn (length l1 + n) (l1 ++ l2) = skipn n l2.
Proof. induction l1; cbn; [reflexivity | exact IHl1]. Qed.

Lemma firstn_app_exact {A} (l1 l2 : list A) : firstn (length l1) (l1 ++ l2) = l1.
Proof. induction l1; cbn; [destruct l2; reflexivity | rewrite IHl1; reflexivity]. Qed.

Lemma in_skipn {A} n (l : list A) x : In x (skipn n l) -> In x l.
Proof. revert l. induction n; intros [|y r]; cbn; auto. Qed.

(* with the prover listed once (what AddProver / PostProof produce), the in-place walk removes
   exactly that entry, keeps the order of the others and does not panic *)
Lemma remove_prover_once l1 l2 key :
  ~ In key l1 -> ~ In key l2 -> remove_prover (l1 ++ key :: l2) key = Some (Some (l1 ++ l2)).
Proof.
  intros N1 N2. unfold remove_prover.
  set (arr := l1 ++ key :: l2).
  assert (LA : length arr = (length l1 + S (length l2))%nat) by (unfold arr; rewrite app_length; reflexivity).
  rewrite LA, seq_app, fold_left_app.
  rewrite rp_no_match.
  2:{ intros i Hi x E. apply in_seq in Hi. unfold arr in E. rewrite nth_error_app1 in E by lia.
      destruct (str_eqb x key) eqn:Q; [|reflexivity]. apply str_eqb_spec in Q. subst x.
      exfalso. apply N1. eapply nth_error_In. exact E. }
  cbn [seq fold_left plus]. unfold rp_step at 2.
  assert (E : nth_error arr (length l1) = Some key).
  { unfold arr. rewrite nth_error_app2 by lia. rewrite Nat.sub_diag. reflexivity. }
  rewrite E, str_eqb_refl.
  assert (Nat.ltb (length l1 + S (length l2)) (length l1 + 1) = false) as -> by (apply Nat.ltb_ge; lia).
  assert (F1 : firstn (length l1) arr = l1) by (unfold arr; apply firstn_app_exact).
  assert (F2 : firstn (length l1 + S (length l2)) arr = arr) by (rewrite <- LA; apply firstn_all).
  assert (F3 : skipn (length l1 + 1) arr = l2) by (unfold arr; rewrite skipn_app_exact; reflexivity).
  rewrite F1, F2, F3.
  set (T := skipn (length l1 + S (length l2) - 1) arr).
  assert (HT : forall x, In x T -> l2 <> [] -> In x l2).
  { intros x Hx NE. unfold T, arr in Hx.
    replace (length l1 + S (length l2) - 1)%nat with (length l1 + length l2)%nat in Hx by lia.
    rewrite skipn_app_exact in Hx. destruct l2 as [|y r]; [congruence|]. cbn [length skipn] in Hx.
    eapply in_skipn. exact Hx. }
  destruct l2 as [|y r] eqn:EL.
  - cbn [length seq fold_left]. rewrite app_nil_l.
    replace (length l1 + 1 - 1)%nat with (length l1) by lia.
    rewrite firstn_app_exact, app_nil_r. reflexivity.
  - rewrite rp_no_match_in.
    2:{ intros x Hx. apply in_app_or in Hx as [Hx | Hx]; [intros ->; contradiction|].
        apply in_app_or in Hx as [Hx | Hx]; [intros ->; contradiction|].
        intros ->. apply N2. apply HT; [exact Hx | discriminate]. }
    replace (length l1 + S (length (y :: r)) - 1)%nat with (length (l1 ++ y :: r)) by (rewrite app_length; cbn; lia).
    rewrite app_assoc, firstn_app_exact. reflexivity.
Qed.

Lemma report_acted_removes s c p fk s' l1 l2 :
  aget fkey_eqb (files s) fk = Some (l1 ++ p :: l2) -> ~ In p l1 -> ~ In p l2 ->
  do_report s c p fk = (s', OActed) ->
  aget fkey_eqb (files s') fk = Some (l1 ++ l2) /\ aget pkey_eqb (proofs s') (p, fk) = None /\
  aget pkey_eqb (rforms s') (p, fk) = None.
Proof.
  intros G N1 N2 E. pose proof (report_acted_consumes _ _ _ _ _ E) as RC.
  unfold do_report in E.
  destruct (aget pkey_eqb (rforms s) (p, fk)) as [f|]; [|inversion E].
  destruct (negb (listed f c)); [inversion E|].
  destruct (completes (mark f c) <? min_to_pass s); [inversion E|].
  rewrite G, (remove_prover_once l1 l2 p N1 N2) in E. inversion E; subst. cbn.
  repeat split.
  - apply (aget_aset_same fkey_eqb fkey_eqb_spec).
  - apply (aget_adel_same pkey_eqb).
  - exact RC.
Qed.

(* ---------------------------------------------------------------- example worlds (non-vacuity) *)

Definition xA : str := (1%N, false).
Definition xB : str := (2%N, false).
Definition xC : str := (3%N, false).
Definition xD : str := (4%N, false).
Definition xP : str := (5%N, false).         (* the prover *)
Definition xP_up : str := (5%N, true).       (* the prover's account, upper-case spelling *)
Definition xOwner : str := (7%N, false).
Definition xOut : str := (8%N, false).       (* an account that is no provider *)
Definition xF : fkey := (1%N, xOwner, 3).
Definition xG : fkey := (2%N, xOwner, 4).

(* five providers in five domains; P and A prove file F, B C D prove file G *)
Definition ex_world (fs mn : Z) : fstate :=
  {| providers := [(xA, IpHost (Some (1, 9)%N)); (xB, IpHost (Some (2, 9)%N)); (xC, IpHost (Some (3, 9)%N));
                   (xD, IpHost (Some (4, 9)%N)); (xP, IpHost (Some (5, 9)%N))];
     files := [(xF, [xP; xA]); (xG, [xB; xC; xD])];
     proofs := [((xP, xF), 1); ((xA, xF), 1); ((xB, xG), 1); ((xC, xG), 1); ((xD, xG), 1)];
     aforms := []; rforms := []; form_size := fs; min_to_pass := mn |}.

Definition ex_ghost0 : ghost := {| ga := []; gr := [] |}.

(* the same world after P's account registered a second time under its upper-case spelling,
   in another domain, and proved file G under that spelling *)
Definition ex_world_double : fstate :=
  let w := ex_world 1 1 in
  set_proofs (set_providers w ((xP_up, IpHost (Some (6, 9)%N)) :: providers w))
             (((xP_up, xG), 1) :: proofs w).

Definition outcomes (s : fstate) (ops : list op) : list outcome :=
  map (fun t => snd (snd t)) (gtrace (s, ex_ghost0) ops).

(* ---------------------------------------------------------------- account level (after the repair 8a326f28) *)

(* InitProvider registers a provider only under the canonical (lower-case) spelling of its address *)
Definition providers_canonical (s : fstate) : Prop := forall p, In p (akeys (providers s)) -> snd p = false.

Lemma aget_some_in_keys (l : list (str * ipinfo)) k v : aget str_eqb l k = Some v -> In k (akeys l).
Proof.
  induction l as [|[k' v'] r IH]; cbn; [discriminate|].
  destruct (str_eqb k k') eqn:E.
  - intros _. left. symmetry. apply str_eqb_spec. exact E.
  - intros H. right. exact (IH H).
Qed.

Lemma named_ok_other_account s prover p :
  providers_canonical s -> named_ok s prover p -> same_account p prover = false.
Proof.
  intros HC (Hne & _ & d & t & ipc & Hp & Hc & _).
  pose proof (HC p (aget_some_in_keys _ _ _ Hp)) as Sp.
  pose proof (HC prover (aget_some_in_keys _ _ _ Hc)) as Sc.
  unfold same_account. destruct (N.eqb_spec (fst p) (fst prover)) as [E|]; [|reflexivity].
  exfalso. apply Hne. destruct p, prover; cbn in *; subst; reflexivity.
Qed.

Lemma attestation_form_other_accounts s c fk perm s' chosen :
  NoDup (akeys (providers s)) -> providers_canonical s ->
  step s (ReqAttest c fk perm) = (s', OCreated chosen) ->
  forall p, In p chosen -> same_account p c = false.
Proof.
  intros ND HC H p Hin. destruct (request_attestation_names s c fk perm s' chosen ND H) as (_ & _ & _ & HN).
  exact (named_ok_other_account s c p HC (HN p Hin)).
Qed.

Lemma report_form_other_accounts s c p0 fk perm s' chosen :
  NoDup (akeys (providers s)) -> providers_canonical s ->
  step s (ReqReport c p0 fk perm) = (s', OCreated chosen) ->
  forall p, In p chosen -> same_account p p0 = false.
Proof.
  intros ND HC H p Hin. destruct (request_report_names_step s c p0 fk perm s' chosen ND H) as (_ & _ & _ & HN).
  exact (named_ok_other_account s p0 p HC (HN p Hin)).
Qed.
