(* C11 — lemmas about the message table: the boolean predicate msg_ok decides row_wf, and the
   table regenerated from the sources on this run satisfies it (by computation: the table is
   finite, so evaluating msg_ok on every row IS the proof; no row count is asserted). *)
From Coq Require Import List String Bool.
From JK Require Import Model.MsgTable.
From JK Require Import Gen.MsgTable.
Import ListNotations.
Open Scope string_scope.

Lemma list_string_eqb_eq a : forall b, list_string_eqb a b = true <-> a = b.
Proof.
  induction a as [|x a IH]; intros [|y b]; cbn; split; intros H; try reflexivity; try discriminate.
  - apply andb_true_iff in H. destruct H as [H1 H2]. apply String.eqb_eq in H1. apply IH in H2. subst. reflexivity.
  - injection H as -> ->. rewrite String.eqb_refl. cbn. apply IH. reflexivity.
Qed.

Lemma signed_by_creator_b_spec r : signed_by_creator_b r = true <-> signed_by_creator r.
Proof.
  unfold signed_by_creator_b, signed_by_creator. destruct (m_signers r) as [fs|].
  - rewrite list_string_eqb_eq. split; [intros ->; reflexivity | intros H; injection H as ->; reflexivity].
  - split; discriminate.
Qed.

Lemma registered_b_spec r : registered_b r = true <-> registered r.
Proof.
  unfold registered_b, registered. rewrite orb_true_iff, andb_true_iff. tauto.
Qed.

Lemma has_handler_b_spec r : has_handler_b r = true <-> has_handler r.
Proof.
  unfold has_handler_b, has_handler. rewrite !andb_true_iff. tauto.
Qed.

Lemma msg_ok_spec r : msg_ok r = true <-> row_wf r.
Proof.
  unfold msg_ok, row_wf. rewrite !andb_true_iff.
  rewrite signed_by_creator_b_spec, registered_b_spec, has_handler_b_spec. tauto.
Qed.

Lemma forallb_msg_ok_sound t : forallb msg_ok t = true -> Forall row_wf t.
Proof.
  intros H. apply Forall_forall. intros r Hin.
  apply msg_ok_spec. rewrite forallb_forall in H. apply H. exact Hin.
Qed.

(* re-proved against the table generated from the sources of THIS run *)
Lemma msg_table_all_ok : forallb msg_ok msg_table = true.
Proof. vm_compute. reflexivity. Qed.

Lemma msg_table_wf : Forall row_wf msg_table.
Proof. apply forallb_msg_ok_sound. exact msg_table_all_ok. Qed.

(* type URLs identify rows (so the lookup used by the correspondence is unambiguous) *)
Lemma msg_table_urls_distinct : nodup_strings (map m_url msg_table) = true.
Proof. vm_compute. reflexivity. Qed.

Lemma find_row_in t url r : find_row t url = Some r -> In r t /\ m_url r = url.
Proof.
  induction t as [|x t IH]; cbn; [discriminate|].
  destruct (String.eqb (m_url x) url) eqn:E.
  - intros H; injection H as ->. apply String.eqb_eq in E. split; [left; reflexivity | exact E].
  - intros H. destruct (IH H) as [H1 H2]. split; [right; exact H1 | exact H2].
Qed.

(* every message the registry of the running app can name by a URL of the table is well formed *)
Lemma found_row_wf url r : find_row msg_table url = Some r -> row_wf r.
Proof.
  intros H. apply find_row_in in H. destruct H as [Hin _].
  exact (proj1 (Forall_forall _ _) msg_table_wf r Hin).
Qed.

Lemma msg_table_nonempty : msg_table <> [].
Proof. vm_compute. discriminate. Qed.

(* ---- statements of Props/C11.v *)
Lemma registered_url_is_well_formed_thm :
  forall url r, find_row msg_table url = Some r ->
    m_url r = url /\ m_signers r = SignerFields ["Creator"%string] /\ registered r /\ has_handler r.
Proof.
  intros url r H. pose proof (found_row_wf url r H) as W. destruct (find_row_in _ _ _ H) as [_ U].
  destruct W as [A [_ [B [C _]]]]. exact (conj U (conj A (conj B C))).
Qed.
