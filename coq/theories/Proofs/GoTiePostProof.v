(* Tie by proof between storage's PostProof handler (with UnifiedFile.Prove / SetProven / ResetChunkWithProof) as
   generated from the current source (Gen/GoWindows.v) and the model of C01 / C17 (Model/StorageFiles.v). *)
From Coq Require Import ZArith NArith List Bool String Lia.
From JK Require Import Base.Dec Base.AList Base.GoSem Gen.GoWindows Proofs.GoTieWindows.
From JK Require Model.StorageFiles.
Import ListNotations.
Open Scope Z_scope.
Module SF := Model.StorageFiles.

(* the challenge ResetChunkWithProof stores: a drawn index when the file has more than one piece, else 0 *)
Definition next_challenge (size chunk draw : Z) : Z :=
  let p := Z.quot size chunk in
  let p := if Z.rem size chunk =? 0 then p - 1 else p in
  if 0 <? p then draw else 0.

(* PostProof in closed form: who may submit (a listed prover whose record is found, or a newcomer while there is
   room), the challenge named must be the stored one, the proof must verify -- and only then anything is written *)
Definition postproof_spec (found : bool) (nproofs maxp : Z) (getprover_ok listed : bool) (to_prove challenge : Z)
           (pi h size chunk draw : Z) (verified : bool) : gres (list gev * (bool * bool)) :=
  if negb found then GVal ([], (false, true)) else
  let cand : option bool :=
    if nproofs =? maxp then (if getprover_ok then Some false else None)
    else if listed then (if getprover_ok then Some false else None)
    else if maxp <=? nproofs then None else Some true in
  match cand with
  | None => GVal ([], (false, true))
  | Some isnew =>
    if negb (to_prove =? challenge) then GVal ([], (false, true)) else
    if pi =? 0 then GPanic else
    if negb verified then GVal ([], (false, true)) else
    if chunk =? 0 then GPanic else
    GVal ([Ev "set-last-proven" [h]; Ev "set-challenge" [next_challenge size chunk draw]]
            ++ (if isnew then [Ev "add-prover" []] else []) ++ [Ev "set-proof" []], (true, true))
  end.

Lemma gen_Prove_spec size chunk draw h verified :
  int64_min < size <= int64_max ->
  gen_Prove size chunk draw h verified
  = if negb verified then GVal ([], false)
    else if chunk =? 0 then GPanic
    else GVal ([Ev "set-last-proven" [h]; Ev "set-challenge" [next_challenge size chunk draw]], true).
Proof.
  intros Hs. unfold gen_Prove, gen_SetProven. destruct verified; cbn [negb]; [|reflexivity].
  rewrite (gen_ResetChunkWithProof_spec size chunk draw Hs).
  destruct (chunk =? 0); [reflexivity|]. reflexivity.
Qed.

Theorem gen_PostProof_spec found nproofs maxp getprover_ok listed to_prove challenge start pi h last size chunk draw verified :
  small h -> small start -> int64_min < size <= int64_max ->
  gen_PostProof found nproofs maxp getprover_ok listed to_prove challenge start pi h last size chunk draw verified
  = postproof_spec found nproofs maxp getprover_ok listed to_prove challenge pi h size chunk draw verified.
Proof.
  intros Hh Hs Hz. unfold gen_PostProof, postproof_spec.
  rewrite !(gen_ProvenThisBlock_spec start pi h last Hh Hs), !(gen_Prove_spec size chunk draw h verified Hz).
  unfold spec_proven_this, spec_rounded.
  destruct found; cbn [negb]; [|reflexivity].
  destruct (nproofs =? maxp); [|destruct listed; [|destruct (maxp <=? nproofs); [reflexivity|]]];
    try (destruct getprover_ok; cbn [negb]; [|reflexivity]);
    (destruct (to_prove =? challenge); cbn [negb]; [|reflexivity]);
    (destruct (pi =? 0); cbn [gbind]; [reflexivity|]);
    (match goal with |- context [if ?b then GVal ?e else GVal ?e] => destruct b end); cbn [gbind];
    destruct verified; cbn [negb gbind app]; try reflexivity;
    destruct (chunk =? 0); reflexivity.
Qed.

(* ---------------- Model/StorageFiles.v follows the closed form ---------------- *)
Definition is_some {A} (o : option A) : bool := match o with Some _ => true | None => false end.

Definition pp_verdict (s : SF.sstate) (r : gres (list gev * (bool * bool))) (model : SF.res) : SF.res :=
  match r with
  | GPanic => SF.panic_ s
  | GVal (_, (false, _)) => SF.ok_ s false
  | GVal (_, (true, _)) => SF.ok_ (SF.r_state model) true   (* success is claimed outright; the state is the model's *)
  end.

Theorem storagefiles_post_proof_follows s creator merkle owner start height to_prove verified new_chunk chunk_size size draw :
  let fo := SF.get_file s (merkle, owner, start) in
  let nproofs := match fo with Some f => SF.len f | None => 0 end in
  let maxp := match fo with Some f => SF.f_max f | None => 0 end in
  let gp := match fo with Some f => SF.get_prover s f creator | None => None end in
  let listed := match fo with Some f => SF.contains_prover f creator | None => false end in
  let pi := match fo with Some f => SF.f_interval f | None => 0 end in
  (* the challenge of the record the handler works on: the stored one for a listed prover, 0 for a newcomer *)
  let chal := if (nproofs =? maxp) || listed then match gp with Some p => SF.p_chunk p | None => 0 end else 0 in
  let model := SF.post_proof s creator merkle owner start height to_prove verified new_chunk chunk_size in
  model = pp_verdict s (postproof_spec (is_some fo) nproofs maxp (is_some gp) listed to_prove chal pi height size chunk_size draw verified) model.
Proof.
  cbv zeta. unfold SF.post_proof, postproof_spec, pp_verdict.
  destruct (SF.get_file s (merkle, owner, start)) as [f|]; cbn [is_some negb]; [|reflexivity].
  rewrite Z.geb_leb.
  destruct (SF.len f =? SF.f_max f); cbn [orb].
  - destruct (SF.get_prover s f creator) as [p|]; cbn [is_some]; [|reflexivity].
    destruct (to_prove =? SF.p_chunk p); cbn [negb]; [|reflexivity].
    destruct (SF.f_interval f =? 0); [reflexivity|].
    destruct verified; cbn [negb]; [|reflexivity].
    destruct (chunk_size =? 0); reflexivity.
  - destruct (SF.contains_prover f creator).
    + destruct (SF.get_prover s f creator) as [p|]; cbn [is_some]; [|reflexivity].
      destruct (to_prove =? SF.p_chunk p); cbn [negb]; [|reflexivity].
      destruct (SF.f_interval f =? 0); [reflexivity|].
      destruct verified; cbn [negb]; [|reflexivity].
      destruct (chunk_size =? 0); reflexivity.
    + destruct (SF.f_max f <=? SF.len f); [reflexivity|].
      cbn [SF.fresh_proof SF.p_chunk].
      destruct (to_prove =? 0); cbn [negb]; [|reflexivity].
      destruct (SF.f_interval f =? 0); [reflexivity|].
      destruct verified; cbn [negb]; [|reflexivity].
      destruct (chunk_size =? 0); reflexivity.
Qed.
