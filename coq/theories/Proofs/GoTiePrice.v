(* Ties by proof between the two price functions generated from x/storage/keeper/utils.go's current source
   (Gen/GoPrice.v) and the model of C04 (Model/StoragePay.v).  sdk.Dec arithmetic is unbounded: no ranges. *)
From Coq Require Import ZArith List Bool Lia.
From JK Require Import Base.Dec Base.GoSem Gen.GoPrice Model.StoragePay.
Open Scope Z_scope.

Lemma gen_GetStorageCostKbsWithPrice_model ppt jkl kbs hours :
  gen_GetStorageCostKbsWithPrice ppt jkl kbs hours = of_option (storage_cost_kbs ppt jkl kbs hours).
Proof.
  unfold gen_GetStorageCostKbsWithPrice, storage_cost_kbs, gdec_quo_int64, gdec_quo. cbn [Z.eqb gbind].
  destruct (jkl =? 0); reflexivity.
Qed.

Lemma gen_GetStorageCost_model ppt jkl gbs hours :
  gen_GetStorageCost ppt jkl gbs hours = of_option (storage_cost ppt jkl gbs hours).
Proof.
  unfold gen_GetStorageCost, storage_cost, gdec_quo_int64, gdec_quo, d_12_5, d_10_42, d_11_67, P16, YEAR_HOURS.
  cbn [Z.eqb gbind].
  change (1250 * 10 ^ 16) with 12500000000000000000.
  change (1042 * 10 ^ 16) with 10420000000000000000.
  change (1167 * 10 ^ 16) with 11670000000000000000.
  destruct (hours <? 8760), (20000 <=? gbs), (5000 <=? gbs); cbn [Z.eqb gbind];
    destruct (jkl =? 0); reflexivity.
Qed.
