(* Ties, by proof, between the Gallina functions the translator generates from the CURRENT Go source
   (Gen/GoWindows.v: getRoundedWindow, ProvenLastBlock, ProvenThisBlock, IsYoung, manageProof,
   removeFileIfDeserved, RunRewardBlock, ResetChunkWithProof) and the hand-written models that the property
   theorems are about (Model/Windows.v, Model/StorageFiles.v, Model/Rewards.v, Model/BeginBlock.v, Model/Plan.v).

   Ranges: the Go code computes in int64; the generated functions wrap every + - *.  The ties hold for
   heights, starts and intervals of magnitude at most 2^60 (no intermediate result leaves int64); the models of
   C05/C07 that are about overflow carry the wrap themselves. *)
From Coq Require Import ZArith List Bool String Lia.
From JK Require Import Base.Dec Base.GoSem Gen.GoWindows.
From JK Require Model.Windows Model.StorageFiles Model.Rewards Model.BeginBlock Model.Plan.
Import ListNotations.
Open Scope Z_scope.

Definition B61 : Z := 2 ^ 60.
Definition small (x : Z) : Prop := - B61 <= x <= B61.

Lemma wrap_small x : - 2 ^ 63 <= x <= 2 ^ 63 - 1 -> wrap64 x = x.
Proof. intros. apply wrap64_id. unfold int64_min, int64_max. lia. Qed.

Lemma rem_small k w : w <> 0 -> Z.abs (Z.rem k w) <= Z.abs k.
Proof.
  intros Hw. rewrite <- Z.rem_abs by assumption.
  apply Z.rem_le; lia.
Qed.

Lemma quot_small k w : w <> 0 -> Z.abs (Z.quot k w) <= Z.abs k.
Proof.
  intros Hw. rewrite <- Z.quot_abs by assumption.
  apply Z.quot_le_upper_bound; [lia|]. nia.
Qed.

(* k - k rem w is w * (k quot w): never larger in magnitude than k *)
Lemma sub_rem_small k w : w <> 0 -> Z.abs (k - Z.rem k w) <= Z.abs k.
Proof.
  intros Hw. pose proof (rem_small k w Hw) as B.
  pose proof (Z.rem_sign_mul k w Hw) as S.
  destruct (Z.eq_dec (Z.rem k w) 0) as [R|R]; [rewrite R; lia|].
  assert (0 < Z.rem k w * k) by nia. nia.
Qed.

(* ------------------------------------------------------------------ getRoundedWindow *)

Definition spec_rounded (h start w : Z) : gres Z :=
  if w =? 0 then GPanic else GVal (let k := h - start in k - Z.rem k w + start).

Lemma gen_getRoundedWindow_spec h start w :
  small h -> small start -> gen_getRoundedWindow h start w = spec_rounded h start w.
Proof.
  unfold small, B61, gen_getRoundedWindow, spec_rounded, i64rem, i64add, i64sub. intros Hh Hs.
  rewrite (wrap_small (h - start)) by lia.
  destruct (Z.eqb_spec w 0) as [E|E]; [reflexivity|]. cbn [gbind].
  pose proof (sub_rem_small (h - start) w E) as B.
  rewrite (wrap_small (h - start - Z.rem (h - start) w)) by lia.
  rewrite wrap_small by lia. reflexivity.
Qed.

Lemma spec_rounded_small h start w x :
  small h -> small start -> spec_rounded h start w = GVal x -> - 2 ^ 62 <= x <= 2 ^ 62.
Proof.
  unfold small, B61, spec_rounded. intros Hh Hs. destruct (Z.eqb_spec w 0) as [E|E]; [discriminate|].
  intros [= <-]. pose proof (sub_rem_small (h - start) w E). cbv zeta. lia.
Qed.

(* ------------------------------------------------------------------ the three predicates *)

Definition spec_proven_last (start pi h last : Z) : gres bool :=
  glet w := spec_rounded h start pi in GVal (w - pi <=? last).
Definition spec_proven_this (start pi h last : Z) : gres bool :=
  glet w := spec_rounded h start pi in GVal (w <=? last).
Definition spec_young (start pi h : Z) : bool := h <=? start + pi.

Lemma gen_ProvenLastBlock_spec start pi h last :
  small h -> small start -> small pi ->
  gen_ProvenLastBlock start pi h last = spec_proven_last start pi h last.
Proof.
  intros Hh Hs Hp. unfold gen_ProvenLastBlock, spec_proven_last.
  rewrite gen_getRoundedWindow_spec by assumption.
  destruct (spec_rounded h start pi) as [x|] eqn:E; [|reflexivity]. cbn [gbind].
  pose proof (spec_rounded_small _ _ _ _ Hh Hs E). unfold small, B61 in *.
  unfold i64sub. rewrite wrap_small by lia. reflexivity.
Qed.

Lemma gen_ProvenThisBlock_spec start pi h last :
  small h -> small start ->
  gen_ProvenThisBlock start pi h last = spec_proven_this start pi h last.
Proof.
  intros Hh Hs. unfold gen_ProvenThisBlock, spec_proven_this.
  rewrite gen_getRoundedWindow_spec by assumption. reflexivity.
Qed.

Lemma gen_IsYoung_spec start pi h :
  small start -> small pi -> gen_IsYoung start pi h = GVal (spec_young start pi h).
Proof.
  unfold small, B61, gen_IsYoung, spec_young, i64add. intros. rewrite wrap_small by lia. reflexivity.
Qed.

(* ------------------------------------------------------------------ manageProof *)

Inductive verdict := VKeep | VRemove | VBurn.

Definition verdict_events (size : Z) (v : verdict) : list gev :=
  match v with
  | VKeep => [Ev "credit" [size]]
  | VRemove => [Ev "remove-prover" []]
  | VBurn => [Ev "remove-prover" []; Ev "burn" []]
  end.

(* the decision manageProof takes, as one reads it off the Go code *)
Definition spec_verdict (start pi h : Z) (found : bool) (last : Z) : gres verdict :=
  let young := spec_young start pi h in
  if negb young && negb found then GVal VRemove
  else glet proven := spec_proven_last start pi h last in
       GVal (if negb proven && negb young then VBurn else VKeep).

Definition gmap {A B} (f : A -> B) (r : gres A) : gres B := glet a := r in GVal (f a).

Lemma gen_manageProof_spec start pi h size found last :
  small h -> small start -> small pi ->
  gen_manageProof start pi h size found last
  = gmap (verdict_events size) (spec_verdict start pi h found last).
Proof.
  intros Hh Hs Hp. unfold gen_manageProof, spec_verdict, gmap.
  rewrite !gen_IsYoung_spec by assumption. cbn [gbind].
  rewrite !gen_ProvenLastBlock_spec by assumption.
  destruct (spec_young start pi h), found; cbn [negb andb gbind];
    destruct (spec_proven_last start pi h last) as [[|]|]; reflexivity.
Qed.

(* ------------------------------------------------------------------ removeFileIfDeserved, RunRewardBlock *)

Lemma gen_removeFileIfDeserved_spec start pi h n :
  small start -> small pi ->
  gen_removeFileIfDeserved start pi h n
  = GVal (if (n =? 0) && negb (spec_young start pi h) then [Ev "remove-file" []] else []).
Proof.
  intros Hs Hp. unfold gen_removeFileIfDeserved. rewrite gen_IsYoung_spec by assumption.
  destruct (n =? 0), (spec_young start pi h); reflexivity.
Qed.

Lemma gen_RunRewardBlock_spec cw h :
  gen_RunRewardBlock cw h
  = if cw =? 0 then GPanic
    else GVal (if 0 <? Z.rem h cw then [] else [Ev "manage-rewards" []]).
Proof.
  unfold gen_RunRewardBlock, i64rem. destruct (cw =? 0); [reflexivity|]. cbn [gbind].
  destruct (0 <? Z.rem h cw); reflexivity.
Qed.

(* ------------------------------------------------------------------ ResetChunkWithProof *)

Lemma gen_ResetChunkWithProof_spec size chunk draw :
  int64_min < size <= int64_max ->
  gen_ResetChunkWithProof size chunk draw
  = if chunk =? 0 then GPanic
    else let p := Z.quot size chunk in
         let p := if Z.rem size chunk =? 0 then p - 1 else p in
         GVal ([Ev "set-challenge" [if 0 <? p then draw else 0]], true).
Proof.
  unfold int64_min, int64_max. intros Hs. unfold gen_ResetChunkWithProof, i64quo, i64rem, i64sub.
  destruct (Z.eqb_spec chunk 0) as [E|E]; [reflexivity|]. cbn [gbind].
  pose proof (quot_small size chunk E).
  rewrite (wrap_small (Z.quot size chunk)) by lia.
  destruct (Z.rem size chunk =? 0); cbn [gbind].
  - rewrite wrap_small by lia. destruct (0 <? Z.quot size chunk - 1); reflexivity.
  - destruct (0 <? Z.quot size chunk); reflexivity.
Qed.

(* ================================================================== the models *)

(* ---------- Model/Windows.v (C02) ---------- *)
Module W := Model.Windows.

Definition of_res {A} (r : W.res A) : gres A := match r with W.Val a => GVal a | W.Panic => GPanic end.

Lemma windows_rounded h start w : of_res (W.rounded_window h start w) = spec_rounded h start w.
Proof. unfold W.rounded_window, spec_rounded. destruct (w =? 0); reflexivity. Qed.

Lemma geb_leb a b : (a >=? b) = (b <=? a).
Proof. apply Z.geb_leb. Qed.

Lemma windows_proven_last start pi h last :
  of_res (W.proven_last_block start pi h last) = spec_proven_last start pi h last.
Proof.
  unfold W.proven_last_block, spec_proven_last. rewrite <- windows_rounded.
  destruct (W.rounded_window h start pi); cbn; [rewrite geb_leb|]; reflexivity.
Qed.

Lemma windows_proven_this start pi h last :
  of_res (W.proven_this_block start pi h last) = spec_proven_this start pi h last.
Proof.
  unfold W.proven_this_block, spec_proven_this. rewrite <- windows_rounded.
  destruct (W.rounded_window h start pi); cbn; [rewrite geb_leb|]; reflexivity.
Qed.

Lemma windows_young start pi h : W.is_young start pi h = spec_young start pi h.
Proof. unfold W.is_young, spec_young. apply geb_leb. Qed.

Definition of_decision (d : W.decision) : verdict :=
  match d with W.Keep => VKeep | W.Remove => VRemove | W.Burn => VBurn end.

Lemma windows_manage_proof start pi h found last :
  gmap of_decision (of_res (W.manage_proof start pi h found last))
  = spec_verdict start pi h found (if found then last else 0).
Proof.
  unfold W.manage_proof, spec_verdict. rewrite windows_young.
  destruct (negb (spec_young start pi h) && negb found) eqn:C; [reflexivity|].
  rewrite <- windows_proven_last.
  destruct (W.proven_last_block start pi h (if found then last else 0)) as [p|]; [|reflexivity].
  cbn. destruct (negb p && negb (spec_young start pi h)); reflexivity.
Qed.

Lemma windows_reward_runs cw h :
  gen_RunRewardBlock cw h
  = gmap (fun b : bool => if b then [Ev "manage-rewards" []] else []) (of_res (W.reward_runs cw h)).
Proof.
  rewrite gen_RunRewardBlock_spec. unfold W.reward_runs. destruct (cw =? 0); [reflexivity|].
  cbn. rewrite Z.gtb_ltb. destruct (0 <? Z.rem h cw); reflexivity.
Qed.

Lemma windows_reset_chunk size chunk draw :
  int64_min < size <= int64_max ->
  gen_ResetChunkWithProof size chunk draw
  = gmap (fun c => ([Ev "set-challenge" [c]], true)) (of_res (W.reset_chunk size chunk (fun _ => draw))).
Proof.
  intros Hs. rewrite gen_ResetChunkWithProof_spec by assumption.
  unfold W.reset_chunk, W.pieces. destruct (chunk =? 0); [reflexivity|].
  cbn. rewrite Z.gtb_ltb. reflexivity.
Qed.

(* ---------- Model/StorageFiles.v (C01, C17) ---------- *)
Module SF := Model.StorageFiles.

Lemma storagefiles_young f h :
  SF.is_young f h = spec_young (SF.f_start f) (SF.f_interval f) h.
Proof. unfold SF.is_young, spec_young. apply geb_leb. Qed.

Lemma storagefiles_proven_last f h last :
  SF.f_interval f <> 0 ->
  spec_proven_last (SF.f_start f) (SF.f_interval f) h last = GVal (SF.proven_last_block f h last).
Proof.
  intros Hi. unfold spec_proven_last, spec_rounded, SF.proven_last_block, SF.rounded_window.
  destruct (Z.eqb_spec (SF.f_interval f) 0); [contradiction|]. cbn. rewrite geb_leb. reflexivity.
Qed.

(* ---------- Model/Rewards.v (C03) ---------- *)
Module RW := Model.Rewards.

Lemma rewards_young f h : RW.is_young f h = spec_young (RW.f_start f) (RW.f_interval f) h.
Proof. reflexivity. Qed.

Lemma rewards_proven_last f h last :
  RW.f_interval f <> 0 ->
  spec_proven_last (RW.f_start f) (RW.f_interval f) h last = GVal (RW.proven_last f h last).
Proof.
  intros Hi. unfold spec_proven_last, spec_rounded, RW.proven_last, RW.rounded_window.
  destruct (Z.eqb_spec (RW.f_interval f) 0); [contradiction|]. reflexivity.
Qed.

(* ---------- Model/BeginBlock.v (C05) ---------- *)
Module BB := Model.BeginBlock.

Definition of_slot_verdict (v : BB.slot_verdict) : verdict :=
  match v with BB.Keep => VKeep | BB.Remove => VRemove | BB.RemoveBurn => VBurn end.
Definition of_outcome {A} (o : BB.outcome A) : gres A := match o with BB.Done a => GVal a | BB.Panic => GPanic end.

Lemma beginblock_manage_slot f h found last :
  gmap of_slot_verdict (of_outcome (BB.manage_slot f h found last))
  = spec_verdict (BB.bf_start f) (BB.bf_interval f) h found (if found then last else 0).
Proof.
  unfold BB.manage_slot, spec_verdict, BB.is_young. fold (spec_young (BB.bf_start f) (BB.bf_interval f) h).
  unfold spec_proven_last, spec_rounded, BB.rounded_window.
  destruct (spec_young (BB.bf_start f) (BB.bf_interval f) h), found; cbn [negb andb];
    try reflexivity; destruct (BB.bf_interval f =? 0); try reflexivity; cbn;
    match goal with |- context [negb ?b] => destruct b end; reflexivity.
Qed.

Lemma beginblock_young f h : BB.is_young f h = spec_young (BB.bf_start f) (BB.bf_interval f) h.
Proof. reflexivity. Qed.

(* ---------- the walks of the two reward-block models follow the verdict ---------- *)

(* Model/StorageFiles.v: manageProof on the walk of one file *)
Definition sf_found (s : SF.sstate) (key : SF.pkey) : bool :=
  match SF.get_proof s key with Some _ => true | None => false end.
Definition sf_last (s : SF.sstate) (key : SF.pkey) : Z :=
  match SF.get_proof s key with Some p => SF.p_last p | None => 0 end.
Definition sf_who (s : SF.sstate) (key : SF.pkey) : N :=
  match SF.get_proof s key with Some p => SF.p_prover p | None => 0%N end.

Lemma storagefiles_manage_proof h w key :
  SF.manage_proof h w key
  = let s := SF.w_state w in let f := SF.w_file w in
    match spec_verdict (SF.f_start f) (SF.f_interval f) h (sf_found s key) (sf_last s key) with
    | GPanic => None
    | GVal VRemove =>
        match SF.remove_prover_with_key s f key with
        | None => None
        | Some (s', f') => Some {| SF.w_state := s'; SF.w_file := f'; SF.w_credits := SF.w_credits w |}
        end
    | GVal VBurn =>
        match SF.remove_prover_with_key s f key with
        | None => None
        | Some (s', f') =>
            Some {| SF.w_state := SF.burn_contract s' (SF.pk_prover key); SF.w_file := f'; SF.w_credits := SF.w_credits w |}
        end
    | GVal VKeep =>
        Some {| SF.w_state := s; SF.w_file := f; SF.w_credits := (sf_who s key, SF.fk1 f) :: SF.w_credits w |}
    end.
Proof.
  unfold SF.manage_proof, spec_verdict, sf_found, sf_last, sf_who. cbv zeta.
  rewrite storagefiles_young.
  destruct (SF.get_proof (SF.w_state w) key) as [p|];
    destruct (spec_young (SF.f_start (SF.w_file w)) (SF.f_interval (SF.w_file w)) h); cbn [negb andb];
    try reflexivity;
    (destruct (Z.eqb_spec (SF.f_interval (SF.w_file w)) 0) as [E|E];
     [ unfold spec_proven_last, spec_rounded; rewrite E; reflexivity
     | rewrite storagefiles_proven_last by assumption; cbn [gbind];
       match goal with |- context [negb ?b] => destruct b end; reflexivity ]).
Qed.

(* Model/Rewards.v: manageProof on one file with its records *)
Definition rw_found (f : RW.file) (k : N) : bool :=
  match Base.AList.aget N.eqb (RW.f_recs f) k with Some _ => true | None => false end.
Definition rw_last (f : RW.file) (k : N) : Z :=
  match Base.AList.aget N.eqb (RW.f_recs f) k with Some p => RW.pr_last p | None => 0 end.
Definition rw_prover (f : RW.file) (k : N) : N :=
  match Base.AList.aget N.eqb (RW.f_recs f) k with Some p => RW.pr_prover p | None => 0%N end.

Lemma rewards_visit h s k :
  RW.visit h s k
  = let f := RW.ms_file s in
    match spec_verdict (RW.f_start f) (RW.f_interval f) h (rw_found f k) (rw_last f k) with
    | GPanic => RW.Panic
    | GVal VRemove =>
        RW.obind (RW.remove_prover f k)
          (fun f' => RW.Ok {| RW.ms_file := f'; RW.ms_tr := RW.ms_tr s; RW.ms_burn := RW.ms_burn s |})
    | GVal VBurn =>
        RW.obind (RW.remove_prover f k)
          (fun f' => RW.Ok {| RW.ms_file := f'; RW.ms_tr := RW.ms_tr s; RW.ms_burn := RW.burn_contract (RW.ms_burn s) k |})
    | GVal VKeep =>
        RW.Ok {| RW.ms_file := f;
                 RW.ms_tr := Base.AList.aset N.eqb (RW.ms_tr s) (rw_prover f k)
                               (wrap64 (Base.AList.aval N.eqb (RW.ms_tr s) (rw_prover f k) + RW.f_size f));
                 RW.ms_burn := RW.ms_burn s |}
    end.
Proof.
  unfold RW.visit, spec_verdict, rw_found, rw_last, rw_prover. cbv zeta.
  rewrite rewards_young.
  destruct (Base.AList.aget N.eqb (RW.f_recs (RW.ms_file s)) k) as [p|];
    destruct (spec_young (RW.f_start (RW.ms_file s)) (RW.f_interval (RW.ms_file s)) h); cbn [negb andb];
    try reflexivity;
    (destruct (Z.eqb_spec (RW.f_interval (RW.ms_file s)) 0) as [E|E];
     [ unfold spec_proven_last, spec_rounded; rewrite E; reflexivity
     | rewrite rewards_proven_last by assumption; cbn [gbind];
       match goal with |- context [negb ?b] => destruct b end; reflexivity ]).
Qed.

(* ---------- Model/Plan.v (C07): IsYoung with the wrap written out, no range needed ---------- *)
Module PL := Model.Plan.

Lemma plan_young start f h :
  gen_IsYoung start (PL.f_pi f) h = GVal (PL.is_young start f h).
Proof. unfold gen_IsYoung, PL.is_young, i64add. rewrite geb_leb. reflexivity. Qed.

Lemma plan_dropped h kf :
  gen_removeFileIfDeserved (PL.k_start (fst kf)) (PL.f_pi (snd kf)) h (PL.f_provers (snd kf))
  = GVal (if PL.dropped h kf then [Ev "remove-file" []] else []).
Proof.
  unfold gen_removeFileIfDeserved, PL.dropped. rewrite plan_young.
  destruct (PL.f_provers (snd kf) =? 0), (PL.is_young (PL.k_start (fst kf)) (snd kf) h); reflexivity.
Qed.
