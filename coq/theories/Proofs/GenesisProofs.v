(* Generic round-trip theorems for the genesis model (C19): no reference to the generated table. *)
From Coq Require Import String List Bool Arith Lia.
From JK Require Import Base.AList.
From JK Require Import Model.Genesis.
Import ListNotations.
Open Scope string_scope.
Open Scope list_scope.

Lemma kid_eqb_spec : forall a b : kid, kid_eqb a b = true <-> a = b.
Proof.
  intros [a1 a2] [b1 b2]. unfold kid_eqb; cbn. rewrite andb_true_iff, !String.eqb_eq.
  split; [intros [-> ->]; reflexivity | intros E; inversion E; auto].
Qed.

Lemma string_eqb_spec : forall a b : string, String.eqb a b = true <-> a = b.
Proof. intros; apply String.eqb_eq. Qed.

Lemma kmem_In k l : kmem k l = true <-> In k l.
Proof.
  unfold kmem. rewrite existsb_exists. split.
  - intros [x [H E]]. apply kid_eqb_spec in E. subst. exact H.
  - intros H. exists k. split; [exact H | apply kid_eqb_spec; reflexivity].
Qed.

Lemma knodup_NoDup l : knodup l = true -> NoDup l.
Proof.
  induction l as [|k r IH]; cbn; intros H; [constructor|].
  apply andb_true_iff in H as [H1 H2]. constructor; [|apply IH; exact H2].
  intros C. apply kmem_In in C. rewrite C in H1. discriminate.
Qed.

Lemma snodup_NoDup l : snodup l = true -> NoDup l.
Proof.
  induction l as [|k r IH]; cbn; intros H; [constructor|].
  apply andb_true_iff in H as [H1 H2]. constructor; [|apply IH; exact H2].
  intros C. assert (mem k r = true) as M.
  { unfold mem. apply existsb_exists. exists k. split; [exact C | apply String.eqb_refl]. }
  rewrite M in H1. discriminate.
Qed.

Lemma spec_ok_NoDup spec : spec_ok spec = true -> NoDup (all_kids spec) /\ NoDup (map k_field spec).
Proof.
  unfold spec_ok. intros H. apply andb_true_iff in H as [H1 H2].
  split; [apply knodup_NoDup; exact H1 | apply snodup_NoDup; exact H2].
Qed.

Lemma nodup_app_disj {A} (a b : list A) x : NoDup (a ++ b) -> In x a -> In x b -> False.
Proof.
  induction a as [|y r IH]; cbn; intros ND Ha Hb; [destruct Ha|].
  inversion ND as [|? ? Hn Hr]; subst. destruct Ha as [E|Ha].
  - subst. apply Hn. apply in_or_app. right. exact Hb.
  - exact (IH Hr Ha Hb).
Qed.

Lemma nodup_app_l {A} (a b : list A) : NoDup (a ++ b) -> NoDup a.
Proof.
  induction a as [|y r IH]; cbn; intros ND; [constructor|].
  inversion ND as [|? ? Hn Hr]; subst. constructor; [|apply IH; exact Hr].
  intros C. apply Hn. apply in_or_app. left. exact C.
Qed.

Lemma nodup_app_r {A} (a b : list A) : NoDup (a ++ b) -> NoDup b.
Proof.
  induction a as [|y r IH]; cbn; intros ND; [exact ND|].
  inversion ND; subst. apply IH. assumption.
Qed.

(* ------------------------------------------------------------------ association-list facts *)
Section AL.
  Context {K V : Type}.
  Variable eqb : K -> K -> bool.
  Hypothesis eqb_spec : forall a b, eqb a b = true <-> a = b.

  Lemma aset_notin (l : list (K * V)) k v : ~ In k (akeys l) -> aset eqb l k v = l ++ [(k, v)].
  Proof.
    induction l as [|[k' v'] r IH]; cbn; intros N; [reflexivity|].
    destruct (eqb k k') eqn:E.
    - apply eqb_spec in E. subst. exfalso. apply N. left. reflexivity.
    - rewrite IH; [reflexivity | intros C; apply N; right; exact C].
  Qed.

  Lemma In_aset (l : list (K * V)) k v a b : In (a, b) (aset eqb l k v) -> (a = k /\ b = v) \/ In (a, b) l.
  Proof.
    induction l as [|[k' v'] r IH]; cbn.
    - intros [E|[]]. inversion E. left. auto.
    - destruct (eqb k k') eqn:E; cbn.
      + intros [H|H]; [inversion H; left; auto | right; right; exact H].
      + intros [H|H]; [right; left; exact H | destruct (IH H) as [?|?]; [left; assumption | right; right; assumption]].
  Qed.

  Lemma In_adel (l : list (K * V)) k a b : In (a, b) (adel eqb l k) -> In (a, b) l.
  Proof.
    induction l as [|[k' v'] r IH]; cbn; [intros []|].
    destruct (eqb k k'); cbn; [intros H; right; apply IH; exact H|].
    intros [H|H]; [left; exact H | right; apply IH; exact H].
  Qed.

  Lemma aget_In (l : list (K * V)) k v : aget eqb l k = Some v -> In (k, v) l.
  Proof.
    induction l as [|[k' v'] r IH]; cbn; [discriminate|].
    destruct (eqb k k') eqn:E.
    - apply eqb_spec in E. subst. intros H. inversion H. left. reflexivity.
    - intros H. right. apply IH. exact H.
  Qed.

  Lemma In_aget (l : list (K * V)) k v : NoDup (akeys l) -> In (k, v) l -> aget eqb l k = Some v.
  Proof.
    induction l as [|[k' v'] r IH]; cbn; intros ND; [intros []|].
    inversion ND as [|? ? Hn Hr]; subst. intros [H|H].
    - inversion H; subst. rewrite (proj2 (eqb_spec k k) eq_refl). reflexivity.
    - destruct (eqb k k') eqn:E.
      + apply eqb_spec in E. subst. exfalso. apply Hn. change (In (fst (k', v)) (map fst r)). apply in_map. exact H.
      + apply IH; assumption.
  Qed.

  (* importing a duplicate-free list into an association list whose keys are fresh *)
  Lemma fold_aset_fresh (key : V -> K) vals : forall acc,
    NoDup (map key vals) -> (forall v, In v vals -> ~ In (key v) (akeys acc)) ->
    fold_left (fun l v => aset eqb l (key v) v) vals acc = acc ++ map (fun v => (key v, v)) vals.
  Proof.
    induction vals as [|v r IH]; cbn; intros acc ND F; [rewrite app_nil_r; reflexivity|].
    inversion ND as [|? ? Hn Hr]; subst.
    rewrite aset_notin by (apply F; left; reflexivity).
    rewrite IH; [rewrite <- app_assoc; reflexivity | exact Hr |].
    intros x Hx C. unfold akeys in C. rewrite map_app in C. apply in_app_or in C as [C|C].
    - apply (F x); [right; exact Hx | exact C].
    - cbn in C. destruct C as [C|[]]. apply Hn. rewrite C. apply in_map. exact Hx.
  Qed.

  Lemma rekey (key : V -> K) (P : list (K * V)) :
    (forall k v, In (k, v) P -> k = key v) -> map (fun v => (key v, v)) (map snd P) = P.
  Proof.
    induction P as [|[k v] r IH]; cbn; intros H; [reflexivity|].
    rewrite IH by (intros; apply H; right; assumption).
    rewrite <- (H k v) by (left; reflexivity). reflexivity.
  Qed.

  Lemma keys_of_keyed (key : V -> K) (P : list (K * V)) :
    (forall k v, In (k, v) P -> k = key v) -> map key (map snd P) = akeys P.
  Proof.
    induction P as [|[k v] r IH]; cbn; intros H; [reflexivity|].
    rewrite IH by (intros; apply H; right; assumption).
    rewrite <- (H k v) by (left; reflexivity). reflexivity.
  Qed.

  Lemma aget_rekeyed_in (key : V -> K) vals v :
    NoDup (map key vals) -> In v vals -> aget eqb (map (fun v => (key v, v)) vals) (key v) = Some v.
  Proof.
    intros ND H. apply In_aget.
    - unfold akeys. rewrite map_map. cbn. exact ND.
    - apply in_map_iff. exists v. auto.
  Qed.

  Lemma nodup_transfer (f g : V -> K) vals :
    (forall a b, g a = g b -> f a = f b) -> NoDup (map f vals) -> NoDup (map g vals).
  Proof.
    intros E. induction vals as [|v r IH]; cbn; intros ND; [constructor|].
    inversion ND as [|? ? Hn Hr]; subst. constructor; [|apply IH; exact Hr].
    intros C. apply in_map_iff in C as [x [Hx Ix]]. apply Hn. rewrite <- (E x v Hx). apply in_map. exact Ix.
  Qed.
End AL.

(* ------------------------------------------------------------------ stores *)
Section Store.
  Variables K V : Type.
  Variable Keqb : K -> K -> bool.
  Hypothesis Keqb_spec : forall a b, Keqb a b = true <-> a = b.
  Variable keyf : string -> V -> K.

  Notation store := (store K V).
  Notation sget := (@sget K V).
  Notation lookup := (lookup K V Keqb).

  Definition upd (s : store) (k : kid) (f : kvs K V -> kvs K V) : store := aset kid_eqb s k (f (sget s k)).

  Lemma sget_upd_same s k f : sget (upd s k f) k = f (sget s k).
  Proof. unfold upd, Genesis.sget at 1. rewrite (aget_aset_same kid_eqb kid_eqb_spec). reflexivity. Qed.

  Lemma sget_upd_other s k k' f : k' <> k -> sget (upd s k f) k' = sget s k'.
  Proof. intros N. unfold upd, Genesis.sget at 1. rewrite (aget_aset_other kid_eqb kid_eqb_spec) by exact N. reflexivity. Qed.

  (* a fold of updates over a target list *)
  Lemma fold_upd_other (F : kid * string -> kvs K V -> kvs K V) ts : forall s k,
    ~ In k (map fst ts) -> sget (fold_left (fun s t => upd s (fst t) (F t)) ts s) k = sget s k.
  Proof.
    induction ts as [|t r IH]; cbn; intros s k N; [reflexivity|].
    rewrite IH by (intros C; apply N; right; exact C).
    apply sget_upd_other. intros E. apply N. left. symmetry. exact E.
  Qed.

  Lemma fold_upd_in (F : kid * string -> kvs K V -> kvs K V) ts : forall s k kf,
    NoDup (map fst ts) -> In (k, kf) ts ->
    sget (fold_left (fun s t => upd s (fst t) (F t)) ts s) k = F (k, kf) (sget s k).
  Proof.
    induction ts as [|t r IH]; cbn; intros s k kf ND H; [destruct H|].
    inversion ND as [|? ? Hn Hr]; subst. destruct H as [H|H].
    - subst t. cbn in *. rewrite fold_upd_other by exact Hn. apply sget_upd_same.
    - rewrite (IH _ k kf Hr H). rewrite sget_upd_other; [reflexivity|].
      intros E. apply Hn. rewrite <- E. change (In (fst (k, kf)) (map fst r)). apply in_map. exact H.
  Qed.

  Definition Fset (v : V) (t : kid * string) (l : kvs K V) : kvs K V := aset Keqb l (keyf (snd t) v) v.
  Definition Fdel (v : V) (t : kid * string) (l : kvs K V) : kvs K V := adel Keqb l (keyf (snd t) v).

  Lemma apply_set_eq ks s v : apply_set K V Keqb keyf ks s v = fold_left (fun s t => upd s (fst t) (Fset v t)) (targets ks) s.
  Proof. reflexivity. Qed.
  Lemma apply_del_eq ks s v : apply_del K V Keqb keyf ks s v = fold_left (fun s t => upd s (fst t) (Fdel v t)) (targets ks) s.
  Proof. reflexivity. Qed.

  (* the setter over a list of values *)
  Lemma fold_set_other ks vals : forall s k, ~ In k (map fst (targets ks)) ->
    sget (fold_left (apply_set K V Keqb keyf ks) vals s) k = sget s k.
  Proof.
    induction vals as [|v r IH]; cbn [fold_left]; intros s k N; [reflexivity|].
    rewrite IH by exact N. rewrite apply_set_eq. apply fold_upd_other. exact N.
  Qed.

  Lemma fold_set_in ks vals : forall s k kf, NoDup (map fst (targets ks)) -> In (k, kf) (targets ks) ->
    sget (fold_left (apply_set K V Keqb keyf ks) vals s) k = fold_left (fun l v => aset Keqb l (keyf kf v) v) vals (sget s k).
  Proof.
    induction vals as [|v r IH]; cbn [fold_left]; intros s k kf ND H; [reflexivity|].
    rewrite (IH _ k kf ND H). rewrite apply_set_eq. rewrite (fold_upd_in _ _ _ k kf ND H). reflexivity.
  Qed.

  Lemma all_kids_cons ks spec : all_kids (ks :: spec) = map fst (targets ks) ++ all_kids spec.
  Proof. reflexivity. Qed.

  Lemma in_all_kids spec ks k kf : In ks spec -> In (k, kf) (targets ks) -> In k (all_kids spec).
  Proof.
    intros H T. unfold all_kids. apply in_flat_map. exists ks. split; [exact H|].
    change (In (fst (k, kf)) (map fst (targets ks))). apply in_map. exact T.
  Qed.

  (* InitGenesis, kind by kind *)
  Lemma import_other spec g : forall s0 k, ~ In k (all_kids spec) -> sget (import_into K V Keqb keyf spec g s0) k = sget s0 k.
  Proof.
    unfold import_into. induction spec as [|ks r IH]; cbn [fold_left]; intros s0 k N; [reflexivity|].
    rewrite all_kids_cons in N. rewrite IH by (intros C; apply N; apply in_or_app; right; exact C).
    apply fold_set_other. intros C. apply N. apply in_or_app. left. exact C.
  Qed.

  Lemma import_in spec g : forall s0 ks k kf, NoDup (all_kids spec) -> In ks spec -> In (k, kf) (targets ks) ->
    sget (import_into K V Keqb keyf spec g s0) k =
    fold_left (fun l v => aset Keqb l (keyf kf v) v) (gget V g (k_field ks)) (sget s0 k).
  Proof.
    unfold import_into. induction spec as [|ks0 r IH]; cbn [fold_left]; intros s0 ks k kf ND H T; [destruct H|].
    rewrite all_kids_cons in ND.
    assert (NoDup (map fst (targets ks0))) as ND0 by (eapply nodup_app_l; exact ND).
    assert (NoDup (all_kids r)) as NDr by (eapply nodup_app_r; exact ND).
    destruct H as [H|H].
    - subst ks0.
      assert (~ In k (all_kids r)) as Nr.
      { intros C. apply (nodup_app_disj _ _ k ND); [|exact C].
        change (In (fst (k, kf)) (map fst (targets ks))). apply in_map. exact T. }
      pose proof (import_other r g) as IO. unfold import_into in IO. rewrite IO by exact Nr.
      apply fold_set_in; assumption.
    - rewrite (IH _ ks k kf NDr H T). f_equal. apply fold_set_other.
      intros C. apply (nodup_app_disj _ _ k ND); [exact C|].
      eapply in_all_kids; eassumption.
  Qed.
End Store.

(* ------------------------------------------------------------------ the round trip *)
Section RoundTrip.
  Variables K V : Type.
  Variable Keqb : K -> K -> bool.
  Hypothesis Keqb_spec : forall a b, Keqb a b = true <-> a = b.
  Variable keyf : string -> V -> K.

  Notation store := (store K V).
  Notation sget := (@sget K V).
  Notation lookup := (lookup K V Keqb).
  Notation export := (export K V).
  Notation import := (import K V Keqb keyf).
  Notation step := (step K V Keqb keyf).
  Notation run := (run K V Keqb keyf).
  Notation store_eq := (store_eq K V Keqb).

  (* what the keepers maintain for one genesis-listed kind: the primary records are keyed by the key function
     of the value, and every secondary index holds exactly the primary records, keyed by its own function *)
  Definition inv_k (ks : kspec) (s : store) : Prop :=
    let P := sget s (k_primary ks) in
    NoDup (akeys P) /\
    (forall key v, In (key, v) P -> key = keyf (k_keyfn ks) v) /\
    forall kd kf, In (kd, kf) (k_mirrors ks) ->
      (forall key v, lookup s kd key = Some v -> key = keyf kf v /\ lookup s (k_primary ks) (keyf (k_keyfn ks) v) = Some v) /\
      (forall v, lookup s (k_primary ks) (keyf (k_keyfn ks) v) = Some v -> lookup s kd (keyf kf v) = Some v).

  (* the store invariant: nothing outside the listed kinds, and every listed kind well keyed *)
  Definition store_inv (spec : list kspec) (s : store) : Prop :=
    (forall k, ~ In k (all_kids spec) -> sget s k = []) /\ forall ks, In ks spec -> inv_k ks s.

  (* two key functions of the same index fields identify the same records *)
  Definition mirrors_equiv (spec : list kspec) : Prop :=
    forall ks kd kf, In ks spec -> In (kd, kf) (k_mirrors ks) ->
      forall a b, keyf kf a = keyf kf b <-> keyf (k_keyfn ks) a = keyf (k_keyfn ks) b.

  Lemma gget_export spec s : forall ks, NoDup (map k_field spec) -> In ks spec ->
    gget V (export spec s) (k_field ks) = map snd (sget s (k_primary ks)).
  Proof.
    induction spec as [|k0 r IH]; cbn; intros ks ND H; [destruct H|].
    inversion ND as [|? ? Hn Hr]; subst. unfold gget. cbn.
    destruct (String.eqb (k_field ks) (k_field k0)) eqn:E.
    - destruct H as [H|H]; [subst; reflexivity|].
      apply String.eqb_eq in E. exfalso. apply Hn. rewrite <- E. apply in_map. exact H.
    - destruct H as [H|H]; [subst; rewrite String.eqb_refl in E; discriminate|].
      apply (IH ks Hr H).
  Qed.

  Lemma sget_nil k : sget [] k = [].
  Proof. reflexivity. Qed.

  (* the primary records come back literally, in the same order *)
  Lemma import_export_primary spec s ks :
    spec_ok spec = true -> store_inv spec s -> In ks spec ->
    sget (import spec (export spec s)) (k_primary ks) = sget s (k_primary ks).
  Proof.
    intros OK [_ INV] H. destruct (spec_ok_NoDup _ OK) as [NDk NDf].
    destruct (INV ks H) as [ND [KEYED _]].
    unfold Genesis.import.
    rewrite (import_in K V Keqb keyf spec _ [] ks (k_primary ks) (k_keyfn ks) NDk H) by (left; reflexivity).
    rewrite gget_export by assumption. rewrite sget_nil.
    rewrite (fold_aset_fresh Keqb Keqb_spec).
    - cbn. apply rekey. exact KEYED.
    - rewrite keys_of_keyed by exact KEYED. exact ND.
    - intros v _ C. destruct C.
  Qed.

  (* roundtrip_generic: import (export s) = s as finite maps *)
  Theorem roundtrip_generic spec s :
    spec_ok spec = true -> mirrors_equiv spec -> store_inv spec s ->
    store_eq (import spec (export spec s)) s.
  Proof.
    intros OK EQV SI k key. pose proof SI as [OUT INV]. destruct (spec_ok_NoDup _ OK) as [NDk NDf].
    unfold Genesis.lookup.
    destruct (in_dec (fun a b => match bool_dec (kid_eqb a b) true with
                                  | left e => left (proj1 (kid_eqb_spec a b) e)
                                  | right n => right (fun e => n (proj2 (kid_eqb_spec a b) e)) end) k (all_kids spec)) as [I|N].
    2:{ unfold Genesis.import. rewrite import_other by exact N. rewrite (OUT k N). reflexivity. }
    unfold all_kids in I. apply in_flat_map in I as [ks [H T]]. apply in_map_iff in T as [[k' kf] [E T]]. cbn in E. subst k'.
    destruct T as [T|T].
    - inversion T; subst. rewrite import_export_primary by assumption. reflexivity.
    - destruct (INV ks H) as [ND [KEYED MIR]]. destruct (MIR k kf T) as [M1 M2].
      unfold Genesis.import.
      rewrite (import_in K V Keqb keyf spec _ [] ks k kf NDk H) by (right; exact T).
      rewrite gget_export by assumption. rewrite sget_nil.
      set (P := sget s (k_primary ks)) in *.
      assert (NoDup (map (keyf kf) (map snd P))) as NDm.
      { apply (nodup_transfer (keyf (k_keyfn ks)) (keyf kf)).
        - intros a b E. apply (EQV ks k kf H T). exact E.
        - rewrite keys_of_keyed by exact KEYED. exact ND. }
      rewrite (fold_aset_fresh Keqb Keqb_spec) by (try exact NDm; intros v _ C; destruct C). cbn.
      fold (Genesis.lookup K V Keqb s k key).
      destruct (lookup s k key) as [v|] eqn:L.
      + destruct (M1 key v L) as [-> LP].
        apply aget_rekeyed_in; [exact Keqb_spec | exact NDm |].
        apply (aget_In Keqb Keqb_spec) in LP. change v with (snd (keyf (k_keyfn ks) v, v)). apply in_map. exact LP.
      + destruct (aget Keqb (map (fun v => (keyf kf v, v)) (map snd P)) key) as [v'|] eqn:A; [|reflexivity].
        exfalso. apply (aget_In Keqb Keqb_spec) in A. apply in_map_iff in A as [x [E Ix]]. inversion E; subst x key.
        apply in_map_iff in Ix as [[k0 x] [E2 Ix]]. cbn in E2. subst x.
        pose proof (KEYED _ _ Ix) as Ek. subst k0.
        assert (lookup s (k_primary ks) (keyf (k_keyfn ks) v') = Some v') as LP by (apply (In_aget Keqb Keqb_spec); assumption).
        rewrite (M2 v' LP) in L. discriminate.
  Qed.

  (* the second export equals the first *)
  Theorem export_idempotent spec s :
    spec_ok spec = true -> store_inv spec s -> export spec (import spec (export spec s)) = export spec s.
  Proof.
    intros OK SI. unfold Genesis.export at 1 3. apply map_ext_in. intros ks H.
    rewrite import_export_primary by assumption. reflexivity.
  Qed.

  (* export (import g) = g, field by field, for a genesis whose lists have no duplicated index (Validate) *)
  Definition valid_gen (spec : list kspec) (g : genesis V) : Prop :=
    forall ks, In ks spec -> NoDup (map (keyf (k_keyfn ks)) (gget V g (k_field ks))).

  Theorem export_import spec g ks :
    spec_ok spec = true -> valid_gen spec g -> In ks spec ->
    gget V (export spec (import spec g)) (k_field ks) = gget V g (k_field ks).
  Proof.
    intros OK VG H. destruct (spec_ok_NoDup _ OK) as [NDk NDf].
    rewrite gget_export by assumption. unfold Genesis.import.
    rewrite (import_in K V Keqb keyf spec _ [] ks (k_primary ks) (k_keyfn ks) NDk H) by (left; reflexivity).
    rewrite sget_nil. rewrite (fold_aset_fresh Keqb Keqb_spec) by (try (apply VG; exact H); intros v _ C; destruct C).
    cbn. rewrite map_map. cbn. apply map_id.
  Qed.

  (* ---------------------------------------------------------------- the invariant over histories *)

  Lemma inv_init spec : store_inv spec [].
  Proof.
    split; [reflexivity|]. intros ks _. repeat split; cbn; try constructor; try (intros; contradiction); intros; discriminate.
  Qed.

  Lemma find_spec_In spec f ks : find_spec spec f = Some ks -> In ks spec /\ k_field ks = f.
  Proof.
    unfold find_spec. intros H. pose proof (find_some _ _ H) as [I E]. apply String.eqb_eq in E. auto.
  Qed.

  (* an update through the targets of one kind leaves the other kinds alone *)
  Lemma inv_k_frame ks s s' :
    (forall k, In k (map fst (targets ks)) -> sget s' k = sget s k) -> inv_k ks s -> inv_k ks s'.
  Proof.
    intros SAME [ND [KEYED MIR]].
    assert (sget s' (k_primary ks) = sget s (k_primary ks)) as EP by (apply SAME; left; reflexivity).
    unfold inv_k, Genesis.lookup. rewrite EP. split; [exact ND|]. split; [exact KEYED|].
    intros kd kf T. assert (sget s' kd = sget s kd) as EM.
    { apply SAME. right. change (In (fst (kd, kf)) (map fst (k_mirrors ks))). apply in_map. exact T. }
    rewrite EM. exact (MIR kd kf T).
  Qed.

  Lemma other_kind_untouched spec ks ks' k :
    NoDup (all_kids spec) -> In ks spec -> In ks' spec -> ks <> ks' ->
    In k (map fst (targets ks')) -> ~ In k (map fst (targets ks)).
  Proof.
    intros ND. induction spec as [|k0 r IH]; intros H H' NE I C; [destruct H|].
    rewrite all_kids_cons in ND.
    assert (forall x kk, In x r -> In kk (map fst (targets x)) -> In kk (all_kids r)) as INR.
    { intros x kk Hx Hk. unfold all_kids. apply in_flat_map. exists x. auto. }
    destruct H as [H|H], H' as [H'|H'].
    - subst. apply NE. reflexivity.
    - subst k0. apply (nodup_app_disj _ _ k ND C). eapply INR; eassumption.
    - subst k0. apply (nodup_app_disj _ _ k ND I). eapply INR; eassumption.
    - apply (IH (nodup_app_r _ _ ND) H H' NE I C).
  Qed.

  Section OneKind.
    Variable ks : kspec.
    Hypothesis NDt : NoDup (map fst (targets ks)).
    Hypothesis EQV : forall kd kf, In (kd, kf) (k_mirrors ks) ->
      forall a b, keyf kf a = keyf kf b <-> keyf (k_keyfn ks) a = keyf (k_keyfn ks) b.

    Let k0 := keyf (k_keyfn ks).

    Lemma prim_in_targets : In (k_primary ks, k_keyfn ks) (targets ks).
    Proof. left. reflexivity. Qed.
    Lemma mir_in_targets kd kf : In (kd, kf) (k_mirrors ks) -> In (kd, kf) (targets ks).
    Proof. intros H. right. exact H. Qed.

    Lemma inv_k_set s v : inv_k ks s -> inv_k ks (apply_set K V Keqb keyf ks s v).
    Proof.
      intros [ND [KEYED MIR]]. rewrite apply_set_eq.
      assert (forall kd kf, In (kd, kf) (targets ks) ->
              sget (fold_left (fun s t => upd K V s (fst t) (Fset K V Keqb keyf v t)) (targets ks) s) kd
              = aset Keqb (sget s kd) (keyf kf v) v) as W.
      { intros kd kf T. rewrite (fold_upd_in K V _ _ _ kd kf NDt T). reflexivity. }
      unfold inv_k, Genesis.lookup. rewrite (W _ _ prim_in_targets).
      split; [apply (nodup_aset Keqb Keqb_spec); exact ND|]. split.
      - intros key x I. apply In_aset in I as [[-> ->]|I]; [reflexivity | apply KEYED; exact I].
      - intros kd kf T. rewrite (W _ _ (mir_in_targets _ _ T)). destruct (MIR kd kf T) as [M1 M2]. unfold Genesis.lookup in M1, M2.
        pose proof (EQV kd kf T) as E. split.
        + intros key x L.
          destruct (Keqb key (keyf kf v)) eqn:EK.
          * apply Keqb_spec in EK. subst key. rewrite (aget_aset_same Keqb Keqb_spec) in L. inversion L; subst x.
            split; [reflexivity | apply (aget_aset_same Keqb Keqb_spec)].
          * assert (key <> keyf kf v) as NK by (intros C; subst; rewrite (proj2 (Keqb_spec _ _) eq_refl) in EK; discriminate).
            rewrite (aget_aset_other Keqb Keqb_spec) in L by exact NK.
            destruct (M1 key x L) as [-> LP]. split; [reflexivity|].
            rewrite (aget_aset_other Keqb Keqb_spec); [exact LP|].
            intros C. apply NK. apply (proj2 (E x v)). exact C.
        + intros x L.
          destruct (Keqb (keyf (k_keyfn ks) x) (keyf (k_keyfn ks) v)) eqn:EK.
          * apply Keqb_spec in EK. rewrite EK in L. rewrite (aget_aset_same Keqb Keqb_spec) in L. inversion L; subst x.
            apply (aget_aset_same Keqb Keqb_spec).
          * assert (keyf (k_keyfn ks) x <> keyf (k_keyfn ks) v) as NK by (intros C; rewrite C in EK; rewrite (proj2 (Keqb_spec _ _) eq_refl) in EK; discriminate).
            rewrite (aget_aset_other Keqb Keqb_spec) in L by exact NK.
            rewrite (aget_aset_other Keqb Keqb_spec); [apply M2; exact L|].
            intros C. apply NK. apply (proj1 (E x v)). exact C.
    Qed.

    Lemma inv_k_del s v : inv_k ks s -> inv_k ks (apply_del K V Keqb keyf ks s v).
    Proof.
      intros [ND [KEYED MIR]]. rewrite apply_del_eq.
      assert (forall kd kf, In (kd, kf) (targets ks) ->
              sget (fold_left (fun s t => upd K V s (fst t) (Fdel K V Keqb keyf v t)) (targets ks) s) kd
              = adel Keqb (sget s kd) (keyf kf v)) as W.
      { intros kd kf T. rewrite (fold_upd_in K V _ _ _ kd kf NDt T). reflexivity. }
      unfold inv_k, Genesis.lookup. rewrite (W _ _ prim_in_targets).
      split; [apply (nodup_adel Keqb Keqb_spec); exact ND|]. split.
      - intros key x I. apply In_adel in I. apply KEYED; exact I.
      - intros kd kf T. rewrite (W _ _ (mir_in_targets _ _ T)). destruct (MIR kd kf T) as [M1 M2]. unfold Genesis.lookup in M1, M2.
        pose proof (EQV kd kf T) as E. split.
        + intros key x L.
          destruct (Keqb key (keyf kf v)) eqn:EK.
          * apply Keqb_spec in EK. subst key. rewrite (aget_adel_same Keqb) in L. discriminate.
          * assert (key <> keyf kf v) as NK by (intros C; subst; rewrite (proj2 (Keqb_spec _ _) eq_refl) in EK; discriminate).
            rewrite (aget_adel_other Keqb Keqb_spec) in L by exact NK.
            destruct (M1 key x L) as [-> LP]. split; [reflexivity|].
            rewrite (aget_adel_other Keqb Keqb_spec); [exact LP|].
            intros C. apply NK. apply (proj2 (E x v)). exact C.
        + intros x L.
          destruct (Keqb (keyf (k_keyfn ks) x) (keyf (k_keyfn ks) v)) eqn:EK.
          * apply Keqb_spec in EK. rewrite EK in L. rewrite (aget_adel_same Keqb) in L. discriminate.
          * assert (keyf (k_keyfn ks) x <> keyf (k_keyfn ks) v) as NK by (intros C; rewrite C in EK; rewrite (proj2 (Keqb_spec _ _) eq_refl) in EK; discriminate).
            rewrite (aget_adel_other Keqb Keqb_spec) in L by exact NK.
            rewrite (aget_adel_other Keqb Keqb_spec); [apply M2; exact L|].
            intros C. apply NK. apply (proj1 (E x v)). exact C.
    Qed.
  End OneKind.

  Lemma targets_nodup spec ks : NoDup (all_kids spec) -> In ks spec -> NoDup (map fst (targets ks)).
  Proof.
    induction spec as [|k0 r IH]; intros ND H; [destruct H|]. rewrite all_kids_cons in ND.
    destruct H as [H|H]; [subst; eapply nodup_app_l; exact ND | apply IH; [eapply nodup_app_r; exact ND | exact H]].
  Qed.

  Lemma kspec_eq_dec_by_field spec (a b : kspec) : NoDup (map k_field spec) -> In a spec -> In b spec -> k_field a = k_field b -> a = b.
  Proof.
    induction spec as [|k0 r IH]; cbn; intros ND Ha Hb E; [destruct Ha|].
    inversion ND as [|? ? Hn Hr]; subst.
    destruct Ha as [Ha|Ha], Hb as [Hb|Hb]; subst; try reflexivity.
    - exfalso. apply Hn. rewrite E. apply in_map. exact Hb.
    - exfalso. apply Hn. rewrite <- E. apply in_map. exact Ha.
    - apply IH; assumption.
  Qed.

  (* one keeper operation on a listed kind preserves the invariant *)
  Lemma inv_step spec s o :
    spec_ok spec = true -> mirrors_equiv spec -> is_raw K V o = false -> store_inv spec s -> store_inv spec (step spec s o).
  Proof.
    intros OK EQV NR [OUT INV]. destruct (spec_ok_NoDup _ OK) as [NDk NDf].
    destruct o as [f v|f v|k key v]; cbn in NR; try discriminate; cbn [Genesis.step].
    - destruct (find_spec spec f) as [ks|] eqn:F; [|split; assumption].
      apply find_spec_In in F as [H _]. split.
      + intros k N. rewrite apply_set_eq. rewrite fold_upd_other; [apply OUT; exact N|].
        intros C. apply N. unfold all_kids. apply in_flat_map. exists ks. auto.
      + intros ks' H'. destruct (string_dec (k_field ks) (k_field ks')) as [E|NE].
        * assert (ks = ks') by (eapply kspec_eq_dec_by_field; eassumption). subst ks'.
          apply inv_k_set; [eapply targets_nodup; eassumption | intros kd kf T; apply (EQV ks kd kf H T) | apply INV; exact H].
        * apply (inv_k_frame ks' s); [|apply INV; exact H'].
          intros k I. rewrite apply_set_eq. apply fold_upd_other.
          apply (other_kind_untouched spec ks ks' k NDk H H'); [intros C; subst; apply NE; reflexivity | exact I].
    - destruct (find_spec spec f) as [ks|] eqn:F; [|split; assumption].
      apply find_spec_In in F as [H _]. split.
      + intros k N. rewrite apply_del_eq. rewrite fold_upd_other; [apply OUT; exact N|].
        intros C. apply N. unfold all_kids. apply in_flat_map. exists ks. auto.
      + intros ks' H'. destruct (string_dec (k_field ks) (k_field ks')) as [E|NE].
        * assert (ks = ks') by (eapply kspec_eq_dec_by_field; eassumption). subst ks'.
          apply inv_k_del; [eapply targets_nodup; eassumption | intros kd kf T; apply (EQV ks kd kf H T) | apply INV; exact H].
        * apply (inv_k_frame ks' s); [|apply INV; exact H'].
          intros k I. rewrite apply_del_eq. apply fold_upd_other.
          apply (other_kind_untouched spec ks ks' k NDk H H'); [intros C; subst; apply NE; reflexivity | exact I].
  Qed.

  Lemma inv_run_from spec ops : forall s,
    spec_ok spec = true -> mirrors_equiv spec -> forallb (fun o => negb (is_raw K V o)) ops = true ->
    store_inv spec s -> store_inv spec (fold_left (step spec) ops s).
  Proof.
    induction ops as [|o r IH]; cbn [fold_left]; intros s OK EQV NR SI; [exact SI|].
    cbn in NR. apply andb_true_iff in NR as [N1 N2]. apply IH; try assumption.
    apply inv_step; try assumption. destruct (is_raw K V o); [discriminate | reflexivity].
  Qed.

  (* every state the keepers reach by operations on genesis-listed kinds satisfies the invariant ... *)
  Theorem inv_reachable spec ops :
    spec_ok spec = true -> mirrors_equiv spec -> forallb (fun o => negb (is_raw K V o)) ops = true ->
    store_inv spec (run spec ops).
  Proof. intros. apply inv_run_from; try assumption. apply inv_init. Qed.

  (* ... and therefore makes the round trip *)
  Theorem roundtrip_reachable spec ops :
    spec_ok spec = true -> mirrors_equiv spec -> forallb (fun o => negb (is_raw K V o)) ops = true ->
    store_eq (import spec (export spec (run spec ops))) (run spec ops) /\
    export spec (import spec (export spec (run spec ops))) = export spec (run spec ops).
  Proof.
    intros OK EQV NR. pose proof (inv_reachable spec ops OK EQV NR) as SI.
    split; [apply roundtrip_generic; assumption | apply export_idempotent; assumption].
  Qed.

  (* a record of a kind genesis does not list is lost *)
  Theorem raw_write_lost spec s k key v :
    ~ In k (all_kids spec) -> lookup (import spec (export spec (swrite K V Keqb s k key v))) k key = None /\
                              lookup (swrite K V Keqb s k key v) k key = Some v.
  Proof.
    intros N. split.
    - unfold Genesis.lookup, Genesis.import. rewrite import_other by exact N. reflexivity.
    - unfold Genesis.lookup, swrite. change (aset kid_eqb s k (aset Keqb (sget s k) key v)) with (upd K V s k (fun l => aset Keqb l key v)).
      rewrite sget_upd_same. apply (aget_aset_same Keqb Keqb_spec).
  Qed.
End RoundTrip.
