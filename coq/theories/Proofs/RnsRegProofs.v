(* Proofs about the name-registration model (property C16). *)
From Coq Require Import ZArith NArith List Bool Lia.
From JK Require Import Base.Dec Base.AList Base.Bytes Model.RnsReg.
Import ListNotations.
Open Scope Z_scope.

Lemma Neqb_spec a b : N.eqb a b = true <-> a = b.
Proof. apply N.eqb_eq. Qed.

Definition MAX : Z := 9223372036854775807.
Lemma int64_max_MAX : int64_max = MAX. Proof. reflexivity. Qed.
Lemma int64_min_MAX : int64_min = - MAX - 1. Proof. reflexivity. Qed.
Lemma bpy_val : blocks_per_year = 5484530. Proof. reflexivity. Qed.

Lemma wrap64_small x : - MAX - 1 <= x <= MAX -> wrap64 x = x.
Proof. intros H. apply wrap64_id. rewrite int64_min_MAX, int64_max_MAX. exact H. Qed.

(* ---------- the price list ---------- *)

Lemma cost_listed len t : len <> 0 -> cost_of_name len t = Some (listed_price len t).
Proof.
  intros Hl. unfold cost_of_name, listed_price, tld_cost.
  destruct (Z.eqb_spec len 0) as [E|_]; [contradiction|].
  destruct t; destruct (len =? 1); try reflexivity; destruct (len =? 2); try reflexivity;
    destruct (len =? 3); try reflexivity; destruct (len =? 4); reflexivity.
Qed.

Lemma cost_zero t : cost_of_name 0 t = None.
Proof. reflexivity. Qed.

Lemma listed_price_bounds len t : 10000000 <= listed_price len t <= 1200000000.
Proof.
  unfold listed_price. destruct t; destruct (len =? 1); try lia; destruct (len =? 2); try lia;
    destruct (len =? 3); try lia; destruct (len =? 4); lia.
Qed.

Lemma cost_some_listed len t c : cost_of_name len t = Some c -> c = listed_price len t /\ len <> 0.
Proof.
  intros H. destruct (Z.eq_dec len 0) as [->|N]; [rewrite cost_zero in H; discriminate|].
  rewrite (cost_listed len t N) in H. inversion H. split; [reflexivity | exact N].
Qed.

(* ---------- the guard on the term ---------- *)

Lemma div_le_mul c y : 0 < c -> y <= MAX / c -> c * y <= MAX.
Proof.
  intros Hc Hy. pose proof (Z.mul_div_le MAX c Hc).
  assert (c * y <= c * (MAX / c)) by (apply Z.mul_le_mono_nonneg_l; lia). lia.
Qed.

Lemma mul_le_div c y : 0 < c -> c * y <= MAX -> y <= MAX / c.
Proof.
  intros Hc Hy. apply Z.div_le_lower_bound; [exact Hc | exact Hy].
Qed.

Lemma term_accepted_iff cost years :
  term_rejected cost years = false <->
  1 <= years /\ 1 <= cost /\ years <= MAX / cost /\ years <= MAX / blocks_per_year.
Proof.
  unfold term_rejected. rewrite int64_max_MAX, !orb_false_iff, !Z.ltb_ge, !Z.gtb_ltb, !Z.ltb_ge. tauto.
Qed.

Lemma term_accepted_bounds cost years :
  term_rejected cost years = false ->
  1 <= years /\ 1 <= cost /\ 1 <= cost * years <= MAX /\ 1 <= years * blocks_per_year <= MAX.
Proof.
  intros H. apply term_accepted_iff in H. destruct H as (Hy & Hc & H1 & H2).
  pose proof (div_le_mul cost years ltac:(lia) H1).
  pose proof (div_le_mul blocks_per_year years ltac:(rewrite bpy_val; lia) H2).
  rewrite bpy_val in *. nia.
Qed.

(* for the prices of the list the second product never binds: the price bound implies the term bound *)
Lemma listed_term_accepted len t years :
  1 <= years -> years * listed_price len t <= MAX -> term_rejected (listed_price len t) years = false.
Proof.
  intros Hy Hp. pose proof (listed_price_bounds len t) as Hb. apply term_accepted_iff.
  split; [exact Hy|]. split; [lia|]. split.
  - apply mul_le_div; lia.
  - apply mul_le_div; rewrite bpy_val; [lia|]. nia.
Qed.

(* ---------- the bank ---------- *)

Lemma bal_credit b a x y : bal (credit b a x) y = bal b y + (if N.eqb y a then x else 0).
Proof.
  unfold bal, credit, aval. destruct (N.eqb y a) eqn:E.
  - apply N.eqb_eq in E; subst y. rewrite (aget_aset_same N.eqb Neqb_spec). fold (aval N.eqb b a). reflexivity.
  - rewrite (aget_aset_other N.eqb Neqb_spec) by (intros ->; rewrite N.eqb_refl in E; discriminate). lia.
Qed.

Lemma send_spec b from to x b' :
  send b from to x = Some b' ->
  x <= bal b from /\
  forall y, bal b' y = bal b y - (if N.eqb y from then x else 0) + (if N.eqb y to then x else 0).
Proof.
  unfold send. destruct (Z.leb_spec x (bal b from)) as [L|L]; [|discriminate].
  intros H. inversion H; subst b'. split; [exact L|]. intros y. rewrite !bal_credit.
  destruct (N.eqb y from); lia.
Qed.

Lemma send_some b from to x : x <= bal b from -> exists b', send b from to x = Some b'.
Proof. intros L. unfold send. destruct (Z.leb_spec x (bal b from)); [eexists; reflexivity | lia]. Qed.

Lemma akeys_credit b a x k : In k (akeys (credit b a x)) <-> k = a \/ In k (akeys b).
Proof. unfold credit. apply (akeys_aset_in N.eqb Neqb_spec). Qed.

Lemma nodup_credit b a x : NoDup (akeys b) -> NoDup (akeys (credit b a x)).
Proof. apply (nodup_aset N.eqb Neqb_spec). Qed.

(* ---------- well-formed states and inputs ---------- *)

(* stored expiries are int64 values *)
Definition wf (s : rstate) : Prop := forall idx w, lookup s idx = Some w -> n_expires w <= MAX.
(* block heights are non-negative int64 values *)
Definition valid_height (h : Z) : Prop := 0 <= h <= MAX.
(* the bank holds no negative balance *)
Definition bank_nonneg (s : rstate) : Prop := forall a, 0 <= bal (s_bank s) a.

(* ---------- the expiry branch ---------- *)

Lemma new_expiry_spec whois owner h time e :
  valid_height h -> 0 <= time <= MAX ->
  (forall w, whois = Some w -> n_expires w <= MAX) ->
  new_expiry whois owner h time = Some e ->
  e <= MAX /\
  match whois with
  | Some w => if h <? n_expires w then n_owner w = owner /\ e = n_expires w + time
              else e = h + time
  | None => e = h + time
  end.
Proof.
  intros [Hh0 Hh1] Ht Hw. unfold new_expiry. rewrite int64_max_MAX.
  assert (Fresh : (if time >? wrap64 (MAX - h) then None else Some (wrap64 (time + h))) = Some e ->
                  e <= MAX /\ e = h + time).
  { rewrite (wrap64_small (MAX - h)) by lia. rewrite Z.gtb_ltb.
    destruct (Z.ltb_spec (MAX - h) time) as [L|L]; [discriminate|].
    rewrite wrap64_small by lia. intros H; inversion H. lia. }
  destruct whois as [w|].
  - specialize (Hw w eq_refl). destruct (Z.ltb_spec h (n_expires w)) as [Live|Lapsed].
    + destruct (N.eqb_spec (n_owner w) owner) as [Eo|No]; cbn [negb]; [|discriminate].
      rewrite (wrap64_small (MAX - n_expires w)) by lia. rewrite Z.gtb_ltb.
      destruct (Z.ltb_spec (MAX - n_expires w) time) as [L|L]; [discriminate|].
      rewrite wrap64_small by lia. intros H; inversion H. lia.
    + intros H. apply Fresh in H. exact H.
  - intros H. apply Fresh in H. exact H.
Qed.

Lemma new_expiry_foreign_live w owner h time :
  h < n_expires w -> n_owner w <> owner -> new_expiry (Some w) owner h time = None.
Proof.
  intros Live No. unfold new_expiry.
  destruct (Z.ltb_spec h (n_expires w)); [|lia].
  destruct (N.eqb_spec (n_owner w) owner); [contradiction | reflexivity].
Qed.

Lemma new_expiry_some whois owner h time :
  valid_height h -> 0 <= time <= MAX ->
  (forall w, whois = Some w -> n_expires w <= MAX) ->
  match whois with
  | Some w => if h <? n_expires w then n_owner w = owner /\ n_expires w + time <= MAX else h + time <= MAX
  | None => h + time <= MAX
  end ->
  exists e, new_expiry whois owner h time = Some e.
Proof.
  intros [Hh0 Hh1] Ht Hw Hc. unfold new_expiry. rewrite int64_max_MAX.
  assert (Fresh : h + time <= MAX -> exists e,
             (if time >? wrap64 (MAX - h) then None else Some (wrap64 (time + h))) = Some e).
  { intros L. rewrite (wrap64_small (MAX - h)) by lia. rewrite Z.gtb_ltb.
    destruct (Z.ltb_spec (MAX - h) time); [lia | eexists; reflexivity]. }
  destruct whois as [w|]; [|exact (Fresh Hc)].
  specialize (Hw w eq_refl). destruct (Z.ltb_spec h (n_expires w)) as [Live|Lapsed]; [|exact (Fresh Hc)].
  destruct Hc as [Eo L]. destruct (N.eqb_spec (n_owner w) owner); [|contradiction]. cbn [negb].
  rewrite (wrap64_small (MAX - n_expires w)) by lia. rewrite Z.gtb_ltb.
  destruct (Z.ltb_spec (MAX - n_expires w) time); [lia | eexists; reflexivity].
Qed.

(* ---------- inversion of a successful registration ---------- *)

Record reg_ok (acc : accts) (s : rstate) (op : reg_op) (s' : rstate) (idx : N) (len : Z) (t : tld) (e : Z) (b1 : bank) : Prop := {
  ok_basic : o_basic_ok op = true;
  ok_parse : o_parse op = Some (idx, len, t);
  ok_len : len <> 0;
  ok_sender : o_sender_ok op = true;
  ok_years : 1 <= o_years op;
  ok_price : 1 <= o_years op * listed_price len t <= MAX;
  ok_time : 1 <= o_years op * blocks_per_year <= MAX;
  ok_exp : new_expiry (lookup s idx) (o_sender op) (o_height op) (o_years op * blocks_per_year) = Some e;
  ok_send1 : send (s_bank s) (o_sender op) (a_mod acc) (o_years op * listed_price len t) = Some b1;
  ok_send2 : send b1 (a_mod acc) (a_pol acc) (o_years op * listed_price len t) = Some (s_bank s');
  ok_names : s_names s' = aset N.eqb (s_names s) idx
               {| n_owner := o_sender op; n_expires := e; n_data := o_data op; n_locked := 0; n_subs := 0 |};
  ok_primary : s_primary s' =
               if o_primary op || negb (match aget N.eqb (s_primary s) (o_sender op) with
                                        | Some p => has_name (s_names s') p | None => false end)
               then aset N.eqb (s_primary s) (o_sender op) idx else s_primary s
}.

Lemma register_ok_inv acc s op s' :
  register acc s op = (Ok, s') -> exists idx len t e b1, reg_ok acc s op s' idx len t e b1.
Proof.
  unfold register. destruct (o_basic_ok op) eqn:Hb; cbn [negb]; [|discriminate].
  destruct (o_parse op) as [[[idx len] t]|] eqn:Hp; [|discriminate].
  destruct (is_reserved t); [discriminate|].
  destruct (cost_of_name len t) as [cost|] eqn:Hc; [|discriminate].
  apply cost_some_listed in Hc as [-> Hl].
  destruct (term_rejected (listed_price len t) (o_years op)) eqn:Hg; [discriminate|].
  apply term_accepted_bounds in Hg as (Hy & _ & Hpr & Htm).
  rewrite (wrap64_small (listed_price len t * o_years op)) by lia.
  rewrite (wrap64_small (o_years op * blocks_per_year)) by lia.
  destruct (Z.ltb_spec (listed_price len t * o_years op) 0); [discriminate|].
  destruct (o_sender_ok op) eqn:Hs; cbn [negb]; [|discriminate].
  fold (lookup s idx).
  destruct (new_expiry (lookup s idx) (o_sender op) (o_height op) (o_years op * blocks_per_year)) as [e|] eqn:He; [|discriminate].
  destruct (Z.eqb_spec (listed_price len t * o_years op) 0); [discriminate|].
  destruct (send (s_bank s) (o_sender op) (a_mod acc) (listed_price len t * o_years op)) as [b1|] eqn:S1; [|discriminate].
  destruct (send b1 (a_mod acc) (a_pol acc) (listed_price len t * o_years op)) as [b2|] eqn:S2; [|discriminate].
  intros HR. inversion HR; subst s'; clear HR. cbn [s_names s_primary s_bank].
  exists idx, len, t, e, b1.
  rewrite (Z.mul_comm (listed_price len t)) in *.
  constructor; try assumption; try reflexivity; cbn [s_bank s_names s_primary]; try lia.
Qed.

Lemma register_not_ok_noop acc s op o s' : register acc s op = (o, s') -> o <> Ok -> s' = s.
Proof.
  unfold register.
  repeat match goal with
         | |- context [match ?x with _ => _ end] => destruct x
         end; intros HR; inversion HR; subst; try reflexivity; intros C; exfalso; apply C; reflexivity.
Qed.

Lemma register_never_panics acc s op : fst (register acc s op) <> Panic.
Proof.
  unfold register. destruct (o_basic_ok op); cbn [negb]; [|discriminate].
  destruct (o_parse op) as [[[idx len] t]|]; [|discriminate].
  destruct (is_reserved t); [discriminate|].
  destruct (cost_of_name len t) as [cost|] eqn:Hc; [|discriminate].
  destruct (term_rejected cost (o_years op)) eqn:Hg; [discriminate|].
  apply term_accepted_bounds in Hg as (Hy & _ & Hpr & Htm).
  rewrite (wrap64_small (cost * o_years op)) by lia.
  destruct (Z.ltb_spec (cost * o_years op) 0); [lia|].
  repeat match goal with
         | |- context [match ?x with _ => _ end] => destruct x
         end; discriminate.
Qed.

Lemma register_fail_noop acc s op o s' : register acc s op = (o, s') -> o <> Ok -> s' = s /\ o = Fail.
Proof.
  intros R No. split; [exact (register_not_ok_noop acc s op o s' R No)|].
  pose proof (register_never_panics acc s op) as P. rewrite R in P. cbn [fst] in P.
  destruct o; [contradiction | reflexivity | contradiction].
Qed.

(* ---------- one step: balances ---------- *)

Lemma register_balances acc s op s' idx len t :
  register acc s op = (Ok, s') -> o_parse op = Some (idx, len, t) ->
  let due := o_years op * listed_price len t in
  1 <= o_years op /\ 1 <= due <= MAX /\ due <= bal (s_bank s) (o_sender op) /\
  forall y, bal (s_bank s') y =
            bal (s_bank s) y - (if N.eqb y (o_sender op) then due else 0) + (if N.eqb y (a_pol acc) then due else 0).
Proof.
  intros H Hp. apply register_ok_inv in H as (idx' & len' & t' & e & b1 & R).
  destruct R. rewrite Hp in ok_parse0. inversion ok_parse0; subst idx' len' t'. cbn zeta.
  apply send_spec in ok_send3 as [L1 B1]. apply send_spec in ok_send4 as [L2 B2].
  split; [assumption|]. split; [assumption|]. split; [assumption|].
  intros y. rewrite B2, B1. destruct (N.eqb y (a_mod acc)); lia.
Qed.

Lemma register_charges_exactly acc s op s' idx len t :
  register acc s op = (Ok, s') -> o_parse op = Some (idx, len, t) ->
  a_mod acc <> a_pol acc -> o_sender op <> a_mod acc -> o_sender op <> a_pol acc ->
  let due := o_years op * listed_price len t in
  1 <= o_years op /\ 1 <= due <= MAX /\
  bal (s_bank s') (o_sender op) = bal (s_bank s) (o_sender op) - due /\
  bal (s_bank s') (a_pol acc) = bal (s_bank s) (a_pol acc) + due /\
  bal (s_bank s') (a_mod acc) = bal (s_bank s) (a_mod acc) /\
  forall y, y <> o_sender op -> y <> a_pol acc -> bal (s_bank s') y = bal (s_bank s) y.
Proof.
  intros H Hp Nmp Nsm Nsp. destruct (register_balances acc s op s' idx len t H Hp) as (Hy & Hd & _ & B).
  cbn zeta in *. split; [exact Hy|]. split; [exact Hd|].
  assert (Nb : forall a b : N, a <> b -> N.eqb a b = false) by (intros a b N0; apply N.eqb_neq; exact N0).
  repeat split.
  - rewrite B, N.eqb_refl, (Nb _ _ Nsp). lia.
  - rewrite B, N.eqb_refl, (Nb (a_pol acc) (o_sender op)) by congruence. lia.
  - rewrite B, (Nb (a_mod acc) (o_sender op)), (Nb _ _ Nmp) by congruence. lia.
  - intros y N1 N2. rewrite B, (Nb _ _ N1), (Nb _ _ N2). lia.
Qed.

(* ---------- one step: the record ---------- *)

Lemma lookup_after acc s op s' idx len t e b1 :
  reg_ok acc s op s' idx len t e b1 ->
  lookup s' idx = Some {| n_owner := o_sender op; n_expires := e; n_data := o_data op; n_locked := 0; n_subs := 0 |} /\
  forall k, k <> idx -> lookup s' k = lookup s k.
Proof.
  intros R. destruct R. unfold lookup. rewrite ok_names0. split.
  - apply (aget_aset_same N.eqb Neqb_spec).
  - intros k Nk. apply (aget_aset_other N.eqb Neqb_spec). exact Nk.
Qed.

Lemma register_record acc s op s' idx len t :
  wf s -> valid_height (o_height op) ->
  register acc s op = (Ok, s') -> o_parse op = Some (idx, len, t) ->
  exists w', lookup s' idx = Some w' /\ n_owner w' = o_sender op /\ n_data w' = o_data op /\
             n_locked w' = 0 /\ n_subs w' = 0 /\ n_expires w' <= MAX /\
             match lookup s idx with
             | Some w => if o_height op <? n_expires w
                         then n_owner w = o_sender op /\ n_expires w' = n_expires w + o_years op * blocks_per_year
                         else n_expires w' = o_height op + o_years op * blocks_per_year
             | None => n_expires w' = o_height op + o_years op * blocks_per_year
             end.
Proof.
  intros Hwf Hh H Hp. apply register_ok_inv in H as (idx' & len' & t' & e & b1 & R).
  pose proof R as R0. destruct R. rewrite Hp in ok_parse0. inversion ok_parse0; subst idx' len' t'.
  destruct (lookup_after _ _ _ _ _ _ _ _ _ R0) as [L _].
  eexists. split; [exact L|]. cbn [n_owner n_data n_locked n_subs n_expires].
  repeat (split; [reflexivity|]).
  apply new_expiry_spec in ok_exp0; [exact ok_exp0 | exact Hh | lia |].
  intros w Hw. exact (Hwf idx w Hw).
Qed.

Lemma registered_live_for_term acc s op s' idx len t :
  wf s -> valid_height (o_height op) ->
  register acc s op = (Ok, s') -> o_parse op = Some (idx, len, t) ->
  exists w', lookup s' idx = Some w' /\ n_owner w' = o_sender op /\
             o_height op + o_years op * blocks_per_year <= n_expires w' /\ o_height op < n_expires w'.
Proof.
  intros Hwf Hh H Hp.
  assert (Hy : 1 <= o_years op) by (apply (register_balances acc s op s' idx len t H Hp)).
  destruct (register_record acc s op s' idx len t Hwf Hh H Hp) as (w' & L & Ho & _ & _ & _ & _ & E).
  exists w'. split; [exact L|]. split; [exact Ho|].
  assert (0 < o_years op * blocks_per_year) by (rewrite bpy_val; lia).
  destruct (lookup s idx) as [w|]; [|lia].
  destruct (Z.ltb_spec (o_height op) (n_expires w)); [destruct E as [_ E]|]; lia.
Qed.

Lemma renewal_extends_exactly acc s op s' idx len t w :
  wf s -> valid_height (o_height op) ->
  register acc s op = (Ok, s') -> o_parse op = Some (idx, len, t) ->
  lookup s idx = Some w -> o_height op < n_expires w ->
  n_owner w = o_sender op /\
  exists w', lookup s' idx = Some w' /\ n_owner w' = n_owner w /\
             n_expires w' = n_expires w + o_years op * blocks_per_year.
Proof.
  intros Hwf Hh H Hp Lw Live.
  destruct (register_record acc s op s' idx len t Hwf Hh H Hp) as (w' & L & Ho & _ & _ & _ & _ & E).
  rewrite Lw in E. destruct (Z.ltb_spec (o_height op) (n_expires w)); [|lia].
  destruct E as [Eo E]. split; [exact Eo|]. exists w'. split; [exact L|]. split; [congruence | exact E].
Qed.

Lemma fresh_term_from_now acc s op s' idx len t :
  wf s -> valid_height (o_height op) ->
  register acc s op = (Ok, s') -> o_parse op = Some (idx, len, t) ->
  (forall w, lookup s idx = Some w -> n_expires w <= o_height op) ->
  exists w', lookup s' idx = Some w' /\ n_owner w' = o_sender op /\
             n_expires w' = o_height op + o_years op * blocks_per_year.
Proof.
  intros Hwf Hh H Hp Lapsed.
  destruct (register_record acc s op s' idx len t Hwf Hh H Hp) as (w' & L & Ho & _ & _ & _ & _ & E).
  exists w'. split; [exact L|]. split; [exact Ho|].
  destruct (lookup s idx) as [w|]; [|exact E].
  specialize (Lapsed w eq_refl). destruct (Z.ltb_spec (o_height op) (n_expires w)); [lia | exact E].
Qed.

Lemma live_name_not_registrable_by_other acc s op idx len t w :
  o_parse op = Some (idx, len, t) -> lookup s idx = Some w ->
  o_height op < n_expires w -> n_owner w <> o_sender op ->
  register acc s op = (Fail, s).
Proof.
  intros Hp Lw Live No.
  destruct (register acc s op) as [o s'] eqn:R.
  destruct o.
  - exfalso. apply register_ok_inv in R as (idx' & len' & t' & e & b1 & K). destruct K.
    rewrite Hp in ok_parse0. inversion ok_parse0; subst idx' len' t'.
    rewrite Lw, (new_expiry_foreign_live w _ _ _ Live No) in ok_exp0. discriminate.
  - f_equal. apply (register_not_ok_noop acc s op Fail s' R). discriminate.
  - exfalso. apply (register_never_panics acc s op). rewrite R. reflexivity.
Qed.

Lemma other_names_untouched acc s op s' idx len t k :
  register acc s op = (Ok, s') -> o_parse op = Some (idx, len, t) -> k <> idx -> lookup s' k = lookup s k.
Proof.
  intros H Hp Nk. apply register_ok_inv in H as (idx' & len' & t' & e & b1 & R).
  pose proof R as R0. destruct R. rewrite Hp in ok_parse0. inversion ok_parse0; subst idx' len' t'.
  apply (lookup_after _ _ _ _ _ _ _ _ _ R0). exact Nk.
Qed.

(* every name that is live at the height of the step keeps its owner, and its expiry does not shrink *)
Lemma live_names_keep_owner acc s op k w :
  wf s -> valid_height (o_height op) ->
  lookup s k = Some w -> o_height op < n_expires w ->
  exists w', lookup (snd (register acc s op)) k = Some w' /\ n_owner w' = n_owner w /\ n_expires w <= n_expires w'.
Proof.
  intros Hwf Hh Lw Live. destruct (register acc s op) as [o s'] eqn:R. cbn [snd].
  destruct o.
  - pose proof R as R1. apply register_ok_inv in R1 as (idx & len & t & e & b1 & K).
    pose proof (ok_parse _ _ _ _ _ _ _ _ _ K) as Hp.
    destruct (N.eq_dec k idx) as [->|Nk].
    + destruct (renewal_extends_exactly acc s op s' idx len t w Hwf Hh R Hp Lw Live) as (_ & w' & L & Ho & E).
      exists w'. split; [exact L|]. split; [exact Ho|].
      pose proof (ok_time _ _ _ _ _ _ _ _ _ K). lia.
    + exists w. rewrite (other_names_untouched acc s op s' idx len t k R Hp Nk). split; [exact Lw|]. split; [reflexivity | lia].
  - rewrite (register_not_ok_noop acc s op Fail s' R) by discriminate. exists w. split; [exact Lw|]. split; [reflexivity | lia].
  - rewrite (register_not_ok_noop acc s op Panic s' R) by discriminate. exists w. split; [exact Lw|]. split; [reflexivity | lia].
Qed.

(* ---------- invariants ---------- *)

Lemma wf_step acc s op : wf s -> valid_height (o_height op) -> wf (snd (register acc s op)).
Proof.
  intros Hwf Hh. destruct (register acc s op) as [o s'] eqn:R. cbn [snd].
  destruct o; try (rewrite (register_not_ok_noop acc s op _ s' R) by discriminate; exact Hwf).
  pose proof R as R1. apply register_ok_inv in R1 as (idx & len & t & e & b1 & K).
  pose proof (ok_parse _ _ _ _ _ _ _ _ _ K) as Hp.
  intros k w Lk. destruct (N.eq_dec k idx) as [->|Nk].
  - destruct (register_record acc s op s' idx len t Hwf Hh R Hp) as (w' & L & _ & _ & _ & _ & B & _).
    rewrite L in Lk. inversion Lk; subst w'. exact B.
  - rewrite (other_names_untouched acc s op s' idx len t k R Hp Nk) in Lk. exact (Hwf k w Lk).
Qed.

Lemma bank_nonneg_step acc s op : bank_nonneg s -> bank_nonneg (snd (register acc s op)).
Proof.
  intros Hb. destruct (register acc s op) as [o s'] eqn:R. cbn [snd].
  destruct o; try (rewrite (register_not_ok_noop acc s op _ s' R) by discriminate; exact Hb).
  pose proof R as R1. apply register_ok_inv in R1 as (idx & len & t & e & b1 & K).
  pose proof (ok_parse _ _ _ _ _ _ _ _ _ K) as Hp.
  destruct (register_balances acc s op s' idx len t R Hp) as (_ & Hd & Hf & B). cbn zeta in *.
  intros y. rewrite B. pose proof (Hb y).
  destruct (N.eqb_spec y (o_sender op)) as [E|_]; [subst y|]; destruct (N.eqb _ (a_pol acc)); lia.
Qed.

Lemma nodup_step acc s op : NoDup (akeys (s_bank s)) -> NoDup (akeys (s_bank (snd (register acc s op)))).
Proof.
  intros Hn. destruct (register acc s op) as [o s'] eqn:R. cbn [snd].
  destruct o; try (rewrite (register_not_ok_noop acc s op _ s' R) by discriminate; exact Hn).
  apply register_ok_inv in R as (idx & len & t & e & b1 & K). destruct K.
  unfold send in ok_send3, ok_send4.
  destruct (_ <=? bal (s_bank s) _); [|discriminate]. inversion ok_send3; subst b1.
  destruct (_ <=? bal _ _); [|discriminate]. inversion ok_send4 as [E].
  repeat apply nodup_credit. exact Hn.
Qed.

(* total ujkl is conserved by every step *)
Lemma asum_credit b a x : NoDup (akeys b) -> asum (credit b a x) = asum b + x.
Proof.
  intros Hn. unfold credit. rewrite (asum_aset N.eqb) by exact Hn. unfold bal. lia.
Qed.

Lemma supply_step acc s op :
  NoDup (akeys (s_bank s)) -> asum (s_bank (snd (register acc s op))) = asum (s_bank s).
Proof.
  intros Hn. destruct (register acc s op) as [o s'] eqn:R. cbn [snd].
  destruct o; try (rewrite (register_not_ok_noop acc s op _ s' R) by discriminate; reflexivity).
  apply register_ok_inv in R as (idx & len & t & e & b1 & K). destruct K.
  unfold send in ok_send3, ok_send4.
  destruct (_ <=? bal (s_bank s) _); [|discriminate]. inversion ok_send3; subst b1.
  destruct (_ <=? bal _ _); [|discriminate]. inversion ok_send4 as [E].
  rewrite !asum_credit; try (repeat apply nodup_credit; exact Hn). lia.
Qed.

(* ---------- when a registration goes through ---------- *)

Lemma register_succeeds acc s op idx len t :
  wf s -> valid_height (o_height op) -> 0 <= bal (s_bank s) (a_mod acc) ->
  o_basic_ok op = true -> o_parse op = Some (idx, len, t) -> len <> 0 -> o_sender_ok op = true ->
  1 <= o_years op -> o_years op * listed_price len t <= MAX ->
  o_years op * listed_price len t <= bal (s_bank s) (o_sender op) ->
  match lookup s idx with
  | Some w => if o_height op <? n_expires w
              then n_owner w = o_sender op /\ n_expires w + o_years op * blocks_per_year <= MAX
              else o_height op + o_years op * blocks_per_year <= MAX
  | None => o_height op + o_years op * blocks_per_year <= MAX
  end ->
  fst (register acc s op) = Ok.
Proof.
  intros Hwf Hh Hm Hb Hp Hl Hs Hy Hpr Hf Hc.
  pose proof (listed_term_accepted len t (o_years op) Hy Hpr) as Hg.
  pose proof (term_accepted_bounds _ _ Hg) as (_ & _ & Hpb & Htb).
  unfold register. rewrite Hb, Hp. cbn [negb is_reserved].
  replace (is_reserved t) with false by (destruct t; reflexivity).
  rewrite (cost_listed len t Hl), Hg.
  rewrite (wrap64_small (listed_price len t * o_years op)) by lia.
  rewrite (wrap64_small (o_years op * blocks_per_year)) by lia.
  destruct (Z.ltb_spec (listed_price len t * o_years op) 0); [lia|].
  rewrite Hs. cbn [negb]. fold (lookup s idx).
  destruct (new_expiry_some (lookup s idx) (o_sender op) (o_height op) (o_years op * blocks_per_year) Hh ltac:(lia)
              (fun w Hw => Hwf idx w Hw) Hc) as [e He].
  rewrite He. destruct (Z.eqb_spec (listed_price len t * o_years op) 0); [lia|].
  rewrite (Z.mul_comm (listed_price len t)).
  destruct (send_some (s_bank s) (o_sender op) (a_mod acc) _ Hf) as [b1 S1]. rewrite S1.
  apply send_spec in S1 as [_ B1].
  assert (L2 : o_years op * listed_price len t <= bal b1 (a_mod acc)).
  { rewrite B1, N.eqb_refl. destruct (N.eqb_spec (a_mod acc) (o_sender op)) as [E|_]; [rewrite <- E in Hf|]; lia. }
  destruct (send_some b1 (a_mod acc) (a_pol acc) _ L2) as [b2 S2]. rewrite S2. reflexivity.
Qed.

(* ---------- histories ---------- *)

Lemma run_app acc s ops1 ops2 : run acc s (ops1 ++ ops2) = run acc (run acc s ops1) ops2.
Proof. revert s. induction ops1 as [|op r IH]; intros s; cbn; [reflexivity | apply IH]. Qed.

Lemma wf_run acc ops : forall s, wf s -> Forall (fun o => valid_height (o_height o)) ops -> wf (run acc s ops).
Proof.
  induction ops as [|op r IH]; intros s Hwf Hv; cbn; [exact Hwf|].
  inversion Hv; subst. apply IH; [apply wf_step; assumption | assumption].
Qed.

(* what the property demands of one step (pre, op, outcome, post) *)
Definition step_sound (acc : accts) (x : rstate * reg_op * outcome * rstate) : Prop :=
  let '(pre, op, o, post) := x in
  o <> Panic /\
  (o <> Ok -> post = pre) /\
  (forall k w, lookup pre k = Some w -> o_height op < n_expires w ->
     exists w', lookup post k = Some w' /\ n_owner w' = n_owner w /\ n_expires w <= n_expires w') /\
  (o = Ok -> exists idx len t, o_parse op = Some (idx, len, t) /\ len <> 0 /\
     let due := o_years op * listed_price len t in
     1 <= o_years op /\ 1 <= due <= MAX /\
     (* balances *)
     (a_mod acc <> a_pol acc -> o_sender op <> a_mod acc -> o_sender op <> a_pol acc ->
        bal (s_bank post) (o_sender op) = bal (s_bank pre) (o_sender op) - due /\
        bal (s_bank post) (a_pol acc) = bal (s_bank pre) (a_pol acc) + due /\
        bal (s_bank post) (a_mod acc) = bal (s_bank pre) (a_mod acc) /\
        forall y, y <> o_sender op -> y <> a_pol acc -> bal (s_bank post) y = bal (s_bank pre) y) /\
     (* the name *)
     (exists w', lookup post idx = Some w' /\ n_owner w' = o_sender op /\
        o_height op + o_years op * blocks_per_year <= n_expires w' /\
        match lookup pre idx with
        | Some w => if o_height op <? n_expires w
                    then n_owner w = o_sender op /\ n_expires w' = n_expires w + o_years op * blocks_per_year
                    else n_expires w' = o_height op + o_years op * blocks_per_year
        | None => n_expires w' = o_height op + o_years op * blocks_per_year
        end) /\
     (forall k, k <> idx -> lookup post k = lookup pre k)).

Lemma step_is_sound acc s op :
  wf s -> valid_height (o_height op) ->
  step_sound acc (s, op, fst (register acc s op), snd (register acc s op)).
Proof.
  intros Hwf Hh. unfold step_sound. destruct (register acc s op) as [o s'] eqn:R. cbn [fst snd].
  split; [pose proof (register_never_panics acc s op) as P; rewrite R in P; exact P|].
  split; [intros No; exact (register_not_ok_noop acc s op o s' R No)|].
  split.
  { intros k w Lk Live. pose proof (live_names_keep_owner acc s op k w Hwf Hh Lk Live) as P.
    rewrite R in P. exact P. }
  intros ->. pose proof R as R1. apply register_ok_inv in R1 as (idx & len & t & e & b1 & K).
  pose proof (ok_parse _ _ _ _ _ _ _ _ _ K) as Hp. pose proof (ok_len _ _ _ _ _ _ _ _ _ K) as Hl.
  exists idx, len, t. split; [exact Hp|]. split; [exact Hl|]. cbn zeta.
  split; [exact (ok_years _ _ _ _ _ _ _ _ _ K)|]. split; [exact (ok_price _ _ _ _ _ _ _ _ _ K)|].
  split.
  { intros N1 N2 N3. destruct (register_charges_exactly acc s op s' idx len t R Hp N1 N2 N3) as (_ & _ & P). exact P. }
  split.
  { destruct (register_record acc s op s' idx len t Hwf Hh R Hp) as (w' & L & Ho & _ & _ & _ & _ & E).
    destruct (registered_live_for_term acc s op s' idx len t Hwf Hh R Hp) as (w2 & L2 & _ & T & _).
    rewrite L in L2. inversion L2; subst w2.
    exists w'. split; [exact L|]. split; [exact Ho|]. split; [exact T | exact E]. }
  intros k Nk. exact (other_names_untouched acc s op s' idx len t k R Hp Nk).
Qed.

Lemma trace_sound acc ops : forall s,
  wf s -> Forall (fun o => valid_height (o_height o)) ops -> Forall (step_sound acc) (trace acc s ops).
Proof.
  induction ops as [|op r IH]; intros s Hwf Hv; cbn [trace]; [constructor|].
  inversion Hv; subst. pose proof (step_is_sound acc s op Hwf H1) as P.
  pose proof (wf_step acc s op Hwf H1) as W.
  destruct (register acc s op) as [o s'] eqn:R. cbn [fst snd] in *.
  constructor; [exact P | apply IH; assumption].
Qed.

(* a paid term is honoured by every later registration attempt made before its end *)
Lemma paid_term_honoured acc ops : forall s idx a T,
  wf s ->
  (exists w, lookup s idx = Some w /\ n_owner w = a /\ T <= n_expires w) ->
  Forall (fun o => valid_height (o_height o) /\ o_height o < T) ops ->
  exists w, lookup (run acc s ops) idx = Some w /\ n_owner w = a /\ T <= n_expires w.
Proof.
  induction ops as [|op r IH]; intros s idx a T Hwf Hw Hv; cbn [run]; [exact Hw|].
  inversion Hv as [|? ? [Hh Hlt] Hr]; subst.
  apply IH; [apply wf_step; assumption | | exact Hr].
  destruct Hw as (w & L & Ho & HT).
  destruct (live_names_keep_owner acc s op idx w Hwf Hh L ltac:(lia)) as (w' & L' & Ho' & HE).
  exists w'. split; [exact L'|]. split; [congruence | lia].
Qed.

Lemma registration_protected acc s op s1 idx len t ops :
  wf s -> valid_height (o_height op) ->
  register acc s op = (Ok, s1) -> o_parse op = Some (idx, len, t) ->
  Forall (fun o => valid_height (o_height o) /\ o_height o < o_height op + o_years op * blocks_per_year) ops ->
  exists w, lookup (run acc s1 ops) idx = Some w /\ n_owner w = o_sender op /\
            o_height op + o_years op * blocks_per_year <= n_expires w.
Proof.
  intros Hwf Hh R Hp Hv.
  apply paid_term_honoured; [| | exact Hv].
  - pose proof (wf_step acc s op Hwf Hh) as W. rewrite R in W. exact W.
  - destruct (registered_live_for_term acc s op s1 idx len t Hwf Hh R Hp) as (w & L & Ho & HT & _).
    exists w. split; [exact L|]. split; [exact Ho | exact HT].
Qed.

(* accounting over a whole history *)
Definition charge (acc : accts) (s : rstate) (op : reg_op) : Z :=
  match fst (register acc s op), o_parse op with
  | Ok, Some (_, len, t) => o_years op * listed_price len t
  | _, _ => 0
  end.

Fixpoint paid_by (acc : accts) (who : N -> bool) (s : rstate) (ops : list reg_op) : Z :=
  match ops with
  | [] => 0
  | op :: r => (if who (o_sender op) then charge acc s op else 0) + paid_by acc who (snd (register acc s op)) r
  end.

Lemma charge_nonneg acc s op : 0 <= charge acc s op.
Proof.
  unfold charge. destruct (register acc s op) as [o s'] eqn:R. cbn [fst].
  destruct o; try lia. destruct (o_parse op) as [[[idx len] t]|] eqn:Hp; [|lia].
  destruct (register_balances acc s op s' idx len t R Hp) as (_ & Hd & _). cbn zeta in Hd. lia.
Qed.

Lemma step_balance acc s op y :
  bal (s_bank (snd (register acc s op))) y =
  bal (s_bank s) y - (if N.eqb y (o_sender op) then charge acc s op else 0)
                   + (if N.eqb y (a_pol acc) then charge acc s op else 0).
Proof.
  unfold charge. destruct (register acc s op) as [o s'] eqn:R. cbn [fst snd].
  destruct o; try (rewrite (register_not_ok_noop acc s op _ s' R) by discriminate;
                   destruct (N.eqb y (o_sender op)); destruct (N.eqb y (a_pol acc)); lia).
  pose proof R as R1. apply register_ok_inv in R1 as (idx & len & t & e & b1 & K).
  pose proof (ok_parse _ _ _ _ _ _ _ _ _ K) as Hp. rewrite Hp.
  destruct (register_balances acc s op s' idx len t R Hp) as (_ & _ & _ & B). apply B.
Qed.

Lemma history_accounting acc ops : forall s y,
  bal (s_bank (run acc s ops)) y =
  bal (s_bank s) y - paid_by acc (N.eqb y) s ops + (if N.eqb y (a_pol acc) then paid_by acc (fun _ => true) s ops else 0).
Proof.
  induction ops as [|op r IH]; intros s y; cbn [run paid_by]; [destruct (N.eqb y (a_pol acc)); lia|].
  rewrite IH, step_balance. destruct (N.eqb y (o_sender op)); destruct (N.eqb y (a_pol acc)); lia.
Qed.

Lemma paid_by_nonneg acc who ops : forall s, 0 <= paid_by acc who s ops.
Proof.
  induction ops as [|op r IH]; intros s; cbn [paid_by]; [lia|].
  pose proof (charge_nonneg acc s op). pose proof (IH (snd (register acc s op))).
  destruct (who (o_sender op)); lia.
Qed.

Lemma paid_by_nobody acc who ops : forall s,
  Forall (fun o => who (o_sender o) = false) ops -> paid_by acc who s ops = 0.
Proof.
  induction ops as [|op r IH]; intros s Hv; cbn [paid_by]; [reflexivity|].
  inversion Hv; subst. rewrite H1, IH by assumption. reflexivity.
Qed.

Lemma supply_run acc ops : forall s,
  NoDup (akeys (s_bank s)) -> asum (s_bank (run acc s ops)) = asum (s_bank s).
Proof.
  induction ops as [|op r IH]; intros s Hn; cbn [run]; [reflexivity|].
  rewrite IH by (apply nodup_step; exact Hn). apply supply_step. exact Hn.
Qed.

Lemma module_keeps_nothing acc ops s :
  a_mod acc <> a_pol acc -> Forall (fun o => N.eqb (a_mod acc) (o_sender o) = false) ops ->
  bal (s_bank (run acc s ops)) (a_mod acc) = bal (s_bank s) (a_mod acc).
Proof.
  intros Nmp Hv. rewrite history_accounting.
  rewrite (paid_by_nobody acc (N.eqb (a_mod acc)) ops s Hv).
  destruct (N.eqb_spec (a_mod acc) (a_pol acc)); [contradiction | lia].
Qed.

(* ---------- the string functions ---------- *)

Lemma beqb_eq a : forall b, beqb a b = true -> a = b.
Proof.
  induction a as [|x a IH]; intros [|y b] H; cbn in H; try discriminate; [reflexivity|].
  apply andb_true_iff in H as [E H]. apply N.eqb_eq in E. subst y. f_equal. apply IH. exact H.
Qed.

Lemma skipn_S_tail {A} n : forall (l : list A) c rest, skipn n l = c :: rest -> skipn (S n) l = rest.
Proof.
  induction n as [|n IH]; intros l c rest H.
  - cbn in H. subst l. reflexivity.
  - destruct l as [|x l]; [discriminate|]. cbn [skipn] in H. rewrite skipn_cons. apply (IH l c rest H).
Qed.

Lemma get_tld_from_spec tlds s t :
  get_tld_from tlds s = Some t ->
  (4 < length s)%nat /\ skipn (length s - 3) s = tld_bytes t.
Proof.
  induction tlds as [|t0 r IH]; cbn [get_tld_from]; [discriminate|].
  assert (K : length (tld_bytes t0) = 3%nat) by (destruct t0; reflexivity). rewrite K.
  destruct (Nat.leb_spec (length s) (3 + 1)); [discriminate|].
  destruct (beqb (skipn (length s - 3) s) (tld_bytes t0)) eqn:B; [|exact IH].
  intros HR; inversion HR; subst t0. split; [lia | apply beqb_eq; exact B].
Qed.

(* a parsed name is the string without its last four bytes: one separator byte (any) and the TLD;
   it is never empty, and its length is what GetCostOfName prices *)
Lemma name_and_tld_shape s nm t :
  name_and_tld s = Some (nm, t) ->
  (exists c, s = nm ++ c :: tld_bytes t) /\ nm <> [] /\ (length nm + 4 = length s)%nat.
Proof.
  unfold name_and_tld. destruct (get_tld_from supported_tlds s) as [t0|] eqn:G; [|discriminate].
  apply get_tld_from_spec in G as [L HS].
  assert (K : length (tld_bytes t0) = 3%nat) by (destruct t0; reflexivity). rewrite K.
  destruct (Nat.leb_spec (length s) (3 + 1)); [lia|].
  intros HR; inversion HR; subst nm t0; clear HR.
  assert (Ln : length (firstn (length s - 3 - 1) s) = (length s - 4)%nat) by (rewrite firstn_length; lia).
  split; [|split].
  - pose proof (firstn_skipn (length s - 3 - 1) s) as FS.
    destruct (skipn (length s - 3 - 1) s) as [|c rest] eqn:SK.
    + exfalso. apply (f_equal (@length N)) in FS. rewrite app_length, Ln in FS. cbn in FS. lia.
    + exists c. rewrite <- FS at 1. f_equal. f_equal.
      apply skipn_S_tail in SK. replace (S (length s - 3 - 1)) with (length s - 3)%nat in SK by lia.
      rewrite <- SK. exact HS.
  - intros E. rewrite E in Ln. cbn in Ln. lia.
  - rewrite Ln. lia.
Qed.
