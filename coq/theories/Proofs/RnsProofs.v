(* Lemmas and invariants of the RNS model (Model/Rns.v) behind C08 and C09. *)
From Coq Require Import ZArith NArith List Bool Lia.
From JK Require Import Base.AList Model.Rns.
Import ListNotations.
Open Scope Z_scope.

(* ------------------------------------------------------------------ equalities *)
Lemma Neqb_spec : forall a b : N, N.eqb a b = true <-> a = b.
Proof. intros; apply N.eqb_eq. Qed.

Lemma addr_eqb_spec : forall a b : addr, addr_eqb a b = true <-> a = b.
Proof.
  intros [a1 a2] [b1 b2]; unfold addr_eqb; cbn [fst snd]. rewrite andb_true_iff, N.eqb_eq, eqb_true_iff.
  split; [intros [-> ->]; reflexivity | intros E; inversion E; auto].
Qed.

Lemma bkey_eqb_spec : forall a b : bkey, bkey_eqb a b = true <-> a = b.
Proof.
  intros [a1 a2] [b1 b2]; unfold bkey_eqb; cbn [fst snd]. rewrite andb_true_iff, !N.eqb_eq.
  split; [intros [-> ->]; reflexivity | intros E; inversion E; auto].
Qed.

Lemma bidkey_eqb_spec : forall a b : bidkey, bidkey_eqb a b = true <-> a = b.
Proof.
  intros [a1 a2] [b1 b2]; unfold bidkey_eqb; cbn [fst snd]. rewrite andb_true_iff, addr_eqb_spec, N.eqb_eq.
  split; [intros [-> ->]; reflexivity | intros E; inversion E; auto].
Qed.

Lemma addr_eqb_false_fst : forall a b : addr, fst a <> fst b -> addr_eqb a b = false.
Proof.
  intros a b H. destruct (addr_eqb a b) eqn:E; [|reflexivity]. apply addr_eqb_spec in E. subst. contradiction.
Qed.

(* The Go code keys a bid by the concatenation bidder ++ name.  For bidder strings of one
   length (all 20-byte accounts have bech32 strings of the same length, in either spelling)
   the concatenation determines the pair, which is how the model keys bids. *)
Lemma bid_key_injective : forall (a a' n n' : list N),
  length a = length a' -> a ++ n = a' ++ n' -> a = a' /\ n = n'.
Proof.
  induction a as [|x a IH]; intros [|y a'] n n' L E; cbn in *; try discriminate.
  - split; [reflexivity | exact E].
  - inversion E; subst. destruct (IH a' n n') as [-> ->]; [lia | assumption | split; reflexivity].
Qed.

(* ------------------------------------------------------------------ bank *)
Lemma bal_credit : forall b a d x a' d',
  bal (credit b a d x) a' d' = bal b a' d' + (if bkey_eqb (a', d') (a, d) then x else 0).
Proof.
  intros. unfold bal, credit, aval.
  destruct (bkey_eqb (a', d') (a, d)) eqn:E.
  - apply bkey_eqb_spec in E. inversion E; subst.
    rewrite (aget_aset_same bkey_eqb bkey_eqb_spec). unfold aval. reflexivity.
  - rewrite (aget_aset_other bkey_eqb bkey_eqb_spec).
    + lia.
    + intros C. rewrite <- bkey_eqb_spec in C. congruence.
Qed.

Lemma bkey_eqb_pair : forall a d a' d', bkey_eqb (a', d') (a, d) = N.eqb a' a && N.eqb d' d.
Proof. reflexivity. Qed.

Lemma bal_add_coins : forall cs b a a' d',
  bal (add_coins b a cs) a' d' = bal b a' d' + (if N.eqb a' a then amt d' cs else 0).
Proof.
  induction cs as [|[d v] r IH]; intros; cbn [add_coins amt].
  - destruct (N.eqb a' a); lia.
  - rewrite IH, bal_credit, bkey_eqb_pair.
    destruct (N.eqb a' a); cbn [andb]; [|lia].
    rewrite (N.eqb_sym d' d). destruct (N.eqb d d'); lia.
Qed.

Lemma bal_sub_coins : forall cs b a b' a' d',
  sub_coins b a cs = Some b' ->
  bal b' a' d' = bal b a' d' - (if N.eqb a' a then amt d' cs else 0).
Proof.
  induction cs as [|[d v] r IH]; intros b a b' a' d' H; cbn [sub_coins amt] in *.
  - inversion H; subst. destruct (N.eqb a' a); lia.
  - destruct (bal b a d <? v); [discriminate|].
    rewrite (IH _ _ _ a' d' H), bal_credit, bkey_eqb_pair.
    destruct (N.eqb a' a); cbn [andb]; [|lia].
    rewrite (N.eqb_sym d' d). destruct (N.eqb d d'); lia.
Qed.

Lemma bal_send : forall b f t cs b' x d,
  send b f t cs = Some b' ->
  bal b' x d = bal b x d - (if N.eqb x f then amt d cs else 0) + (if N.eqb x t then amt d cs else 0).
Proof.
  unfold send. intros b f t cs b' x d H.
  destruct (sub_coins b f cs) as [b1|] eqn:E; [|discriminate]. inversion H; subst.
  rewrite bal_add_coins, (bal_sub_coins _ _ _ _ x d E). lia.
Qed.

Definition coins_nonneg (cs : coins) : Prop := Forall (fun c => 0 <= snd c) cs.

Lemma amt_nonneg : forall d cs, coins_nonneg cs -> 0 <= amt d cs.
Proof.
  induction cs as [|[d' v] r IH]; intros H; cbn [amt]; [lia|].
  inversion H; subst. cbn [snd] in *. specialize (IH H3). destruct (N.eqb d' d); lia.
Qed.

Lemma sub_coins_ok : forall cs b a,
  coins_nonneg cs -> (forall d, amt d cs <= bal b a d) -> exists b', sub_coins b a cs = Some b'.
Proof.
  induction cs as [|[d v] r IH]; intros b a NN LE; cbn [sub_coins].
  - eexists; reflexivity.
  - inversion NN; subst. cbn [snd] in *.
    assert (v <= bal b a d) as Hv.
    { specialize (LE d). cbn [amt] in LE. rewrite N.eqb_refl in LE. pose proof (amt_nonneg d r H2). lia. }
    destruct (bal b a d <? v) eqn:E; [apply Z.ltb_lt in E; lia|].
    apply IH; [assumption|]. intros d0. rewrite bal_credit, bkey_eqb_pair, N.eqb_refl. cbn [andb].
    specialize (LE d0). cbn [amt] in LE. rewrite (N.eqb_sym d0 d). destruct (N.eqb d d0); lia.
Qed.

Lemma send_ok : forall b f t cs,
  coins_nonneg cs -> (forall d, amt d cs <= bal b f d) -> exists b', send b f t cs = Some b'.
Proof.
  intros b f t cs NN LE. unfold send. destruct (sub_coins_ok cs b f NN LE) as [b1 ->]. eexists; reflexivity.
Qed.


(* ------------------------------------------------------------------ tactics *)
Ltac destr_match H :=
  match type of H with
  | context [match ?x with _ => _ end] => let E := fresh "E" in destruct x eqn:E; try discriminate H
  end.
Ltac norm :=
  repeat match goal with
  | H : negb _ = false |- _ => apply negb_false_iff in H
  | H : negb _ = true |- _ => apply negb_true_iff in H
  | H : addr_eqb _ _ = true |- _ => apply addr_eqb_spec in H
  | H : (_ >? _) = false |- _ => rewrite Z.gtb_ltb in H; apply Z.ltb_ge in H
  | H : (_ >? _) = true |- _ => rewrite Z.gtb_ltb in H; apply Z.ltb_lt in H
  | H : (_ <? _) = true |- _ => apply Z.ltb_lt in H
  | H : (_ <? _) = false |- _ => apply Z.ltb_ge in H
  | H : (_ || _) = false |- _ => apply orb_false_iff in H; destruct H
  | H : Some _ = Some _ |- _ => inversion H; subst; clear H
  end.
Ltac open_handler H := cbv zeta in H; repeat (destr_match H); norm.

Lemma some_inj : forall {A} (a b : A), Some a = Some b -> a = b.
Proof. intros A a b H. injection H as ->. reflexivity. Qed.

Lemma aget_aset_N : forall {V} (l : list (N * V)) k0 v k,
  aget N.eqb (aset N.eqb l k0 v) k = if N.eqb k k0 then Some v else aget N.eqb l k.
Proof.
  intros. destruct (N.eqb k k0) eqn:E.
  - apply N.eqb_eq in E; subst. apply (aget_aset_same N.eqb Neqb_spec).
  - apply (aget_aset_other N.eqb Neqb_spec). intros C; subst. rewrite N.eqb_refl in E. discriminate.
Qed.


Lemma reg_primary_names : forall s1 owner k prim, names (reg_primary s1 owner k prim) = names s1.
Proof. intros. unfold reg_primary. cbv zeta. destruct (prim || negb _); reflexivity. Qed.
Lemma reg_primary_bank : forall s1 owner k prim, bank_of (reg_primary s1 owner k prim) = bank_of s1.
Proof. intros. unfold reg_primary. cbv zeta. destruct (prim || negb _); reflexivity. Qed.
Lemma reg_primary_bids : forall s1 owner k prim, bids (reg_primary s1 owner k prim) = bids s1.
Proof. intros. unfold reg_primary. cbv zeta. destruct (prim || negb _); reflexivity. Qed.
Lemma reg_primary_forsale : forall s1 owner k prim, forsale (reg_primary s1 owner k prim) = forsale s1.
Proof. intros. unfold reg_primary. cbv zeta. destruct (prim || negb _); reflexivity. Qed.

Lemma reg_expires_live : forall h w owner t e,
  reg_expires h (Some w) owner t = Some e -> h < n_expires w -> n_value w = owner.
Proof.
  intros h w owner t e H L. unfold reg_expires in H. cbv zeta in H.
  destruct (h <? n_expires w) eqn:E; [|apply Z.ltb_ge in E; lia].
  destruct (addr_eqb (n_value w) owner) eqn:E2; [apply addr_eqb_spec in E2; exact E2 | discriminate H].
Qed.

(* ------------------------------------------------------------------ C08: what a step can do to a live name *)
Definition paid (b b' : bank) (a : acct) (cs : coins) : Prop :=
  forall d, bal b' a d = bal b a d + amt d cs.

(* everything a successful message can have done to the record r of a live name k *)
Inductive name_change (s : state) (o : op) (s' : state) (k : N) (r r' : name_rec) : Prop :=
| NC_same : r' = r -> name_change s o s' k r r'
| NC_owner_edit sg :                 (* renewal, update, records: by the owner, owner and expiry kept or extended *)
    signer o = Some sg -> fst sg = owner_acct r -> owner_acct r' = owner_acct r ->
    (match o with Register _ _ _ _ _ _ _ _ | Update _ _ _ _ | AddRecord _ _ _ _ _ _ _ _ | DelRecord _ _ _ _ => True | _ => False end) ->
    name_change s o s' k r r'
| NC_transfer vb sg n rcv :
    o = Transfer vb sg n rcv -> nm_key n = Some k -> n_value r = canon sg ->
    r' = with_owner_reset r rcv -> name_change s o s' k r r'
| NC_accept vb sg n from bd :
    o = AcceptBid vb sg n from -> nm_key n = Some k -> n_value r = canon sg ->
    get_bid s (from, nm_full n) = Some bd ->
    send (bank_of s) rns_mod (fst sg) (b_price bd) = Some (bank_of s') ->
    r' = with_owner_reset r (b_bidder bd) -> name_change s o s' k r r'
| NC_buy vb sg n sl p b1 :
    o = Buy vb sg n -> nm_key n = Some k -> get_sale s (nm_full n) = Some sl ->
    n_value r = f_owner sl -> n_value r <> sg -> f_price sl = Some p ->
    send (bank_of s) (fst sg) rns_mod (new_coins p) = Some b1 ->
    send b1 rns_mod (fst (f_owner sl)) (new_coins p) = Some (bank_of s') ->
    r' = with_owner_reset r sg -> name_change s o s' k r r'.

Ltac name_goal Hget :=
  unfold get_name in *; cbn [names set_names set_forsale set_bids set_bank set_primary set_inits set_height];
  try rewrite aget_aset_N;
  try (match goal with
       | |- context [N.eqb ?k ?k0] =>
         let EK := fresh "EK" in
         destruct (N.eqb k k0) eqn:EK;
         [apply N.eqb_eq in EK; subst; rewrite Hget in *; norm | ]
       end).

Lemma handle_name_change : forall s o s' k r,
  handle s o = Some s' -> get_name s k = Some r -> height s < n_expires r ->
  exists r', get_name s' k = Some r' /\ name_change s o s' k r r'.
Proof.
  intros s o s' k r H Hget Hlive.
  destruct o as [vb sg key reserved cost years data prim | vb sg n p | vb sg n | vb sg n | vb sg n p | vb sg n | vb sg n from | vb sg n receiver | vb sg n data | vb sg n rr rl v hd data | vb sg n sub | vb sg k0 bad | vb sg key | h]; cbn [handle] in H; try (destruct vb; [|discriminate H]).
  - (* Register *)
    unfold do_register in H.
    destruct key as [k0|]; [|discriminate H].
    destruct reserved; [discriminate H|].
    destruct ((years <? 1) || (cost <? 1)); [discriminate H|].
    destruct ((years >? max_int64 / cost) || (years >? max_int64 / blocks_per_year)); [discriminate H|].
    cbv zeta in H.
    destruct (reg_expires (height s) (get_name s k0) (canon sg) (years * blocks_per_year)) as [e|] eqn:Ee; [|discriminate H].
    destruct (send (bank_of s) (fst sg) rns_mod [(ujkl, cost * years)]) as [b1|] eqn:E1; [|discriminate H].
    destruct (send b1 rns_mod pol [(ujkl, cost * years)]) as [b2|] eqn:E2; [|discriminate H].
    inversion H; subst s'; clear H.
    unfold get_name. rewrite reg_primary_names. cbn [names set_names set_bank]. rewrite aget_aset_N.
    destruct (N.eqb k k0) eqn:EK.
    + apply N.eqb_eq in EK; subst k0. rewrite Hget in Ee.
      pose proof (reg_expires_live _ _ _ _ _ Ee Hlive) as Hv.
      eexists; split; [reflexivity|].
      apply (NC_owner_edit _ _ _ _ _ _ sg); [reflexivity | | | exact I];
        unfold owner_acct; cbn [n_value]; rewrite Hv; reflexivity.
    + eexists; split; [exact Hget | apply NC_same; reflexivity].
  - (* ListName *)
    unfold do_list in H. open_handler H. name_goal Hget. eexists; split; [eassumption | apply NC_same; reflexivity].
  - (* Delist *)
    unfold do_delist in H. open_handler H. name_goal Hget. eexists; split; [eassumption | apply NC_same; reflexivity].
  - (* Buy *)
    unfold do_buy in H. open_handler H. name_goal Hget.
    + eexists; split; [reflexivity|].
      eapply (NC_buy _ _ _ _ _ _ true sg n); try reflexivity; try eassumption.
      intros C. apply addr_eqb_spec in C. congruence.
    + eexists; split; [eassumption | apply NC_same; reflexivity].
  - (* Bid *)
    unfold do_bid in H. open_handler H; name_goal Hget; eexists; (split; [eassumption | apply NC_same; reflexivity]).
  - (* CancelBid *)
    unfold do_cancel in H. open_handler H. name_goal Hget. eexists; split; [eassumption | apply NC_same; reflexivity].
  - (* AcceptBid *)
    unfold do_accept in H. open_handler H. name_goal Hget.
    + eexists; split; [reflexivity|].
      eapply (NC_accept _ _ _ _ _ _ true sg n from); try reflexivity; try eassumption.
    + eexists; split; [eassumption | apply NC_same; reflexivity].
  - (* Transfer *)
    unfold do_transfer in H. open_handler H. name_goal Hget.
    + eexists; split; [reflexivity|].
      eapply (NC_transfer _ _ _ _ _ _ true sg n receiver); try reflexivity; try eassumption.
    + eexists; split; [eassumption | apply NC_same; reflexivity].
  - (* Update *)
    unfold do_update in H. open_handler H. name_goal Hget.
    + eexists; split; [reflexivity|].
      apply (NC_owner_edit _ _ _ _ _ _ sg); [reflexivity | | reflexivity | exact I].
      unfold owner_acct. match goal with Hv : n_value _ = canon _ |- _ => rewrite Hv end. reflexivity.
    + eexists; split; [eassumption | apply NC_same; reflexivity].
  - (* AddRecord *)
    unfold do_add_record in H. open_handler H. name_goal Hget.
    + eexists; split; [reflexivity|].
      eapply NC_owner_edit; [reflexivity | | reflexivity | exact I]. reflexivity.
    + eexists; split; [eassumption | apply NC_same; reflexivity].
  - (* DelRecord *)
    unfold do_del_record in H. open_handler H. name_goal Hget.
    + eexists; split; [reflexivity|].
      eapply NC_owner_edit; [reflexivity | | reflexivity | exact I]. reflexivity.
    + eexists; split; [eassumption | apply NC_same; reflexivity].
  - (* InitName *)
    unfold do_init in H.
    destruct (existsb (addr_eqb sg) (inits s)); [discriminate H|].
    destruct bad; [discriminate H|]. cbv zeta in H.
    destruct (get_name s k0) as [w|] eqn:Ew.
    + destruct (height s <? n_expires w) eqn:Et; [discriminate H|]. apply Z.ltb_ge in Et.
      apply some_inj in H; subst s'. name_goal Hget; [exfalso; lia|].
      eexists; split; [eassumption | apply NC_same; reflexivity].
    + apply some_inj in H; subst s'. unfold get_name in *.
      cbn [names set_names set_inits]. rewrite aget_aset_N.
      destruct (N.eqb k k0) eqn:EK; [apply N.eqb_eq in EK; subst; congruence|].
      eexists; split; [eassumption | apply NC_same; reflexivity].
  - (* MakePrimary *)
    unfold do_make_primary in H. open_handler H. name_goal Hget. eexists; split; [eassumption | apply NC_same; reflexivity].
  - (* SetHeight *)
    inversion H; subst. name_goal Hget. eexists; split; [eassumption | apply NC_same; reflexivity].
Qed.

(* ------------------------------------------------------------------ C08 statements, per step *)
Definition owner_kept (s' : state) (k : N) (r : name_rec) : Prop :=
  exists r', get_name s' k = Some r' /\ owner_acct r' = owner_acct r.

(* the three ways the property allows a live name k (record r) to change owner *)
Definition consent (s : state) (o : op) (k : N) (r : name_rec) : Prop :=
  match o with
  | Transfer _ sg n _ | AcceptBid _ sg n _ => nm_key n = Some k /\ fst sg = owner_acct r
  | Buy _ _ n => nm_key n = Some k /\
                 exists sl, get_sale s (nm_full n) = Some sl /\ fst (f_owner sl) = owner_acct r
  | _ => False
  end.

(* the module account has no key: it never signs; ParseCoinsNormalized returns valid coins *)
Definition wf_op (o : op) : Prop :=
  match signer o with Some sg => fst sg <> rns_mod | None => True end /\
  match o with Bid _ _ _ (Some p) => coins_nonneg p | _ => True end.

Definition payment (s : state) (o : op) (s' : state) (r : name_rec) : Prop :=
  match o with
  | Buy _ sg n =>
    exists sl p, get_sale s (nm_full n) = Some sl /\ f_price sl = Some p /\ fst (f_owner sl) = owner_acct r /\
                 paid (bank_of s) (bank_of s') (owner_acct r) (new_coins p) /\
                 (forall d, bal (bank_of s') (fst sg) d = bal (bank_of s) (fst sg) d - amt d (new_coins p))
  | AcceptBid _ sg n from =>
    exists bd, get_bid s (from, nm_full n) = Some bd /\
               paid (bank_of s) (bank_of s') (owner_acct r) (b_price bd)
  | _ => True
  end.

Lemma next_some : forall s o s', handle s o = Some s' -> next s o = s'.
Proof. intros s o s' H. unfold next, step. rewrite H. reflexivity. Qed.
Lemma next_none : forall s o, handle s o = None -> next s o = s.
Proof. intros s o H. unfold next, step. rewrite H. reflexivity. Qed.

Lemma owner_change_requires_consent_step : forall s o k r,
  live s k r -> owner_kept (next s o) k r \/ consent s o k r.
Proof.
  intros s o k r [Hget Hlive].
  destruct (handle s o) as [s'|] eqn:H.
  2:{ rewrite (next_none _ _ H). left. exists r. split; [assumption | reflexivity]. }
  rewrite (next_some _ _ _ H).
  destruct (handle_name_change s o s' k r H Hget Hlive) as [r' [Hg' NC]].
  destruct NC as [-> | sg Hs Ho Hk _ | vb sg n rcv -> Hn Hv _ | vb sg n from bd -> Hn Hv _ _ _ | vb sg n sl p b1 -> Hn Hsl Hv _ _ _ _ _].
  - left. exists r. split; [assumption | reflexivity].
  - left. exists r'. split; assumption.
  - right. cbn. split; [assumption|]. unfold owner_acct. rewrite Hv. reflexivity.
  - right. cbn. split; [assumption|]. unfold owner_acct. rewrite Hv. reflexivity.
  - right. cbn. split; [assumption|]. exists sl. split; [assumption|]. unfold owner_acct. rewrite Hv. reflexivity.
Qed.

Lemma payment_step : forall s o k r,
  live s k r -> wf_op o -> ~ owner_kept (next s o) k r -> payment s o (next s o) r.
Proof.
  intros s o k r [Hget Hlive] [Hsig _] Hmoved.
  destruct (handle s o) as [s'|] eqn:H.
  2:{ exfalso. apply Hmoved. rewrite (next_none _ _ H). exists r. split; [assumption | reflexivity]. }
  rewrite (next_some _ _ _ H) in *.
  destruct (handle_name_change s o s' k r H Hget Hlive) as [r' [Hg' NC]].
  destruct NC as [-> | sg Hs Ho Hk _ | vb sg n rcv -> Hn Hv _ | vb sg n from bd -> Hn Hv Hb Hsend -> | vb sg n sl p b1 -> Hn Hsl Hv Hne Hp Hs1 Hs2 ->].
  - exfalso. apply Hmoved. exists r. split; [assumption | reflexivity].
  - exfalso. apply Hmoved. exists r'. split; assumption.
  - exact I.
  - cbn. exists bd. split; [assumption|]. intros d.
    cbn in Hsig. unfold owner_acct. rewrite Hv. cbn [canon fst].
    rewrite (bal_send _ _ _ _ _ (fst sg) d Hsend), N.eqb_refl.
    destruct (N.eqb (fst sg) rns_mod) eqn:E; [apply N.eqb_eq in E; contradiction | lia].
  - cbn.
    assert (fst sg <> owner_acct r) as Hbuyer.
    { intros C. apply Hmoved. eexists. split; [exact Hg'|]. unfold owner_acct at 1. cbn. exact C. }
    exists sl, p. split; [assumption|]. split; [assumption|].
    assert (fst (f_owner sl) = owner_acct r) as Hso by (unfold owner_acct; rewrite Hv; reflexivity).
    split; [assumption|]. split.
    + intros d. rewrite <- Hso.
      rewrite (bal_send _ _ _ _ _ (fst (f_owner sl)) d Hs2), (bal_send _ _ _ _ _ (fst (f_owner sl)) d Hs1), N.eqb_refl.
      destruct (N.eqb (fst (f_owner sl)) (fst sg)) eqn:E; [apply N.eqb_eq in E; congruence|].
      destruct (N.eqb (fst (f_owner sl)) rns_mod); lia.
    + intros d. cbn in Hsig.
      rewrite (bal_send _ _ _ _ _ (fst sg) d Hs2), (bal_send _ _ _ _ _ (fst sg) d Hs1), N.eqb_refl.
      destruct (N.eqb (fst sg) rns_mod) eqn:E; [apply N.eqb_eq in E; contradiction|].
      destruct (N.eqb (fst sg) (fst (f_owner sl))) eqn:E2; [apply N.eqb_eq in E2; congruence | lia].
Qed.

(* which name a message is about *)
Definition op_target (o : op) : option N :=
  match o with
  | Register _ _ key _ _ _ _ _ => key
  | ListName _ _ n _ | Delist _ _ n | Buy _ _ n | Bid _ _ n _ | CancelBid _ _ n | AcceptBid _ _ n _
  | Transfer _ _ n _ | Update _ _ n _ | AddRecord _ _ n _ _ _ _ _ => nm_key n
  | DelRecord _ _ _ (Some (_, k)) => Some k
  | DelRecord _ _ _ None => None
  | InitName _ _ k _ => Some k
  | MakePrimary _ _ key => key
  | SetHeight _ => None
  end.

(* a purchase through a listing created by the owner of record r *)
Definition legit_buy (s : state) (o : op) (k : N) (r : name_rec) : Prop :=
  exists vb sg n sl, o = Buy vb sg n /\ nm_key n = Some k /\ get_sale s (nm_full n) = Some sl /\
                     fst (f_owner sl) = owner_acct r.

(* the listings table changes only through List / Delist by the owner of the listed name, or a purchase *)
Lemma handle_forsale_change : forall s o s',
  handle s o = Some s' ->
  forsale s' = forsale s \/
  exists sg n k w, signer o = Some sg /\ op_target o = Some k /\ nm_key n = Some k /\ get_name s k = Some w /\
    ((exists vb p, o = ListName vb sg n p) /\ fst sg = owner_acct w \/
     (exists vb, o = Delist vb sg n) /\ fst sg = owner_acct w \/
     (exists vb sl, o = Buy vb sg n /\ get_sale s (nm_full n) = Some sl /\ n_value w = f_owner sl)).
Proof.
  intros s o s' H.
  destruct o as [vb sg key reserved cost years data prim | vb sg n p | vb sg n | vb sg n | vb sg n p | vb sg n | vb sg n from | vb sg n receiver | vb sg n data | vb sg n rr rl v hd data | vb sg n sub | vb sg k0 bad | vb sg key | h]; cbn [handle] in H; try (destruct vb; [|discriminate H]).
  - unfold do_register in H.
    destruct key as [k0|]; [|discriminate H].
    destruct reserved; [discriminate H|].
    destruct ((years <? 1) || (cost <? 1)); [discriminate H|].
    destruct ((years >? max_int64 / cost) || (years >? max_int64 / blocks_per_year)); [discriminate H|].
    cbv zeta in H.
    destruct (reg_expires _ _ _ _); [|discriminate H].
    destruct (send (bank_of s) _ _ _); [|discriminate H].
    destruct (send _ rns_mod pol _); [|discriminate H].
    inversion H; subst s'. left. rewrite reg_primary_forsale. reflexivity.
  - unfold do_list in H. open_handler H. right. do 4 eexists. cbn.
    split; [reflexivity|]. split; [eassumption|]. split; [eassumption|]. split; [eassumption|].
    left. split; [eauto|]. unfold owner_acct; congruence.
  - unfold do_delist in H. open_handler H. right. do 4 eexists. cbn.
    split; [reflexivity|]. split; [eassumption|]. split; [eassumption|]. split; [eassumption|].
    right; left. split; [eauto|]. unfold owner_acct; congruence.
  - unfold do_buy in H. open_handler H. right. do 4 eexists. cbn.
    split; [reflexivity|]. split; [eassumption|]. split; [eassumption|]. split; [eassumption|].
    right; right. do 2 eexists. split; [reflexivity|]. split; eassumption.
  - unfold do_bid in H. open_handler H; left; reflexivity.
  - unfold do_cancel in H. open_handler H; left; reflexivity.
  - unfold do_accept in H. open_handler H; left; reflexivity.
  - unfold do_transfer in H. open_handler H; left; reflexivity.
  - unfold do_update in H. open_handler H; left; reflexivity.
  - unfold do_add_record in H. open_handler H; left; reflexivity.
  - unfold do_del_record in H. open_handler H; left; reflexivity.
  - unfold do_init in H.
    destruct (existsb (addr_eqb sg) (inits s)); [discriminate H|].
    destruct bad; [discriminate H|]. cbv zeta in H.
    destruct (match get_name s k0 with Some w => height s <? n_expires w | None => false end); [discriminate H|].
    apply some_inj in H; subst s'. left; reflexivity.
  - unfold do_make_primary in H. open_handler H; left; reflexivity.
  - inversion H; subst. left; reflexivity.
Qed.

Lemma foreign_step : forall s o k r sg,
  live s k r -> signer o = Some sg -> fst sg <> owner_acct r -> ~ legit_buy s o k r ->
  get_name (next s o) k = Some r /\ (op_target o = Some k -> forsale (next s o) = forsale s).
Proof.
  intros s o k r sg [Hget Hlive] Hs Hne Hnb.
  destruct (handle s o) as [s'|] eqn:H.
  2:{ rewrite (next_none _ _ H). split; [assumption | reflexivity]. }
  rewrite (next_some _ _ _ H). split.
  - destruct (handle_name_change s o s' k r H Hget Hlive) as [r' [Hg' NC]].
    destruct NC as [-> | sg' Hs' Ho _ _ | vb sg' n rcv -> Hn Hv _ | vb sg' n from bd -> Hn Hv _ _ _ | vb sg' n sl p b1 -> Hn Hsl Hv _ _ _ _ _].
    + assumption.
    + exfalso. rewrite Hs in Hs'. inversion Hs'; subst. contradiction.
    + exfalso. cbn in Hs. inversion Hs; subst. apply Hne. unfold owner_acct. rewrite Hv. reflexivity.
    + exfalso. cbn in Hs. inversion Hs; subst. apply Hne. unfold owner_acct. rewrite Hv. reflexivity.
    + exfalso. apply Hnb. exists vb, sg', n, sl. repeat split; try assumption. unfold owner_acct. rewrite Hv. reflexivity.
  - intros Ht. destruct (handle_forsale_change s o s' H) as [E | [sg' [n [k' [w [Hs' [Ht' [Hn [Hw C]]]]]]]]]; [assumption|].
    exfalso. rewrite Ht in Ht'. inversion Ht'; subst k'. rewrite Hget in Hw. inversion Hw; subst w.
    rewrite Hs in Hs'. inversion Hs'; subst sg'.
    destruct C as [[_ C] | [[_ C] | [vb [sl [-> [Hsl Hv]]]]]]; try contradiction.
    apply Hnb. exists vb, sg, n, sl. repeat split; try assumption. unfold owner_acct. rewrite Hv. reflexivity.
Qed.

(* the repaired defect, stated directly: a listing whose creator is not the current owner cannot sell *)
Lemma stale_listing_cannot_sell : forall s vb sg n k sl w,
  nm_key n = Some k -> get_sale s (nm_full n) = Some sl -> get_name s k = Some w ->
  n_value w <> f_owner sl -> handle s (Buy vb sg n) = None.
Proof.
  intros s vb sg n k sl w Hn Hsl Hw Hne. cbn [handle]. destruct vb; [|reflexivity].
  unfold do_buy. rewrite Hsl, Hn, Hw.
  destruct (height s >? n_expires w); [reflexivity|].
  destruct (addr_eqb (n_value w) sg); [reflexivity|].
  destruct (addr_eqb (n_value w) (f_owner sl)) eqn:E; [apply addr_eqb_spec in E; contradiction | reflexivity].
Qed.

(* ------------------------------------------------------------------ lifting over histories *)
Definition step_prop := state -> op -> state -> Prop.
Definition holds_on (P : step_prop) (x : state * op * state) : Prop := P (fst (fst x)) (snd (fst x)) (snd x).

Lemma trace_all : forall (P : step_prop), (forall s o, P s o (next s o)) ->
  forall ops s, Forall (holds_on P) (trace s ops).
Proof.
  intros P HP. induction ops as [|o r IH]; intros s; cbn [trace]; constructor; [apply HP | apply IH].
Qed.

Lemma trace_inv : forall (Inv : state -> Prop) (W : op -> Prop) (P : step_prop),
  (forall s o, Inv s -> W o -> Inv (next s o)) ->
  (forall s o, Inv s -> W o -> P s o (next s o)) ->
  forall ops s, Inv s -> Forall W ops -> Forall (holds_on P) (trace s ops).
Proof.
  intros Inv W P HI HP. induction ops as [|o r IH]; intros s Hs HW; cbn [trace]; constructor.
  - inversion HW; subst. apply HP; assumption.
  - inversion HW; subst. apply IH; [apply HI; assumption | assumption].
Qed.

Lemma run_inv : forall (Inv : state -> Prop) (W : op -> Prop),
  (forall s o, Inv s -> W o -> Inv (next s o)) ->
  forall ops s, Inv s -> Forall W ops -> Inv (run ops s).
Proof.
  intros Inv W HI. induction ops as [|o r IH]; intros s Hs HW; cbn; [assumption|].
  inversion HW; subst. apply IH; [apply HI; assumption | assumption].
Qed.

(* ------------------------------------------------------------------ C09: escrow *)
Lemma mod_in : forall b f cs b', send b f rns_mod cs = Some b' -> f <> rns_mod ->
  forall d, bal b' rns_mod d = bal b rns_mod d + amt d cs.
Proof.
  intros b f cs b' H Hf d. rewrite (bal_send _ _ _ _ _ rns_mod d H), N.eqb_refl.
  destruct (N.eqb rns_mod f) eqn:E; [apply N.eqb_eq in E; congruence | lia].
Qed.

Lemma mod_out : forall b t cs b', send b rns_mod t cs = Some b' -> t <> rns_mod ->
  forall d, bal b' rns_mod d = bal b rns_mod d - amt d cs.
Proof.
  intros b t cs b' H Ht d. rewrite (bal_send _ _ _ _ _ rns_mod d H), N.eqb_refl.
  destruct (N.eqb rns_mod t) eqn:E; [apply N.eqb_eq in E; congruence | lia].
Qed.

Lemma pol_not_mod : pol <> rns_mod.
Proof. discriminate. Qed.

Definition old_amt (d : N) (l : list (bidkey * bid)) (k : bidkey) : Z :=
  match aget bidkey_eqb l k with Some o => amt d (b_price o) | None => 0 end.

Lemma bid_sum_aset : forall d l k b, NoDup (akeys l) ->
  bid_sum d (aset bidkey_eqb l k b) = bid_sum d l - old_amt d l k + amt d (b_price b).
Proof.
  unfold old_amt. induction l as [|[k' b'] r IH]; intros k b ND; cbn [aset aget bid_sum]; [lia|].
  inversion ND as [|? ? Hn Hr]; subst.
  destruct (bidkey_eqb k k') eqn:E; cbn [bid_sum]; [lia|]. rewrite IH by exact Hr. lia.
Qed.

Lemma bid_sum_adel : forall d l k, NoDup (akeys l) ->
  bid_sum d (adel bidkey_eqb l k) = bid_sum d l - old_amt d l k.
Proof.
  unfold old_amt. induction l as [|[k' b'] r IH]; intros k ND; cbn [adel aget bid_sum]; [lia|].
  inversion ND as [|? ? Hn Hr]; subst.
  destruct (bidkey_eqb k k') eqn:E; cbn [bid_sum].
  - apply bidkey_eqb_spec in E; subst k'.
    assert (aget bidkey_eqb r k = None) as G by (apply (aget_none_notin bidkey_eqb bidkey_eqb_spec); exact Hn).
    rewrite IH by exact Hr. rewrite G. lia.
  - rewrite IH by exact Hr. lia.
Qed.

Lemma Forall_aset : forall {K V} (eqb : K -> K -> bool) (P : K * V -> Prop) l k v,
  Forall P l -> P (k, v) -> Forall P (aset eqb l k v).
Proof.
  induction l as [|[k' v'] r IH]; intros k v HF HP; cbn [aset]; [constructor; [assumption|constructor]|].
  inversion HF; subst. destruct (eqb k k'); constructor; try assumption. apply IH; assumption.
Qed.

Lemma Forall_adel : forall {K V} (eqb : K -> K -> bool) (P : K * V -> Prop) l k,
  Forall P l -> Forall P (adel eqb l k).
Proof.
  induction l as [|[k' v'] r IH]; intros k HF; cbn [adel]; [constructor|].
  inversion HF; subst. destruct (eqb k k'); [apply IH; assumption | constructor; [assumption | apply IH; assumption]].
Qed.

Lemma aget_in : forall {K V} (eqb : K -> K -> bool) (l : list (K * V)) k v,
  aget eqb l k = Some v -> exists k', In (k', v) l.
Proof.
  induction l as [|[k' v'] r IH]; intros k v H; cbn [aget] in H; [discriminate|].
  destruct (eqb k k').
  - inversion H; subst. exists k'. left; reflexivity.
  - destruct (IH _ _ H) as [k0 Hin]. exists k0. right; exact Hin.
Qed.

Definition bids_nonneg (l : list (bidkey * bid)) : Prop :=
  Forall (fun kb => coins_nonneg (b_price (snd kb))) l.

Lemma bid_sum_nonneg : forall d l, bids_nonneg l -> 0 <= bid_sum d l.
Proof.
  induction l as [|[k b] r IH]; intros H; cbn [bid_sum]; [lia|].
  inversion H; subst. cbn [snd] in *. pose proof (amt_nonneg d _ H2). specialize (IH H3). lia.
Qed.

Lemma bid_sum_ge : forall d l k b, bids_nonneg l -> In (k, b) l -> amt d (b_price b) <= bid_sum d l.
Proof.
  induction l as [|[k' b'] r IH]; intros k b H Hin; [contradiction|].
  inversion H; subst. cbn [snd bid_sum] in *. destruct Hin as [E|Hin].
  - inversion E; subst. pose proof (bid_sum_nonneg d r H3). lia.
  - pose proof (IH _ _ H3 Hin). pose proof (amt_nonneg d _ H2). lia.
Qed.

Lemma aget_adel_N : forall {V} (l : list (N * V)) k0 k,
  aget N.eqb (adel N.eqb l k0) k = if N.eqb k k0 then None else aget N.eqb l k.
Proof.
  intros. destruct (N.eqb k k0) eqn:E.
  - apply N.eqb_eq in E; subst. apply (aget_adel_same N.eqb).
  - apply (aget_adel_other N.eqb Neqb_spec). intros C; subst. rewrite N.eqb_refl in E. discriminate.
Qed.

(* the inductive invariant behind C09 *)
Record Inv (s : state) : Prop := {
  inv_nodup : NoDup (akeys (bids s));
  inv_escrow : forall d, bal (bank_of s) rns_mod d = bid_sum d (bids s);
  inv_nonneg : bids_nonneg (bids s);
  inv_sellers : forall f sl, get_sale s f = Some sl -> fst (f_owner sl) <> rns_mod
}.

Lemma Inv_genesis : forall b h, (forall d, bal b rns_mod d = 0) -> Inv (genesis b h).
Proof.
  intros b h Hb. constructor; cbn.
  - constructor.
  - exact Hb.
  - constructor.
  - intros f sl H. discriminate H.
Qed.

Lemma Inv_frame : forall s s',
  bids s' = bids s ->
  (forall d, bal (bank_of s') rns_mod d = bal (bank_of s) rns_mod d) ->
  (forall f sl, get_sale s' f = Some sl -> fst (f_owner sl) <> rns_mod) ->
  Inv s -> Inv s'.
Proof.
  intros s s' Hb Hm Hs [I1 I2 I3 I4]. constructor; try rewrite Hb; try assumption.
  intros d. rewrite Hm. apply I2.
Qed.

(* messages other than Bid / CancelBid / AcceptBid *)
Definition not_bidding (o : op) : Prop :=
  match o with Bid _ _ _ _ | CancelBid _ _ _ | AcceptBid _ _ _ _ => False | _ => True end.

Definition quiet (s s' : state) : Prop :=
  bids s' = bids s /\ forall d, bal (bank_of s') rns_mod d = bal (bank_of s) rns_mod d.

Lemma handle_escrow : forall s o s',
  handle s o = Some s' -> wf_op o -> Inv s -> Inv s' /\ (not_bidding o -> quiet s s').
Proof.
  intros s o s' H [Wsig Wbid] I.
  destruct o as [vb sg key reserved cost years data prim | vb sg n p | vb sg n | vb sg n | vb sg n p | vb sg n | vb sg n from | vb sg n receiver | vb sg n data | vb sg n rr rl v hd data | vb sg n sub | vb sg k0 bad | vb sg key | h]; cbn [handle] in H; try (destruct vb; [|discriminate H]); cbn [signer] in Wsig.
  - (* Register *)
    unfold do_register in H.
    destruct key as [k0|]; [|discriminate H].
    destruct reserved; [discriminate H|].
    destruct ((years <? 1) || (cost <? 1)); [discriminate H|].
    destruct ((years >? max_int64 / cost) || (years >? max_int64 / blocks_per_year)); [discriminate H|].
    cbv zeta in H.
    destruct (reg_expires _ _ _ _); [|discriminate H].
    destruct (send (bank_of s) (fst sg) rns_mod [(ujkl, cost * years)]) as [b1|] eqn:E1; [|discriminate H].
    destruct (send b1 rns_mod pol [(ujkl, cost * years)]) as [b2|] eqn:E2; [|discriminate H].
    apply some_inj in H; subst s'.
    assert (forall d, bal b2 rns_mod d = bal (bank_of s) rns_mod d) as Hm.
    { intros d. rewrite (mod_out _ _ _ _ E2 pol_not_mod d), (mod_in _ _ _ _ E1 Wsig d). lia. }
    assert (quiet s (reg_primary (set_names (set_bank s b2) (aset N.eqb (names s) k0
              {| n_value := canon sg; n_expires := z; n_locked := 0; n_data := data; n_subs := [] |})) (canon sg) k0 prim)) as Q.
    { split; [rewrite reg_primary_bids; reflexivity | rewrite reg_primary_bank; exact Hm]. }
    split; [|intros _; exact Q].
    destruct Q as [Qb Qm]. apply (Inv_frame s); try assumption.
    unfold get_sale. rewrite reg_primary_forsale. exact (inv_sellers s I).
  - (* ListName *)
    unfold do_list in H. open_handler H.
    assert (quiet s (set_forsale s (aset N.eqb (forsale s) (nm_full n) {| f_price := p; f_owner := n_value n1 |}))) as Q
      by (split; [reflexivity | intros; reflexivity]).
    split; [|intros _; exact Q]. destruct Q as [Qb Qm]. apply (Inv_frame s); try assumption.
    intros f sl. unfold get_sale. cbn [forsale set_forsale]. rewrite aget_aset_N.
    destruct (N.eqb f (nm_full n)); [intros Hs; apply some_inj in Hs; subst sl; exact Wsig | exact (inv_sellers s I f sl)].
  - (* Delist *)
    unfold do_delist in H. open_handler H.
    assert (quiet s (set_forsale s (adel N.eqb (forsale s) (nm_full n)))) as Q by (split; [reflexivity | intros; reflexivity]).
    split; [|intros _; exact Q]. destruct Q as [Qb Qm]. apply (Inv_frame s); try assumption.
    intros f sl. unfold get_sale. cbn [forsale set_forsale]. rewrite aget_adel_N.
    destruct (N.eqb f (nm_full n)); [discriminate | exact (inv_sellers s I f sl)].
  - (* Buy *)
    unfold do_buy in H. open_handler H.
    match goal with
    | E1 : send (bank_of s) (fst sg) rns_mod ?cs = Some ?b1, E2 : send ?b1 rns_mod (fst (f_owner ?sl)) ?cs = Some ?b2,
      Hs : get_sale s (nm_full n) = Some ?sl |- _ =>
      assert (forall d, bal b2 rns_mod d = bal (bank_of s) rns_mod d) as Hm
        by (intros d; rewrite (mod_out _ _ _ _ E2 (inv_sellers s I _ _ Hs) d), (mod_in _ _ _ _ E1 Wsig d); lia)
    end.
    match goal with |- Inv ?s1 /\ _ => assert (quiet s s1) as Q by (split; [reflexivity | exact Hm]) end.
    split; [|intros _; exact Q]. destruct Q as [Qb Qm]. apply (Inv_frame s); try assumption.
    intros f sl. unfold get_sale. cbn [forsale set_forsale set_names set_bank]. rewrite aget_adel_N.
    destruct (N.eqb f (nm_full n)); [discriminate | exact (inv_sellers s I f sl)].
  - (* Bid *)
    split; [|intros []].
    unfold do_bid in H. destruct p as [p|]; [|discriminate H]. cbn in Wbid.
    destruct (send (bank_of s) (fst sg) rns_mod p) as [b1|] eqn:E1; [|discriminate H]. cbv zeta in H.
    destruct I as [I1 I2 I3 I4].
    destruct (get_bid s (canon sg, nm_full n)) as [old|] eqn:Eo.
    + destruct (send b1 rns_mod (fst sg) (b_price old)) as [b2|] eqn:E2; [|discriminate H].
      apply some_inj in H; subst s'. constructor; cbn [bids bank_of forsale set_bids set_bank].
      * apply (nodup_aset bidkey_eqb bidkey_eqb_spec); exact I1.
      * intros d. rewrite bid_sum_aset by exact I1. unfold old_amt. unfold get_bid in Eo. rewrite Eo. cbn [b_price].
        rewrite (mod_out _ _ _ _ E2 Wsig d), (mod_in _ _ _ _ E1 Wsig d), I2. lia.
      * apply Forall_aset; [exact I3 | exact Wbid].
      * exact I4.
    + apply some_inj in H; subst s'. constructor; cbn [bids bank_of forsale set_bids set_bank].
      * apply (nodup_aset bidkey_eqb bidkey_eqb_spec); exact I1.
      * intros d. rewrite bid_sum_aset by exact I1. unfold old_amt. unfold get_bid in Eo. rewrite Eo. cbn [b_price].
        rewrite (mod_in _ _ _ _ E1 Wsig d), I2. lia.
      * apply Forall_aset; [exact I3 | exact Wbid].
      * exact I4.
  - (* CancelBid *)
    split; [|intros []].
    unfold do_cancel in H. cbv zeta in H.
    destruct (get_bid s (sg, nm_full n)) as [bd|] eqn:Eb; [|discriminate H].
    destruct (send (bank_of s) rns_mod (fst sg) (b_price bd)) as [b1|] eqn:E1; [|discriminate H].
    apply some_inj in H; subst s'. destruct I as [I1 I2 I3 I4].
    constructor; cbn [bids bank_of forsale set_bids set_bank].
    + apply (nodup_adel bidkey_eqb bidkey_eqb_spec); exact I1.
    + intros d. rewrite bid_sum_adel by exact I1. unfold old_amt. unfold get_bid in Eb. rewrite Eb.
      rewrite (mod_out _ _ _ _ E1 Wsig d), I2. lia.
    + apply Forall_adel; exact I3.
    + exact I4.
  - (* AcceptBid *)
    split; [|intros []].
    unfold do_accept in H.
    destruct (nm_key n) as [k|]; [|discriminate H].
    destruct (get_name s k) as [w|]; [|discriminate H].
    destruct (height s >? n_expires w); [discriminate H|].
    destruct (negb (addr_eqb (n_value w) (canon sg))); [discriminate H|].
    destruct (n_locked w >? height s); [discriminate H|]. cbv zeta in H.
    destruct (get_bid s (from, nm_full n)) as [bd|] eqn:Eb; [|discriminate H].
    destruct (send (bank_of s) rns_mod (fst sg) (b_price bd)) as [b1|] eqn:E1; [|discriminate H].
    apply some_inj in H; subst s'. destruct I as [I1 I2 I3 I4].
    constructor; cbn [bids bank_of forsale set_bids set_bank set_names].
    + apply (nodup_adel bidkey_eqb bidkey_eqb_spec); exact I1.
    + intros d. rewrite bid_sum_adel by exact I1. unfold old_amt. unfold get_bid in Eb. rewrite Eb.
      rewrite (mod_out _ _ _ _ E1 Wsig d), I2. lia.
    + apply Forall_adel; exact I3.
    + exact I4.
  - (* Transfer *)
    unfold do_transfer in H. open_handler H.
    match goal with |- Inv ?s1 /\ _ => assert (quiet s s1) as Q by (split; [reflexivity | intros; reflexivity]) end.
    split; [|intros _; exact Q]. destruct Q as [Qb Qm]. apply (Inv_frame s); try assumption. exact (inv_sellers s I).
  - (* Update *)
    unfold do_update in H. open_handler H.
    match goal with |- Inv ?s1 /\ _ => assert (quiet s s1) as Q by (split; [reflexivity | intros; reflexivity]) end.
    split; [|intros _; exact Q]. destruct Q as [Qb Qm]. apply (Inv_frame s); try assumption. exact (inv_sellers s I).
  - (* AddRecord *)
    unfold do_add_record in H. open_handler H.
    match goal with |- Inv ?s1 /\ _ => assert (quiet s s1) as Q by (split; [reflexivity | intros; reflexivity]) end.
    split; [|intros _; exact Q]. destruct Q as [Qb Qm]. apply (Inv_frame s); try assumption. exact (inv_sellers s I).
  - (* DelRecord *)
    unfold do_del_record in H. open_handler H.
    match goal with |- Inv ?s1 /\ _ => assert (quiet s s1) as Q by (split; [reflexivity | intros; reflexivity]) end.
    split; [|intros _; exact Q]. destruct Q as [Qb Qm]. apply (Inv_frame s); try assumption. exact (inv_sellers s I).
  - (* InitName *)
    unfold do_init in H.
    destruct (existsb (addr_eqb sg) (inits s)); [discriminate H|].
    destruct bad; [discriminate H|]. cbv zeta in H.
    destruct (match get_name s k0 with Some w => height s <? n_expires w | None => false end); [discriminate H|].
    apply some_inj in H; subst s'.
    match goal with |- Inv ?s1 /\ _ => assert (quiet s s1) as Q by (split; [reflexivity | intros; reflexivity]) end.
    split; [|intros _; exact Q]. destruct Q as [Qb Qm]. apply (Inv_frame s); try assumption. exact (inv_sellers s I).
  - (* MakePrimary *)
    unfold do_make_primary in H. destruct key; [|discriminate H]. apply some_inj in H; subst s'.
    match goal with |- Inv ?s1 /\ _ => assert (quiet s s1) as Q by (split; [reflexivity | intros; reflexivity]) end.
    split; [|intros _; exact Q]. destruct Q as [Qb Qm]. apply (Inv_frame s); try assumption. exact (inv_sellers s I).
  - (* SetHeight *)
    apply some_inj in H; subst s'.
    match goal with |- Inv ?s1 /\ _ => assert (quiet s s1) as Q by (split; [reflexivity | intros; reflexivity]) end.
    split; [|intros _; exact Q]. destruct Q as [Qb Qm]. apply (Inv_frame s); try assumption. exact (inv_sellers s I).
Qed.

Lemma Inv_step : forall s o, Inv s -> wf_op o -> Inv (next s o).
Proof.
  intros s o I W. destruct (handle s o) as [s'|] eqn:H.
  - rewrite (next_some _ _ _ H). exact (proj1 (handle_escrow s o s' H W I)).
  - rewrite (next_none _ _ H). exact I.
Qed.

Lemma Inv_run : forall ops s, Inv s -> Forall wf_op ops -> Inv (run ops s).
Proof. exact (run_inv Inv wf_op Inv_step). Qed.

Lemma escrow_run : forall ops s, Inv s -> Forall wf_op ops ->
  forall d, bal (bank_of (run ops s)) rns_mod d = bid_sum d (bids (run ops s)).
Proof. intros ops s I W. exact (inv_escrow _ (Inv_run ops s I W)). Qed.

(* registrations, purchases and every other non-bidding message leave the module balance and the bids alone *)
Lemma no_residue_step : forall s o, Inv s -> wf_op o -> not_bidding o -> quiet s (next s o).
Proof.
  intros s o I W NB. destruct (handle s o) as [s'|] eqn:H.
  - rewrite (next_some _ _ _ H). exact (proj2 (handle_escrow s o s' H W I) NB).
  - rewrite (next_none _ _ H). split; [reflexivity | intros; reflexivity].
Qed.

Lemma escrow_covers_bid : forall s k bd, Inv s -> get_bid s k = Some bd ->
  coins_nonneg (b_price bd) /\ forall d, amt d (b_price bd) <= bal (bank_of s) rns_mod d.
Proof.
  intros s k bd [I1 I2 I3 I4] Hb. unfold get_bid in Hb. destruct (aget_in _ _ _ _ Hb) as [k' Hin].
  split.
  - unfold bids_nonneg in I3. rewrite Forall_forall in I3. exact (I3 _ Hin).
  - intros d. rewrite I2. exact (bid_sum_ge d _ _ _ I3 Hin).
Qed.

Lemma get_bid_adel_same : forall s k, aget bidkey_eqb (adel bidkey_eqb (bids s) k) k = None.
Proof. intros. apply (aget_adel_same bidkey_eqb). Qed.

(* cancelling an open bid always succeeds, returns exactly the escrowed coins to the bidder and closes the bid *)
Lemma cancel_refunds_exactly : forall s (sg : addr) n bd,
  Inv s -> fst sg <> rns_mod -> get_bid s (sg, nm_full n) = Some bd ->
  exists s', handle s (CancelBid true sg n) = Some s' /\
    paid (bank_of s) (bank_of s') (fst sg) (b_price bd) /\
    (forall d, bal (bank_of s') rns_mod d = bal (bank_of s) rns_mod d - amt d (b_price bd)) /\
    get_bid s' (sg, nm_full n) = None.
Proof.
  intros s sg n bd I Hsg Hb. destruct (escrow_covers_bid s _ _ I Hb) as [NN LE].
  destruct (send_ok (bank_of s) rns_mod (fst sg) (b_price bd) NN LE) as [b1 E1].
  exists (set_bids (set_bank s b1) (adel bidkey_eqb (bids s) (sg, nm_full n))).
  split; [cbn [handle]; unfold do_cancel; cbv zeta; rewrite Hb, E1; reflexivity|].
  cbn [bank_of bids set_bids set_bank]. split; [|split].
  - intros d. rewrite (bal_send _ _ _ _ _ (fst sg) d E1), N.eqb_refl.
    destruct (N.eqb (fst sg) rns_mod) eqn:E; [apply N.eqb_eq in E; contradiction | lia].
  - exact (mod_out _ _ _ _ E1 Hsg).
  - unfold get_bid. cbn [bids set_bids]. apply get_bid_adel_same.
Qed.

(* accepting an open bid: whenever the owner's checks pass, the payout cannot fail, the owner receives
   exactly the escrowed coins, the bid is closed and the name goes to the bidder *)
Lemma accept_pays_owner_exactly_and_removes : forall s (sg : addr) n (from : addr) k w bd,
  Inv s -> fst sg <> rns_mod ->
  nm_key n = Some k -> get_name s k = Some w -> height s <= n_expires w ->
  n_value w = canon sg -> n_locked w <= height s ->
  get_bid s (from, nm_full n) = Some bd ->
  exists s', handle s (AcceptBid true sg n from) = Some s' /\
    paid (bank_of s) (bank_of s') (fst sg) (b_price bd) /\
    (forall d, bal (bank_of s') rns_mod d = bal (bank_of s) rns_mod d - amt d (b_price bd)) /\
    get_bid s' (from, nm_full n) = None /\
    get_name s' k = Some (with_owner_reset w (b_bidder bd)).
Proof.
  intros s sg n from k w bd I Hsg Hn Hw Hexp Hv Hlock Hb.
  destruct (escrow_covers_bid s _ _ I Hb) as [NN LE].
  destruct (send_ok (bank_of s) rns_mod (fst sg) (b_price bd) NN LE) as [b1 E1].
  exists (set_names (set_bids (set_bank s b1) (adel bidkey_eqb (bids s) (from, nm_full n)))
                    (aset N.eqb (names s) k (with_owner_reset w (b_bidder bd)))).
  split.
  { cbn [handle]. unfold do_accept. rewrite Hn, Hw.
    replace (height s >? n_expires w) with false by (symmetry; rewrite Z.gtb_ltb; apply Z.ltb_ge; lia).
    replace (addr_eqb (n_value w) (canon sg)) with true by (symmetry; apply addr_eqb_spec; exact Hv).
    replace (n_locked w >? height s) with false by (symmetry; rewrite Z.gtb_ltb; apply Z.ltb_ge; lia).
    cbn [negb]. cbv zeta. rewrite Hb, E1. reflexivity. }
  cbn [bank_of bids names set_bids set_bank set_names]. split; [|split; [|split]].
  - intros d. rewrite (bal_send _ _ _ _ _ (fst sg) d E1), N.eqb_refl.
    destruct (N.eqb (fst sg) rns_mod) eqn:E; [apply N.eqb_eq in E; contradiction | lia].
  - exact (mod_out _ _ _ _ E1 Hsg).
  - unfold get_bid. cbn [bids set_bids set_names]. apply get_bid_adel_same.
  - unfold get_name. cbn [names set_names]. rewrite aget_aset_N, N.eqb_refl. reflexivity.
Qed.

(* a successful bid moves exactly (new bid - replaced bid) out of the bidder's account and is recorded *)
Lemma bid_moves_exactly_difference : forall s (sg : addr) n p s',
  fst sg <> rns_mod -> handle s (Bid true sg n (Some p)) = Some s' ->
  (forall d, bal (bank_of s') (fst sg) d =
             bal (bank_of s) (fst sg) d - amt d p + old_amt d (bids s) (canon sg, nm_full n)) /\
  get_bid s' (canon sg, nm_full n) = Some {| b_bidder := canon sg; b_price := p |}.
Proof.
  intros s sg n p s' Hsg H. cbn [handle] in H. unfold do_bid in H.
  destruct (send (bank_of s) (fst sg) rns_mod p) as [b1|] eqn:E1; [|discriminate H]. cbv zeta in H.
  assert (N.eqb (fst sg) rns_mod = false) as Em
    by (destruct (N.eqb (fst sg) rns_mod) eqn:E; [apply N.eqb_eq in E; contradiction | reflexivity]).
  unfold old_amt. unfold get_bid in *.
  destruct (aget bidkey_eqb (bids s) (canon sg, nm_full n)) as [old|] eqn:Eo.
  - destruct (send b1 rns_mod (fst sg) (b_price old)) as [b2|] eqn:E2; [|discriminate H].
    apply some_inj in H; subst s'. cbn [bank_of bids set_bids set_bank]. split.
    + intros d. rewrite (bal_send _ _ _ _ _ (fst sg) d E2), (bal_send _ _ _ _ _ (fst sg) d E1), N.eqb_refl, Em. lia.
    + apply (aget_aset_same bidkey_eqb bidkey_eqb_spec).
  - apply some_inj in H; subst s'. cbn [bank_of bids set_bids set_bank]. split.
    + intros d. rewrite (bal_send _ _ _ _ _ (fst sg) d E1), N.eqb_refl, Em. lia.
    + apply (aget_aset_same bidkey_eqb bidkey_eqb_spec).
Qed.

(* ------------------------------------------------------------------ concrete states for the examples *)
Definition ex_A : addr := (2%N, false).
Definition ex_B : addr := (3%N, false).
Definition ex_C : addr := (4%N, false).
Definition ex_n1 : nm := {| nm_full := 1%N; nm_key := Some 1%N |}.
Definition ex_bank : bank := [((2%N, ujkl), 100000000); ((3%N, ujkl), 100000000); ((4%N, ujkl), 100000000)].
Definition ex_reg (a : addr) : op := Register true a (Some 1%N) false 10000000 1 7%N false.
Definition ex_bids : list op :=
  [ex_reg ex_A; Bid true ex_C ex_n1 (Some [(ujkl, 100)]); Bid true ex_C ex_n1 (Some [(ujkl, 50)])].

(* ------------------------------------------------------------------ the properties over histories *)
Definition consent_prop : step_prop := fun s o s' =>
  forall k r, live s k r -> owner_kept s' k r \/ consent s o k r.
Definition payment_prop : step_prop := fun s o s' =>
  forall k r, live s k r -> ~ owner_kept s' k r -> payment s o s' r.
Definition foreign_prop : step_prop := fun s o s' =>
  forall k r sg, live s k r -> signer o = Some sg -> fst sg <> owner_acct r -> ~ legit_buy s o k r ->
    get_name s' k = Some r /\ (op_target o = Some k -> forsale s' = forsale s).
Definition residue_prop : step_prop := fun s o s' => not_bidding o -> quiet s s'.
Definition escrow_prop : step_prop := fun _ _ s' =>
  forall d, bal (bank_of s') rns_mod d = bid_sum d (bids s').

Lemma owner_change_requires_consent : forall s0 ops, Forall (holds_on consent_prop) (trace s0 ops).
Proof.
  intros s0 ops. apply trace_all. intros s o k r L. apply owner_change_requires_consent_step. exact L.
Qed.

Lemma payment_reaches_previous_owner : forall s0 ops,
  Forall wf_op ops -> Forall (holds_on payment_prop) (trace s0 ops).
Proof.
  intros s0 ops W. apply (trace_inv (fun _ => True) wf_op payment_prop); auto.
  intros s o _ Wo k r L M. exact (payment_step s o k r L Wo M).
Qed.

Lemma foreign_messages_change_nothing : forall s0 ops, Forall (holds_on foreign_prop) (trace s0 ops).
Proof.
  intros s0 ops. apply trace_all. intros s o k r sg L S N B. exact (foreign_step s o k r sg L S N B).
Qed.

Lemma escrow_equals_open_bids : forall s0 ops,
  Inv s0 -> Forall wf_op ops -> Forall (holds_on escrow_prop) (trace s0 ops).
Proof.
  intros s0 ops I W. apply (trace_inv Inv wf_op escrow_prop Inv_step); try assumption.
  intros s o Is Wo. exact (inv_escrow _ (Inv_step s o Is Wo)).
Qed.

Lemma register_and_buy_leave_no_residue : forall s0 ops,
  Inv s0 -> Forall wf_op ops -> Forall (holds_on residue_prop) (trace s0 ops).
Proof.
  intros s0 ops I W. apply (trace_inv Inv wf_op residue_prop Inv_step); try assumption.
  intros s o Is Wo NB. exact (no_residue_step s o Is Wo NB).
Qed.
