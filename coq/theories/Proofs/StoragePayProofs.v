(* Lemmas and invariants for Model/StoragePay.v (property C04). *)
From Coq Require Import ZArith NArith List Bool Lia.
Require Import ZifyBool.
From JK Require Import Base.Dec Base.AList Model.StoragePay.
Import ListNotations.
Open Scope Z_scope.

(* ---------- keys ---------- *)

Lemma acct_eqb_spec a b : acct_eqb a b = true <-> a = b.
Proof.
  destruct a, b; cbn; try (split; [discriminate | intros H; discriminate H]); try tauto.
  - rewrite N.eqb_eq. split; [intros ->; reflexivity | intros H; inversion H; reflexivity].
  - rewrite !andb_true_iff, !Z.eqb_eq. split; [intros [[-> ->] ->]; reflexivity | intros H; inversion H; auto].
Qed.

Lemma gkey_eqb_spec a b : gkey_eqb a b = true <-> a = b.
Proof.
  destruct a as [[h e] a], b as [[h' e'] a']; cbn.
  rewrite !andb_true_iff, !Z.eqb_eq. split; [intros [[-> ->] ->]; reflexivity | intros H; inversion H; auto].
Qed.

Lemma acct_eqb_refl a : acct_eqb a a = true.
Proof. apply acct_eqb_spec. reflexivity. Qed.

Lemma acct_eqb_sym a b : acct_eqb a b = acct_eqb b a.
Proof.
  destruct (acct_eqb a b) eqn:E, (acct_eqb b a) eqn:F; try reflexivity.
  - apply acct_eqb_spec in E. subst. rewrite acct_eqb_refl in F. discriminate.
  - apply acct_eqb_spec in F. subst. rewrite acct_eqb_refl in E. discriminate.
Qed.

(* x if a = y, else 0 *)
Definition ind (a y : acct) (x : Z) : Z := if acct_eqb a y then x else 0.

Lemma ind_same a x : ind a a x = x.
Proof. unfold ind. rewrite acct_eqb_refl. reflexivity. Qed.
Lemma ind_other a y x : a <> y -> ind a y x = 0.
Proof. intros N. unfold ind. destruct (acct_eqb a y) eqn:E; [apply acct_eqb_spec in E; contradiction | reflexivity]. Qed.

(* ---------- exact percent arithmetic on the Dec model ---------- *)

Lemma P16_pos : 0 < P16. Proof. reflexivity. Qed.
Lemma P18_P16 : P18 = 100 * P16. Proof. vm_compute. reflexivity. Qed.
Global Opaque P16.

Lemma chop_round_mul n : chop_round (n * P18) = n.
Proof.
  pose proof P18_pos. unfold chop_round. destruct (Z.ltb_spec (n * P18) 0).
  - replace (- (n * P18)) with ((- n) * P18) by ring. rewrite chop_nn_exact by nia. lia.
  - apply chop_nn_exact. nia.
Qed.

(* amount.ToDec().Mul(k%).TruncateInt() is the truncated quotient amount*k / 100 *)
Lemma share_exact t k : dtrunc (dmul (dec t) (k * P16)) = Z.quot (t * k) 100.
Proof.
  pose proof P16_pos. unfold dmul, dec.
  replace (t * P18 * (k * P16)) with ((t * k * P16) * P18) by ring.
  rewrite chop_round_mul. unfold dtrunc. rewrite P18_P16.
  replace (t * k * P16) with ((t * k) * P16) by ring.
  apply Z.quot_mul_cancel_r; lia.
Qed.

(* sdk.NewDec(r).QuoInt64(100) *)
Lemma pct_dec r : dquo_int (dec r) 100 = r * P16.
Proof.
  unfold dquo_int, dec. rewrite P18_P16.
  replace (r * (100 * P16)) with ((r * P16) * 100) by ring. apply Z.quot_mul. lia.
Qed.

Lemma quot_floor a : 0 <= a -> Z.quot a 100 = a / 100.
Proof. intros. apply Z.quot_div_nonneg; lia. Qed.

Lemma quot_nonneg_bounds a : 0 <= a -> 100 * Z.quot a 100 <= a < 100 * Z.quot a 100 + 100.
Proof.
  intros Ha. rewrite quot_floor by exact Ha.
  pose proof (Z.div_mod a 100 ltac:(lia)). pose proof (Z.mod_pos_bound a 100 ltac:(lia)). lia.
Qed.

Lemma quot_nonpos a : a <= 0 -> Z.quot a 100 <= 0.
Proof.
  intros Ha. replace a with (- (- a)) by lia. rewrite Z.quot_opp_l by lia.
  assert (0 <= Z.quot (- a) 100) by (apply Z.quot_pos; lia). lia.
Qed.

(* ---------- the amounts of a purchase, as the handler computes them ---------- *)

Definition q_pay (m : buy_msg) (p : Z) : Z := to_pay_of m p.
Definition q_spc (e : env) (m : buy_msg) (p : Z) : Z :=
  dtrunc (dmul (dec (q_pay m p)) (dec 1 - dquo_int (dec (e_refc e)) 100 - pol_dec e m - discount_dec m)).
Definition q_pol (e : env) (m : buy_msg) (p : Z) : Z := dtrunc (dmul (dec (q_pay m p)) (pol_dec e m)).
Definition q_ref (e : env) (m : buy_msg) (p : Z) : Z :=
  dtrunc (dmul (dec (q_pay m p)) (dquo_int (dec (e_refc e)) 100)).
Definition q_key (e : env) (m : buy_msg) (p : Z) : gkey :=
  (e_height e, (e_now e + buy_duration m) / 1000, q_spc e m p).
(* who gets the referral share: a distinct valid referrer, else the fee collector *)
Definition q_rcpt (m : buy_msg) : acct := match referrer m with Some ra => ra | None => AFee end.

Lemma discount_pct_range m : discount_pct m = 0 \/ discount_pct m = 5 \/ discount_pct m = 10.
Proof. unfold discount_pct. destruct (referrer m); [destruct (_ <? _)|]; auto. Qed.

Lemma pol_dec_eq e m : pol_dec e m = (e_pol e - discount_pct m) * P16.
Proof.
  unfold pol_dec, discount_pct, d_0_05, d_0_1. rewrite pct_dec.
  destruct (referrer m); [destruct (_ <? _)|]; ring.
Qed.

Lemma discount_dec_eq m : discount_dec m = discount_pct m * P16.
Proof.
  unfold discount_dec, discount_pct.
  destruct (referrer m); [destruct (_ <? _)|]; rewrite ?pct_dec; unfold dec; ring.
Qed.

Lemma q_pay_eq m p : q_pay m p = Z.quot (p * (100 - discount_pct m)) 100.
Proof.
  unfold q_pay, to_pay_of, discount_pct, d_0_95, d_0_90.
  destruct (referrer m); [destruct (_ <? _)|]; rewrite ?share_exact; try reflexivity.
  replace (p * (100 - 0)) with (p * 100) by ring. symmetry. apply Z.quot_mul. lia.
Qed.

Lemma q_spc_eq e m p : q_spc e m p = Z.quot (q_pay m p * (100 - e_refc e - e_pol e)) 100.
Proof.
  unfold q_spc. rewrite pct_dec, pol_dec_eq, discount_dec_eq. unfold dec at 2. rewrite P18_P16.
  replace (1 * (100 * P16) - e_refc e * P16 - (e_pol e - discount_pct m) * P16 - discount_pct m * P16)
    with ((100 - e_refc e - e_pol e) * P16) by ring.
  apply share_exact.
Qed.

Lemma q_pol_eq e m p : q_pol e m p = Z.quot (q_pay m p * (e_pol e - discount_pct m)) 100.
Proof. unfold q_pol. rewrite pol_dec_eq. apply share_exact. Qed.

Lemma q_ref_eq e m p : q_ref e m p = Z.quot (q_pay m p * e_refc e) 100.
Proof. unfold q_ref. rewrite pct_dec. apply share_exact. Qed.

(* ---------- the base price is never negative ---------- *)

Lemma upgrade_price_pos e bytes duration cost pi p used :
  upgrade_price e bytes duration cost pi = BPrice p used -> 0 < p /\ used = p_used pi.
Proof.
  unfold upgrade_price. destruct (storage_cost _ _ _ _); [|discriminate].
  destruct (_ <=? 0); [discriminate|]. destruct (_ <? _); [discriminate|].
  destruct (Z.leb_spec (cost - z) 0) as [|Hpos]; [discriminate|]. intros HH. inversion HH. subst. split; [lia | reflexivity].
Qed.

Lemma base_price_nonneg e m s p used : base_price e m s = BPrice p used -> 0 <= p /\ 0 < buy_duration m.
Proof.
  unfold base_price. destruct (_ <=? 0); [discriminate|]. destruct (b_for m); [|discriminate].
  destruct (Z.ltb_spec (buy_duration m) MONTH_NS); [discriminate|].
  assert (0 < buy_duration m) by (unfold MONTH_NS, DAY_NS in *; lia).
  destruct (_ <=? 0); [discriminate|]. destruct (negb _); [discriminate|].
  destruct (storage_cost _ _ _ _) as [cost|]; [|discriminate].
  destruct (Z.ltb_spec cost 0); [discriminate|].
  destruct (aget _ _ _) as [pi|].
  - destruct (_ <? _); [discriminate|]. destruct (_ <? _).
    + intros H'. apply upgrade_price_pos in H'. lia.
    + intros H'. inversion H'. subst. lia.
  - intros H'. inversion H'. subst. lia.
Qed.

Lemma q_pay_nonneg m p : 0 <= p -> 0 <= q_pay m p.
Proof.
  intros Hp. rewrite q_pay_eq. apply Z.quot_pos; [|lia].
  pose proof (discount_pct_range m). nia.
Qed.

Lemma q_pay_le m p : 0 <= p -> q_pay m p <= p.
Proof.
  intros Hp. rewrite q_pay_eq. pose proof (discount_pct_range m) as D.
  assert (0 <= p * (100 - discount_pct m)) by nia.
  pose proof (quot_nonneg_bounds _ H). nia.
Qed.

(* ---------- the bank ---------- *)

Definition bank_ok (b : bank) : Prop := NoDup (akeys b) /\ forall a, 0 <= bal b a.

Lemma bal_credit b a x y : bal (credit b a x) y = bal b y + ind a y x.
Proof.
  unfold credit, bal, aval, ind. destruct (acct_eqb a y) eqn:E.
  - apply acct_eqb_spec in E. subst y. rewrite (aget_aset_same acct_eqb acct_eqb_spec). lia.
  - rewrite (aget_aset_other acct_eqb acct_eqb_spec).
    + lia.
    + intros ->. rewrite acct_eqb_refl in E. discriminate.
Qed.

Lemma nodup_credit b a x : NoDup (akeys b) -> NoDup (akeys (credit b a x)).
Proof. apply (nodup_aset acct_eqb acct_eqb_spec). Qed.

Lemma total_credit b a x : NoDup (akeys b) -> total (credit b a x) = total b + x.
Proof.
  intros ND. unfold total, credit. rewrite (asum_aset acct_eqb) by exact ND. unfold bal. lia.
Qed.

Lemma send_bal b f t x b' y : send b f t x = Some b' -> bal b' y = bal b y - ind f y x + ind t y x.
Proof.
  unfold send. destruct (Z.eqb_spec x 0) as [->|NZ].
  - intros H. inversion H. subst. unfold ind. destruct (acct_eqb f y), (acct_eqb t y); lia.
  - destruct (_ <? _); [discriminate|]. intros H. inversion H. subst.
    rewrite !bal_credit. unfold ind. destruct (acct_eqb f y), (acct_eqb t y); lia.
Qed.

Lemma send_enough b f t x b' : send b f t x = Some b' -> x = 0 \/ x <= bal b f.
Proof.
  unfold send. destruct (Z.eqb_spec x 0); [auto|]. destruct (Z.ltb_spec (bal b f) x); [discriminate|]. auto.
Qed.

Lemma send_ok b f t x b' : bank_ok b -> 0 <= x -> send b f t x = Some b' -> bank_ok b' /\ total b' = total b.
Proof.
  intros [ND NN] Hx H. pose proof (send_enough _ _ _ _ _ H) as En. split; [split|].
  - unfold send in H. destruct (x =? 0); [inversion H; subst; exact ND|].
    destruct (_ <? _); [discriminate|]. inversion H. subst. apply nodup_credit, nodup_credit, ND.
  - intros a. rewrite (send_bal _ _ _ _ _ a H). pose proof (NN a).
    unfold ind. destruct (acct_eqb f a) eqn:E; destruct (acct_eqb t a); try lia;
      apply acct_eqb_spec in E; subst; lia.
  - unfold send in H. destruct (x =? 0); [inversion H; subst; reflexivity|].
    destruct (_ <? _); [discriminate|]. inversion H. subst.
    rewrite total_credit by (apply nodup_credit, ND). rewrite total_credit by exact ND. lia.
Qed.

(* a transfer never lowers the balance of anybody but the sender *)
Lemma send_mono b f t x b' y : 0 <= x -> send b f t x = Some b' -> y <> f -> bal b y <= bal b' y.
Proof.
  intros Hx H N. rewrite (send_bal _ _ _ _ _ y H). rewrite (ind_other f y) by congruence.
  unfold ind. destruct (acct_eqb t y); lia.
Qed.

(* ---------- gauges ---------- *)

Lemma recorded_new_gauge_same g k c : recorded (new_gauge g k c) k = recorded g k + c.
Proof.
  unfold new_gauge, recorded, aval. destruct (aget gkey_eqb g k) eqn:E;
    rewrite (aget_aset_same gkey_eqb gkey_eqb_spec); lia.
Qed.

Lemma recorded_new_gauge_other g k c k' : k' <> k -> recorded (new_gauge g k c) k' = recorded g k'.
Proof.
  intros N. unfold new_gauge, recorded, aval. destruct (aget gkey_eqb g k);
    rewrite (aget_aset_other gkey_eqb gkey_eqb_spec) by exact N; reflexivity.
Qed.

Lemma escrow_inj k k' : escrow k = escrow k' -> k = k'.
Proof. destruct k as [[h e] a], k' as [[h' e'] a']. cbn. intros H. inversion H. reflexivity. Qed.

Lemma escrow_not_user k n : escrow k <> AUser n.
Proof. destruct k as [[h e] a]. discriminate. Qed.
Lemma escrow_not_mod k : escrow k <> AMod.
Proof. destruct k as [[h e] a]. discriminate. Qed.

(* ---------- BuyStorage: what a success consists of ---------- *)

Lemma buy_ok_chain e m s s' :
  buy_storage e m s = (Ok, s') ->
  exists p used fa b1 b2 b3 b4,
    base_price e m s = BPrice p used /\ b_for m = Some fa /\
    send (s_bank s) (AUser (b_payer m)) AMod (q_pay m p) = Some b1 /\
    0 <= q_spc e m p /\ send b1 AMod (escrow (q_key e m p)) (q_spc e m p) = Some b2 /\
    0 <= q_pol e m p /\ send b2 AMod APol (q_pol e m p) = Some b3 /\
    0 <= q_ref e m p /\ send b3 AMod (q_rcpt m) (q_ref e m p) = Some b4 /\
    (forall ra, referrer m = Some ra -> is_blocked ra (b_ref_blocked m) = false) /\
    s' = {| s_bank := b4;
            s_gauges := new_gauge (s_gauges s) (q_key e m p) (q_spc e m p);
            s_plans := aset acct_eqb (s_plans s) fa
                         {| p_start := e_now e; p_end := e_now e + buy_duration m;
                            p_avail := b_bytes m; p_used := used |} |}.
Proof.
  unfold buy_storage. destruct (base_price e m s) as [| |p used] eqn:BP; [discriminate | destruct (b_for m); discriminate |].
  destruct (b_for m) as [fa|] eqn:BF; [|discriminate].
  cbv zeta.
  change (to_pay_of m p) with (q_pay m p).
  destruct (send (s_bank s) (AUser (b_payer m)) AMod (q_pay m p)) as [b1|] eqn:S1; [|discriminate].
  change (dtrunc (dmul (dec (q_pay m p)) (dec 1 - dquo_int (dec (e_refc e)) 100 - pol_dec e m - discount_dec m)))
    with (q_spc e m p).
  destruct (Z.ltb_spec (q_spc e m p) 0) as [|Hspc]; [discriminate|].
  change (e_height e, (e_now e + buy_duration m) / 1000, q_spc e m p) with (q_key e m p).
  destruct (send b1 AMod (escrow (q_key e m p)) (q_spc e m p)) as [b2|] eqn:S2; [|discriminate].
  change (dtrunc (dmul (dec (q_pay m p)) (pol_dec e m))) with (q_pol e m p).
  destruct (Z.ltb_spec (q_pol e m p) 0) as [|Hpol]; [discriminate|].
  destruct (send b2 AMod APol (q_pol e m p)) as [b3|] eqn:S3; [|discriminate].
  change (dtrunc (dmul (dec (q_pay m p)) (dquo_int (dec (e_refc e)) 100))) with (q_ref e m p).
  destruct (Z.ltb_spec (q_ref e m p) 0) as [|Href]; [discriminate|].
  unfold q_rcpt.
  destruct (referrer m) as [ra|] eqn:R.
  - destruct (is_blocked ra (b_ref_blocked m)) eqn:B; [discriminate|].
    destruct (send b3 AMod ra (q_ref e m p)) as [b4|] eqn:S4; [|discriminate].
    intros H. inversion H. subst s'. exists p, used, fa, b1, b2, b3, b4.
    repeat (split; [first [reflexivity | assumption]|]).
    split; [intros ra' E; inversion E; subst; exact B | reflexivity].
  - destruct (send b3 AMod AFee (q_ref e m p)) as [b4|] eqn:S4; [|discriminate].
    intros H. inversion H. subst s'. exists p, used, fa, b1, b2, b3, b4.
    repeat (split; [first [reflexivity | assumption]|]).
    split; [intros ra' E; discriminate E | reflexivity].
Qed.

Lemma buy_fail_noop e m s o s' : buy_storage e m s = (o, s') -> o <> Ok -> s' = s.
Proof.
  unfold buy_storage. intros H N.
  destruct (base_price e m s); destruct (b_for m); try (inversion H; reflexivity).
  cbv zeta in H.
  repeat match type of H with
  | (match ?x with _ => _ end) = _ => destruct x; try (inversion H; subst; first [reflexivity | contradiction N; reflexivity])
  | (if ?x then _ else _) = _ => destruct x; try (inversion H; subst; first [reflexivity | contradiction N; reflexivity])
  end.
Qed.

(* every account's balance after a successful purchase *)
Definition buy_delta (e : env) (m : buy_msg) (p : Z) (y : acct) : Z :=
  - ind (AUser (b_payer m)) y (q_pay m p)
  + ind AMod y (q_pay m p - q_spc e m p - q_pol e m p - q_ref e m p)
  + ind (escrow (q_key e m p)) y (q_spc e m p)
  + ind APol y (q_pol e m p)
  + ind (q_rcpt m) y (q_ref e m p).

Lemma ind_sub a y u v : ind a y (u - v) = ind a y u - ind a y v.
Proof. unfold ind. destruct (acct_eqb a y); lia. Qed.

Lemma buy_ok_balances e m s s' :
  buy_storage e m s = (Ok, s') ->
  exists p used, base_price e m s = BPrice p used /\
    0 <= q_pay m p /\ 0 <= q_spc e m p /\ 0 <= q_pol e m p /\ 0 <= q_ref e m p /\
    (q_pay m p = 0 \/ q_pay m p <= bal (s_bank s) (AUser (b_payer m))) /\
    (forall y, bal (s_bank s') y = bal (s_bank s) y + buy_delta e m p y) /\
    recorded (s_gauges s') (q_key e m p) = recorded (s_gauges s) (q_key e m p) + q_spc e m p /\
    (forall k, k <> q_key e m p -> recorded (s_gauges s') k = recorded (s_gauges s) k).
Proof.
  intros H. destruct (buy_ok_chain _ _ _ _ H) as (p & used & fa & b1 & b2 & b3 & b4 & BP & BF & S1 & Hs & S2 & Hp & S3 & Hr & S4 & _ & ->).
  exists p, used. split; [exact BP|].
  pose proof (base_price_nonneg _ _ _ _ _ BP) as [Hp0 _].
  split; [apply q_pay_nonneg; exact Hp0|]. do 3 (split; [assumption|]).
  split; [exact (send_enough _ _ _ _ _ S1)|].
  split; [|split].
  - intros y. cbn [s_bank].
    rewrite (send_bal _ _ _ _ _ y S4), (send_bal _ _ _ _ _ y S3), (send_bal _ _ _ _ _ y S2), (send_bal _ _ _ _ _ y S1).
    unfold buy_delta. rewrite !ind_sub. lia.
  - cbn [s_gauges]. apply recorded_new_gauge_same.
  - intros k N. cbn [s_gauges]. apply recorded_new_gauge_other. exact N.
Qed.

(* the three shares never exceed what was paid, for percentages in range *)
Lemma shares_le_pay e m p :
  valid_env e -> 0 <= q_pay m p -> 0 <= q_pol e m p ->
  q_spc e m p + q_pol e m p + q_ref e m p <= q_pay m p.
Proof.
  intros (Hr & Hpo & Hsum) Ht Hpol.
  rewrite q_spc_eq, q_ref_eq. rewrite q_pol_eq in *.
  set (t := q_pay m p) in *. pose proof (discount_pct_range m) as D.
  assert (A1 : 0 <= t * (100 - e_refc e - e_pol e)) by nia.
  assert (A2 : 0 <= t * e_refc e) by nia.
  pose proof (quot_nonneg_bounds _ A1). pose proof (quot_nonneg_bounds _ A2).
  destruct (Z_le_gt_dec 0 (t * (e_pol e - discount_pct m))) as [A3|A3].
  - pose proof (quot_nonneg_bounds _ A3). nia.
  - pose proof (quot_nonpos (t * (e_pol e - discount_pct m)) ltac:(lia)).
    assert (Z.quot (t * (e_pol e - discount_pct m)) 100 = 0) as -> by lia. nia.
Qed.

(* ---------- PostFile, one-time payment ---------- *)

Definition post_kbs (m : post_msg) : Z :=
  let kbs0 := Z.quot (wrap64 (pm_size m * pm_maxproofs m)) 1000 in if kbs0 <? 1024 then 1024 else kbs0.
Definition post_hours (e : env) (m : post_msg) : Z :=
  Z.quot (Z.quot (wrap64 (wrap64 (pm_expires m - e_height e) * 6)) 60) 60.
(* the provider share of a one-time payment *)
Definition post_spc (e : env) (cost : Z) : Z :=
  dtrunc (dmul (dec cost) (dec 1 - dquo_int (dec (e_refc e)) 100 - dquo_int (dec (e_pol e)) 100)).
Definition post_key (e : env) (m : post_msg) (cost : Z) : gkey := (e_height e, pm_end_us m, post_spc e cost).

Lemma post_spc_eq e cost : post_spc e cost = Z.quot (cost * (100 - e_refc e - e_pol e)) 100.
Proof.
  unfold post_spc. rewrite !pct_dec. unfold dec at 2. rewrite P18_P16.
  replace (1 * (100 * P16) - e_refc e * P16 - e_pol e * P16) with ((100 - e_refc e - e_pol e) * P16) by ring.
  apply share_exact.
Qed.

Lemma post_ok_chain e m s s' :
  post_file e m s = Some (Ok, s') ->
  exists cost b1 b2,
    storage_cost_kbs (e_ppt e) (e_jkl e) (post_kbs m) (post_hours e m) = Some cost /\
    0 < pm_expires m /\ 0 <= cost /\ 0 <= post_spc e cost /\
    send (s_bank s) (AUser (pm_payer m)) AMod cost = Some b1 /\
    send b1 AMod (escrow (post_key e m cost)) (post_spc e cost) = Some b2 /\
    s' = {| s_bank := b2; s_gauges := new_gauge (s_gauges s) (post_key e m cost) (post_spc e cost); s_plans := s_plans s |}.
Proof.
  unfold post_file. destruct (_ || _); [discriminate|]. destruct (_ <? _); [discriminate|].
  destruct (negb _); [discriminate|]. cbv zeta.
  destruct (Z.leb_spec (pm_expires m) 0) as [|Hex]; [discriminate|].
  destruct (_ <=? 0); [discriminate|].
  change (if Z.quot (wrap64 (pm_size m * pm_maxproofs m)) 1000 <? 1024 then 1024
          else Z.quot (wrap64 (pm_size m * pm_maxproofs m)) 1000) with (post_kbs m).
  change (Z.quot (Z.quot (wrap64 (wrap64 (pm_expires m - e_height e) * 6)) 60) 60) with (post_hours e m).
  destruct (storage_cost_kbs _ _ _ _) as [cost|] eqn:C; [|discriminate].
  destruct (Z.ltb_spec cost 0) as [|Hc]; [discriminate|].
  change (dtrunc (dmul (dec cost) (dec 1 - dquo_int (dec (e_refc e)) 100 - dquo_int (dec (e_pol e)) 100)))
    with (post_spc e cost).
  destruct (Z.ltb_spec (post_spc e cost) 0) as [|Hs]; [discriminate|].
  destruct (negb (pm_end_ok m)); [discriminate|].
  change (e_height e, pm_end_us m, post_spc e cost) with (post_key e m cost).
  destruct (send (s_bank s) _ AMod cost) as [b1|] eqn:S1; [|discriminate].
  destruct (send b1 AMod _ _) as [b2|] eqn:S2; [|discriminate].
  intros H. inversion H. subst s'. exists cost, b1, b2. repeat (split; [first [reflexivity | assumption]|]). reflexivity.
Qed.

Lemma post_fail_noop e m s o s' : post_file e m s = Some (o, s') -> o <> Ok -> s' = s.
Proof.
  unfold post_file. intros H N. cbv zeta in H.
  repeat match type of H with
  | (match ?x with _ => _ end) = _ => destruct x; try discriminate; try (inversion H; subst; first [reflexivity | contradiction N; reflexivity])
  | (if ?x then _ else _) = _ => destruct x; try discriminate; try (inversion H; subst; first [reflexivity | contradiction N; reflexivity])
  end.
Qed.

Definition post_delta (e : env) (m : post_msg) (cost : Z) (y : acct) : Z :=
  - ind (AUser (pm_payer m)) y cost
  + ind AMod y (cost - post_spc e cost)
  + ind (escrow (post_key e m cost)) y (post_spc e cost).

Lemma post_ok_balances e m s s' :
  post_file e m s = Some (Ok, s') ->
  exists cost, storage_cost_kbs (e_ppt e) (e_jkl e) (post_kbs m) (post_hours e m) = Some cost /\
    0 <= cost /\ 0 <= post_spc e cost /\
    (cost = 0 \/ cost <= bal (s_bank s) (AUser (pm_payer m))) /\
    (forall y, bal (s_bank s') y = bal (s_bank s) y + post_delta e m cost y) /\
    recorded (s_gauges s') (post_key e m cost) = recorded (s_gauges s) (post_key e m cost) + post_spc e cost /\
    (forall k, k <> post_key e m cost -> recorded (s_gauges s') k = recorded (s_gauges s) k) /\
    s_plans s' = s_plans s.
Proof.
  intros H. destruct (post_ok_chain _ _ _ _ H) as (cost & b1 & b2 & C & _ & Hc & Hs & S1 & S2 & ->).
  exists cost. split; [exact C|]. do 2 (split; [assumption|]).
  split; [exact (send_enough _ _ _ _ _ S1)|]. split; [|split; [|split]].
  - intros y. cbn [s_bank]. rewrite (send_bal _ _ _ _ _ y S2), (send_bal _ _ _ _ _ y S1).
    unfold post_delta. rewrite ind_sub. lia.
  - cbn [s_gauges]. apply recorded_new_gauge_same.
  - intros k N. cbn [s_gauges]. apply recorded_new_gauge_other. exact N.
  - reflexivity.
Qed.

Lemma post_spc_le e cost : valid_env e -> 0 <= cost -> post_spc e cost <= cost.
Proof.
  intros (Hr & Hp & Hsum) Hc. rewrite post_spc_eq.
  assert (A : 0 <= cost * (100 - e_refc e - e_pol e)) by nia.
  pose proof (quot_nonneg_bounds _ A). nia.
Qed.

(* ---------- invariants over histories ---------- *)

(* distinct account keys, no negative balance, every gauge backed by its escrow account *)
Definition inv (s : pstate) : Prop :=
  bank_ok (s_bank s) /\ forall k, recorded (s_gauges s) k <= bal (s_bank s) (escrow k).

Lemma buy_step_inv e m s : inv s -> inv (snd (buy_storage e m s)) /\
  total (s_bank (snd (buy_storage e m s))) = total (s_bank s).
Proof.
  intros [BO BK]. destruct (buy_storage e m s) as [o s'] eqn:H. cbn [snd].
  destruct o; try (rewrite (buy_fail_noop _ _ _ _ _ H ltac:(discriminate)); split; [split; assumption | reflexivity]).
  destruct (buy_ok_chain _ _ _ _ H) as (p & used & fa & b1 & b2 & b3 & b4 & BP & BF & S1 & Hs & S2 & Hp & S3 & Hr & S4 & _ & ->).
  pose proof (base_price_nonneg _ _ _ _ _ BP) as [Hp0 _]. pose proof (q_pay_nonneg m p Hp0) as Ht.
  destruct (send_ok _ _ _ _ _ BO Ht S1) as [O1 T1].
  destruct (send_ok _ _ _ _ _ O1 Hs S2) as [O2 T2].
  destruct (send_ok _ _ _ _ _ O2 Hp S3) as [O3 T3].
  destruct (send_ok _ _ _ _ _ O3 Hr S4) as [O4 T4].
  unfold inv. cbn [s_bank s_gauges]. split; [split; [exact O4|] | lia].
  intros k.
  assert (M1 : bal (s_bank s) (escrow k) <= bal b1 (escrow k)) by (apply (send_mono _ _ _ _ _ _ Ht S1), escrow_not_user).
  assert (M3 : bal b2 (escrow k) <= bal b3 (escrow k)) by (apply (send_mono _ _ _ _ _ _ Hp S3), escrow_not_mod).
  assert (M4 : bal b3 (escrow k) <= bal b4 (escrow k)) by (apply (send_mono _ _ _ _ _ _ Hr S4), escrow_not_mod).
  pose proof (send_bal _ _ _ _ _ (escrow k) S2) as E2. rewrite (ind_other AMod) in E2 by (intros C; symmetry in C; exact (escrow_not_mod _ C)).
  destruct (gkey_eqb k (q_key e m p)) eqn:EK.
  - apply gkey_eqb_spec in EK. subst k. rewrite recorded_new_gauge_same. rewrite ind_same in E2. pose proof (BK (q_key e m p)). lia.
  - assert (k <> q_key e m p) as NK by (intros ->; rewrite (proj2 (gkey_eqb_spec _ _) eq_refl) in EK; discriminate).
    rewrite recorded_new_gauge_other by exact NK.
    rewrite ind_other in E2 by (intros C; apply escrow_inj in C; congruence).
    pose proof (BK k). lia.
Qed.

Lemma post_step_inv e m s o s' : inv s -> post_file e m s = Some (o, s') ->
  inv s' /\ total (s_bank s') = total (s_bank s).
Proof.
  intros [BO BK] H.
  destruct o; try (rewrite (post_fail_noop _ _ _ _ _ H ltac:(discriminate)); split; [split; assumption | reflexivity]).
  destruct (post_ok_chain _ _ _ _ H) as (cost & b1 & b2 & C & _ & Hc & Hs & S1 & S2 & ->).
  destruct (send_ok _ _ _ _ _ BO Hc S1) as [O1 T1].
  destruct (send_ok _ _ _ _ _ O1 Hs S2) as [O2 T2].
  unfold inv. cbn [s_bank s_gauges]. split; [split; [exact O2|] | lia].
  intros k.
  assert (M1 : bal (s_bank s) (escrow k) <= bal b1 (escrow k)) by (apply (send_mono _ _ _ _ _ _ Hc S1), escrow_not_user).
  pose proof (send_bal _ _ _ _ _ (escrow k) S2) as E2. rewrite (ind_other AMod) in E2 by (intros C'; symmetry in C'; exact (escrow_not_mod _ C')).
  destruct (gkey_eqb k (post_key e m cost)) eqn:EK.
  - apply gkey_eqb_spec in EK. subst k. rewrite recorded_new_gauge_same. rewrite ind_same in E2. pose proof (BK (post_key e m cost)). lia.
  - assert (k <> post_key e m cost) as NK by (intros ->; rewrite (proj2 (gkey_eqb_spec _ _) eq_refl) in EK; discriminate).
    rewrite recorded_new_gauge_other by exact NK.
    rewrite ind_other in E2 by (intros C'; apply escrow_inj in C'; congruence).
    pose proof (BK k). lia.
Qed.

Lemma step_inv s o : inv s -> inv (step s o) /\ total (s_bank (step s o)) = total (s_bank s).
Proof.
  intros I. destruct o as [e m|e m]; cbn [step].
  - apply buy_step_inv. exact I.
  - destruct (post_file e m s) as [[o s']|] eqn:H; [exact (post_step_inv _ _ _ _ _ I H) | split; [exact I | reflexivity]].
Qed.

Lemma run_inv ops : forall s, inv s -> inv (run ops s) /\ total (s_bank (run ops s)) = total (s_bank s).
Proof.
  induction ops as [|o r IH]; intros s I; cbn [run fold_left]; [split; [exact I | reflexivity]|].
  destruct (step_inv s o I) as [I' T']. destruct (IH _ I') as [I'' T'']. unfold run in *. split; [exact I'' | lia].
Qed.

Lemma inv_empty : inv {| s_bank := []; s_gauges := []; s_plans := [] |}.
Proof. split; [split; [constructor | intros a; cbn; lia] | intros k; cbn; lia]. Qed.

(* ---------- the statements of Props/C04.v ---------- *)

(* the amounts of a purchase in closed form: what is charged for a base price p, and the
   three shares of it (truncated quotients; floors whenever the percentage is not negative) *)
Record split := { sp_pay : Z; sp_gauge : Z; sp_pol : Z; sp_ref : Z }.
Definition buy_split (e : env) (m : buy_msg) (p : Z) : split :=
  let t := Z.quot (p * (100 - discount_pct m)) 100 in
  {| sp_pay := t;
     sp_gauge := Z.quot (t * (100 - e_refc e - e_pol e)) 100;
     sp_pol := Z.quot (t * (e_pol e - discount_pct m)) 100;
     sp_ref := Z.quot (t * e_refc e) 100 |}.
Definition buy_key (e : env) (m : buy_msg) (p : Z) : gkey :=
  (e_height e, (e_now e + buy_duration m) / 1000, sp_gauge (buy_split e m p)).

Lemma split_eqs e m p :
  q_pay m p = sp_pay (buy_split e m p) /\ q_spc e m p = sp_gauge (buy_split e m p) /\
  q_pol e m p = sp_pol (buy_split e m p) /\ q_ref e m p = sp_ref (buy_split e m p) /\
  q_key e m p = buy_key e m p.
Proof.
  unfold buy_key, q_key. rewrite q_spc_eq, q_pol_eq, q_ref_eq, q_pay_eq. cbn [buy_split sp_pay sp_gauge sp_pol sp_ref].
  repeat split.
Qed.

Definition buy_conservation_stmt : Prop :=
  forall e m s s', buy_storage e m s = (Ok, s') ->
  exists p used, base_price e m s = BPrice p used /\
    let sp := buy_split e m p in
    let k := buy_key e m p in
    let payer := AUser (b_payer m) in
    0 <= sp_pay sp <= p /\ 0 <= sp_gauge sp /\ 0 <= sp_pol sp /\ 0 <= sp_ref sp /\
    (forall y, bal (s_bank s') y =
       bal (s_bank s) y - ind payer y (sp_pay sp) + ind (escrow k) y (sp_gauge sp) + ind APol y (sp_pol sp)
       + ind (q_rcpt m) y (sp_ref sp) + ind AMod y (sp_pay sp - sp_gauge sp - sp_pol sp - sp_ref sp)) /\
    recorded (s_gauges s') k = recorded (s_gauges s) k + sp_gauge sp /\
    (forall k', k' <> k -> recorded (s_gauges s') k' = recorded (s_gauges s) k') /\
    (valid_env e -> sp_gauge sp + sp_pol sp + sp_ref sp <= sp_pay sp).

Lemma buy_conservation : buy_conservation_stmt.
Proof.
  intros e m s s' H.
  destruct (buy_ok_balances _ _ _ _ H) as (p & used & BP & Ht & Hs & Hp & Hr & _ & HB & HG & HO).
  exists p, used. split; [exact BP|]. cbv zeta.
  pose proof (base_price_nonneg _ _ _ _ _ BP) as [Hp0 _]. pose proof (q_pay_le m p Hp0) as Hle.
  pose proof (shares_le_pay e m p) as SL.
  destruct (split_eqs e m p) as (E1 & E2 & E3 & E4 & E5).
  unfold buy_delta in HB. rewrite E1, E2, E3, E4, E5 in *.
  split; [lia|]. do 3 (split; [assumption|]).
  split; [intros y; rewrite HB; lia|]. split; [exact HG|]. split; [exact HO|].
  intros V. apply SL; assumption.
Qed.

(* the payer is debited exactly the price and is never credited; the referral share goes to the
   fee collector unless the referral resolves to an account other than the payer's *)
Lemma q_rcpt_cases m :
  (q_rcpt m = AFee /\ (resolve (b_ref m) = None \/ resolve (b_ref m) = Some (AUser (b_payer m)))) \/
  (resolve (b_ref m) = Some (q_rcpt m) /\ q_rcpt m <> AUser (b_payer m)).
Proof.
  unfold q_rcpt, referrer. destruct (resolve (b_ref m)) as [ra|]; [|left; auto].
  destruct (acct_eqb ra (AUser (b_payer m))) eqn:E.
  - apply acct_eqb_spec in E. subst. left; auto.
  - right. split; [reflexivity|]. intros ->. rewrite acct_eqb_refl in E. discriminate.
Qed.

Lemma buy_payer_exact e m s s' :
  (forall a, 0 <= bal (s_bank s) a) ->
  buy_storage e m s = (Ok, s') ->
  exists p used, base_price e m s = BPrice p used /\
    bal (s_bank s') (AUser (b_payer m)) = bal (s_bank s) (AUser (b_payer m)) - sp_pay (buy_split e m p) /\
    sp_pay (buy_split e m p) <= bal (s_bank s) (AUser (b_payer m)).
Proof.
  intros NN H.
  destruct (buy_ok_balances _ _ _ _ H) as (p & used & BP & Ht & Hs & Hp & Hr & En & HB & _ & _).
  exists p, used. split; [exact BP|].
  destruct (split_eqs e m p) as (E1 & E2 & E3 & E4 & E5). rewrite <- E1.
  split.
  - rewrite HB. unfold buy_delta. rewrite ind_same.
    rewrite (ind_other AMod) by discriminate. rewrite (ind_other APol) by discriminate.
    rewrite (ind_other (escrow _)) by apply escrow_not_user.
    destruct (q_rcpt_cases m) as [[-> _]|[_ N]]; [rewrite (ind_other AFee) by discriminate | rewrite (ind_other (q_rcpt m)) by exact N]; lia.
  - pose proof (NN (AUser (b_payer m))). lia.
Qed.

(* exact floors and "within one base unit" *)
Lemma buy_shares_floor e m p :
  valid_env e -> 0 <= p ->
  let sp := buy_split e m p in
  let t := sp_pay sp in
  let d := discount_pct m in
  t = p * (100 - d) / 100 /\
  sp_gauge sp = t * (100 - e_refc e - e_pol e) / 100 /\
  sp_ref sp = t * e_refc e / 100 /\
  (d <= e_pol e -> sp_pol sp = t * (e_pol e - d) / 100) /\
  (e_pol e < d -> sp_pol sp <= 0) /\
  (100 * sp_gauge sp <= t * (100 - e_refc e - e_pol e) < 100 * sp_gauge sp + 100) /\
  (100 * sp_ref sp <= t * e_refc e < 100 * sp_ref sp + 100) /\
  (d <= e_pol e -> 100 * sp_pol sp <= t * (e_pol e - d) < 100 * sp_pol sp + 100).
Proof.
  intros (Hr & Hpo & Hsum) Hp. cbv zeta. cbn [buy_split sp_pay sp_gauge sp_pol sp_ref].
  pose proof (discount_pct_range m) as D.
  assert (A0 : 0 <= p * (100 - discount_pct m)) by nia.
  set (t := Z.quot (p * (100 - discount_pct m)) 100).
  assert (Ht : 0 <= t) by (apply Z.quot_pos; lia).
  assert (A1 : 0 <= t * (100 - e_refc e - e_pol e)) by nia.
  assert (A2 : 0 <= t * e_refc e) by nia.
  split; [apply quot_floor; exact A0|].
  split; [apply quot_floor; exact A1|].
  split; [apply quot_floor; exact A2|].
  split; [intros Hd; apply quot_floor; nia|].
  split; [intros Hd; apply quot_nonpos; nia|].
  split; [apply quot_nonneg_bounds; exact A1|].
  split; [apply quot_nonneg_bounds; exact A2|].
  intros Hd; apply quot_nonneg_bounds; nia.
Qed.

Definition post_conservation_stmt : Prop :=
  forall e m s s', post_file e m s = Some (Ok, s') ->
  exists cost, storage_cost_kbs (e_ppt e) (e_jkl e) (post_kbs m) (post_hours e m) = Some cost /\
    let spc := Z.quot (cost * (100 - e_refc e - e_pol e)) 100 in
    let k : gkey := (e_height e, pm_end_us m, spc) in
    let payer := AUser (pm_payer m) in
    0 <= cost /\ 0 <= spc /\
    (forall y, bal (s_bank s') y =
       bal (s_bank s) y - ind payer y cost + ind (escrow k) y spc + ind AMod y (cost - spc)) /\
    recorded (s_gauges s') k = recorded (s_gauges s) k + spc /\
    (forall k', k' <> k -> recorded (s_gauges s') k' = recorded (s_gauges s) k') /\
    s_plans s' = s_plans s /\
    (valid_env e -> spc = cost * (100 - e_refc e - e_pol e) / 100 /\ spc <= cost).

Lemma post_conservation : post_conservation_stmt.
Proof.
  intros e m s s' H.
  destruct (post_ok_balances _ _ _ _ H) as (cost & C & Hc & Hs & _ & HB & HG & HO & HP).
  exists cost. split; [exact C|]. cbv zeta.
  unfold post_delta, post_key in *. rewrite post_spc_eq in *.
  split; [exact Hc|]. split; [exact Hs|].
  split; [intros y; rewrite HB; lia|]. split; [exact HG|]. split; [exact HO|]. split; [exact HP|].
  intros V. split.
  - destruct V as (Hr & Hp & Hsum). apply quot_floor. nia.
  - pose proof (post_spc_le e cost V Hc) as L. rewrite post_spc_eq in L. exact L.
Qed.
