(* C19: the generic round-trip theorems instantiated on the table regenerated from the Go sources
   (Gen/GenesisKinds.v).  Everything here is re-proved on every run: a record kind that a keeper
   starts to write without genesis support, an export that drops a list, an InitGenesis that forgets a
   setter, a setter keyed differently from the writer - each changes a computed value below. *)
From Coq Require Import String List Bool.
From JK Require Import Base.AList.
From JK Require Import Model.Genesis.
From JK Require Import Proofs.GenesisProofs.
From JK Require Import Gen.GenesisKinds.
Import ListNotations.
Open Scope string_scope.
Open Scope list_scope.

(* the record kinds that do NOT make the round trip: must match known_findings.json *)
Definition known_omitted : list (string * string) :=
  [("storage", "FileProof"); ("storage", "ActiveProviders"); ("rns", "PrimaryName");
   ("notifications", "Block"); ("jklmint", "MintedBlock")].

Lemma table_omitted_exactly_known : omitted_names genesis_table = known_omitted.
Proof. vm_compute. reflexivity. Qed.

Lemma table_modules : map m_name genesis_table = ["storage"; "rns"; "filetree"; "notifications"; "oracle"; "jklmint"].
Proof. vm_compute. reflexivity. Qed.

Lemma table_modules_ok : forallb module_ok genesis_table = true.
Proof. vm_compute. reflexivity. Qed.

Lemma module_ok_spec_ok m : module_ok m = true -> spec_ok (spec_of m) = true.
Proof. unfold module_ok. intros H. apply andb_true_iff in H as [H _]. apply andb_true_iff in H as [H _]. apply andb_true_iff in H as [H _]. apply andb_true_iff in H as [_ H]. exact H. Qed.

Lemma table_spec_ok m : In m genesis_table -> spec_ok (spec_of m) = true.
Proof.
  intros H. apply module_ok_spec_ok. pose proof table_modules_ok as A.
  rewrite forallb_forall in A. apply A. exact H.
Qed.

Lemma omitted_in_names m k : In m genesis_table -> In k (omitted m) -> In (m_name m, kind_name k) (omitted_names genesis_table).
Proof.
  intros Hm Hk. unfold omitted_names. apply in_flat_map. exists m. split; [exact Hm|].
  apply in_map_iff. exists k. auto.
Qed.

Section Instance.
  Variables K V : Type.
  Variable Keqb : K -> K -> bool.
  Hypothesis Keqb_spec : forall a b, Keqb a b = true <-> a = b.
  Variable keyf : string -> V -> K.

  Lemma no_raw ops : raw_kinds K V ops = [] -> forallb (fun o => negb (is_raw K V o)) ops = true.
  Proof.
    induction ops as [|o r IH]; cbn; [reflexivity|]. destruct o; cbn; try exact IH. intros C. discriminate.
  Qed.

  Lemma raw_kinds_nil ops : (forall k, ~ In k (raw_kinds K V ops)) -> raw_kinds K V ops = [].
  Proof. destruct (raw_kinds K V ops) as [|k r]; [reflexivity|]. intros H. exfalso. apply (H k). left. reflexivity. Qed.

  (* every history of keeper operations that avoids exactly the known omitted kinds makes the round trip *)
  Lemma roundtrip_except_known m ops :
    In m genesis_table ->
    mirrors_equiv K V keyf (spec_of m) ->
    (forall k, In k (raw_kinds K V ops) -> In k (omitted m)) ->            (* writes outside genesis hit only kinds the keeper really writes *)
    (forall k, In k (raw_kinds K V ops) -> ~ In (m_name m, kind_name k) known_omitted) ->   (* ... and none of the known omitted kinds *)
    let s := run K V Keqb keyf (spec_of m) ops in
    store_eq K V Keqb (import K V Keqb keyf (spec_of m) (export K V (spec_of m) s)) s /\
    export K V (spec_of m) (import K V Keqb keyf (spec_of m) (export K V (spec_of m) s)) = export K V (spec_of m) s.
  Proof.
    intros Hm EQV R1 R2. apply roundtrip_reachable; try assumption; [apply table_spec_ok; exact Hm|].
    apply no_raw. apply raw_kinds_nil. intros k I. apply (R2 k I).
    rewrite <- table_omitted_exactly_known. apply omitted_in_names; [exact Hm | apply R1; exact I].
  Qed.

  Lemma roundtrip_generic_table m s :
    In m genesis_table -> mirrors_equiv K V keyf (spec_of m) -> store_inv K V Keqb keyf (spec_of m) s ->
    store_eq K V Keqb (import K V Keqb keyf (spec_of m) (export K V (spec_of m) s)) s.
  Proof. intros Hm EQV SI. apply roundtrip_generic; try assumption. apply table_spec_ok; exact Hm. Qed.
End Instance.

(* ------------------------------------------------------------------ witnesses on the model *)
(* records are strings that are their own index: K = V = string, every key function is the identity *)
Definition wkey : string -> string -> string := fun _ v => v.
Definition wrun (m : gk_module) := run string string String.eqb wkey (spec_of m).
Definition wtrip (m : gk_module) (s : store string string) := import string string String.eqb wkey (spec_of m) (export string string (spec_of m) s).
Definition wlook := lookup string string String.eqb.

Lemma wkey_equiv m : mirrors_equiv string string wkey (spec_of m).
Proof. intros ks kd kf _ _ a b. unfold wkey. tauto. Qed.

(* a kind is refuted by the one-operation history that writes one record of it *)
Definition refutes (m : gk_module) (k : kid) : bool :=
  let s := wrun m [ORaw string string k "r" "r"] in
  match wlook s k "r", wlook (wtrip m s) k "r" with
  | Some _, None => true
  | _, _ => false
  end.

Lemma refuted_storage_FileProof : refutes gk_storage ("FileProof/value/", "FileProof") = true.
Proof. vm_compute. reflexivity. Qed.
Lemma refuted_storage_ActiveProviders : refutes gk_storage ("ActiveProviders/value/", "ActiveProviders") = true.
Proof. vm_compute. reflexivity. Qed.
Lemma refuted_notifications_Block : refutes gk_notifications ("Notification/", "Block") = true.
Proof. vm_compute. reflexivity. Qed.
Lemma refuted_jklmint_MintedBlock : refutes gk_jklmint ("last_block_minted", "MintedBlock") = true.
Proof. vm_compute. reflexivity. Qed.
(* the rns kind is untyped (raw bytes): it is found by its name *)
Lemma refuted_rns_PrimaryName :
  existsb (fun k => String.eqb (kind_name k) "PrimaryName" && String.eqb (fst k) "PrimaryName/value/" && refutes gk_rns k) (omitted gk_rns) = true.
Proof. vm_compute. reflexivity. Qed.

(* every omitted kind of the table is refuted in this way, none is listed in vain *)
Lemma every_omitted_kind_refuted : forallb (fun m => forallb (refutes m) (omitted m)) genesis_table = true.
Proof. vm_compute. reflexivity. Qed.

(* non-vacuity: a storage history with files (two indexes), providers, a removal and an overwrite *)
Definition demo_ops : list (op string string) :=
  [OSet string string "FileList" "f1"; OSet string string "FileList" "f2"; OSet string string "ProvidersList" "p1";
   OSet string string "PaymentGauges" "g1"; ODel string string "FileList" "f1"; OSet string string "FileList" "f2";
   OSet string string "Params" "params"].

Lemma demo_nontrivial :
  let s := wrun gk_storage demo_ops in
  wlook s ("FilesByOwner/value/", "UnifiedFile") "f2" = Some "f2" /\
  wlook s ("FilesByMerkle/value/", "UnifiedFile") "f1" = None /\
  wlook (wtrip gk_storage s) ("FilesByOwner/value/", "UnifiedFile") "f2" = Some "f2" /\
  export string string (spec_of gk_storage) (wtrip gk_storage s) = export string string (spec_of gk_storage) s /\
  length (all_kids (spec_of gk_storage)) = 9.
Proof. vm_compute. repeat split; reflexivity. Qed.
