(* C01, "stays credited … only by submitting a proof": whoever a reward block credits for a file is credited for a
   key listed on that file as the block found it, and either the file is still in its first proof interval at the
   block's height, or the proof record stored under that key when the block BEGAN names the credited prover and
   carries a LastProven no older than the start of the file's last closed proof interval
   (start + ((h - start) - (h - start) rem interval) - interval).  Together with StorageFilesRecency (every LastProven
   is the height of an accepted verifying proof or of a completed quorum) this is the window clause of C01.
   No invariant is assumed: the statement holds for every state, every height and every check window. *)
From Coq Require Import ZArith NArith List Bool Lia.
From JK Require Import Base.AList Model.StorageFiles Proofs.StorageFilesProofs Proofs.StorageFilesRecency.
Import ListNotations.
Open Scope Z_scope.

(* the schedule of a file: what is_young and proven_last_block read *)
Definition same_sched (f g : file) : Prop :=
  fk1 g = fk1 f /\ f_interval g = f_interval f.

Lemma same_sched_refl f : same_sched f f. Proof. split; reflexivity. Qed.
Lemma same_sched_trans f g k : same_sched f g -> same_sched g k -> same_sched f k.
Proof. intros [A B] [C D]. split; congruence. Qed.

Lemma same_sched_young f g h : same_sched f g -> is_young g h = is_young f h.
Proof. intros [A B]. unfold is_young. unfold fk1 in A. injection A as _ _ S. rewrite S, B. reflexivity. Qed.
Lemma same_sched_proven f g h l : same_sched f g -> proven_last_block g h l = proven_last_block f h l.
Proof. intros [A B]. unfold proven_last_block. unfold fk1 in A. injection A as _ _ S. rewrite S, B. reflexivity. Qed.

Lemma rpk_sched s f key s' f' : remove_prover_with_key s f key = Some (s', f') -> same_sched f f'.
Proof.
  unfold remove_prover_with_key. destruct (rm_loop _ _ _ _ _ _) as [[[arr cur] hit]|]; [|discriminate].
  destruct hit; intros E; inversion E; subst; split; reflexivity.
Qed.

(* the judgement manageProof passes on one key *)
Definition judged (h : Z) (f : file) (who : N) (found : option fproof) : Prop :=
  is_young f h = true \/
  exists r, found = Some r /\ p_prover r = who /\ proven_last_block f h (p_last r) = true.

Lemma manage_proof_judged h w key w' :
  manage_proof h w key = Some w' ->
  same_sched (w_file w) (w_file w') /\
  (w_credits w' = w_credits w \/
   exists who, w_credits w' = (who, fk1 (w_file w)) :: w_credits w /\
               judged h (w_file w) who (get_proof (w_state w) key)).
Proof.
  unfold manage_proof.
  destruct (is_young (w_file w) h) eqn:Y; cbn [negb andb].
  - destruct (f_interval (w_file w) =? 0); [discriminate|].
    rewrite andb_false_r. intros E; inversion E; subst; cbn. split; [apply same_sched_refl|].
    right. eexists. split; [reflexivity|]. left. exact Y.
  - destruct (get_proof (w_state w) key) as [r|] eqn:G.
    + destruct (f_interval (w_file w) =? 0); [discriminate|].
      destruct (proven_last_block (w_file w) h (p_last r)) eqn:P; cbn [negb andb].
      * intros E; inversion E; subst; cbn. split; [apply same_sched_refl|].
        right. exists (p_prover r). split; [reflexivity|]. right. exists r. repeat split; assumption.
      * destruct (remove_prover_with_key _ _ _) as [[s' f']|] eqn:R; [|discriminate].
        intros E; inversion E; subst; cbn. split; [eapply rpk_sched; eauto | left; reflexivity].
    + destruct (remove_prover_with_key _ _ _) as [[s' f']|] eqn:R; [|discriminate].
      intros E; inversion E; subst; cbn. split; [eapply rpk_sched; eauto | left; reflexivity].
Qed.

(* credits added by a walk, judged against a reference state s0 the walk's state descends from *)
Definition credit_ok (h : Z) (s0 : sstate) (f0 : file) (keys : list pkey) (c : N * fkey) : Prop :=
  snd c = fk1 f0 /\ exists key, In key keys /\ judged h f0 (fst c) (get_proof s0 key).

Lemma judged_mono h f who s0 s key :
  pshrinks s0 s -> judged h f who (get_proof s key) -> judged h f who (get_proof s0 key).
Proof.
  intros PS [Y | (r & G & A & B)]; [left; exact Y|].
  right. exists r. split; [apply PS; exact G | split; assumption].
Qed.

Lemma manage_proofs_judged h s0 f0 : forall keys w w',
  pshrinks s0 (w_state w) -> same_sched f0 (w_file w) ->
  manage_proofs h w keys = Some w' ->
  same_sched f0 (w_file w') /\
  forall c, In c (w_credits w') -> In c (w_credits w) \/ credit_ok h s0 f0 keys c.
Proof.
  induction keys as [|k r IH]; intros w w' PS SS M; cbn [manage_proofs] in M.
  - inversion M; subst. split; [exact SS | intros c Ic; left; exact Ic].
  - destruct (manage_proof h w k) as [w1|] eqn:M1; [|discriminate].
    destruct (manage_proof_judged h w k w1 M1) as [S1 C1].
    pose proof (pshrinks_manage_proof h w k w1 M1) as P1.
    destruct (IH w1 w' (pshrinks_trans _ _ _ PS P1) (same_sched_trans _ _ _ SS S1) M) as [S2 C2].
    split; [exact S2|].
    intros c Ic. destruct (C2 c Ic) as [Ic1 | (Fk & key & Ik & J)].
    + destruct C1 as [E | (who & E & J)]; rewrite E in Ic1.
      * left; exact Ic1.
      * destruct Ic1 as [<- | Ic1]; [|left; exact Ic1].
        right. split; [cbn; destruct SS as [A _]; exact A|].
        exists k. split; [left; reflexivity|]. cbn.
        apply (judged_mono h f0 who s0 (w_state w) k PS).
        destruct J as [Y | (r0 & G & A & B)].
        -- left. rewrite <- (same_sched_young f0 (w_file w) h SS). exact Y.
        -- right. exists r0. repeat split; try assumption. rewrite <- (same_sched_proven f0 (w_file w) h _ SS). exact B.
    + right. split; [exact Fk|]. exists key. split; [right; exact Ik | exact J].
Qed.

Lemma manage_file_judged h s0 s cr f s' cr' :
  pshrinks s0 s -> manage_file h (s, cr) f = Some (s', cr') ->
  forall c, In c cr' -> In c cr \/ credit_ok h s0 f (f_proofs f) c.
Proof.
  intros PS. unfold manage_file.
  set (s1 := match f_proofs f with [] => _ | _ => _ end).
  assert (P1 : pshrinks s s1).
  { subst s1. destruct (f_proofs f); [|apply pshrinks_refl]. destruct (negb (is_young f h)); [apply pshrinks_remove_file | apply pshrinks_refl]. }
  destruct (manage_proofs h _ (f_proofs f)) as [w|] eqn:M; [|discriminate].
  intros E; inversion E; subst.
  destruct (manage_proofs_judged h s0 f (f_proofs f) {| w_state := s1; w_file := f; w_credits := cr |} w (pshrinks_trans _ _ _ PS P1) (same_sched_refl f) M) as [_ C].
  exact C.
Qed.

Lemma manage_files_judged h s0 : forall fs s cr s' cr',
  pshrinks s0 s -> manage_files h (s, cr) fs = Some (s', cr') ->
  forall c, In c cr' -> In c cr \/ exists f, In f fs /\ credit_ok h s0 f (f_proofs f) c.
Proof.
  induction fs as [|f r IH]; intros s cr s' cr' PS M; cbn [manage_files] in M.
  - inversion M; subst. intros c Ic; left; exact Ic.
  - destruct (manage_file h (s, cr) f) as [[s1 cr1]|] eqn:M1; [|discriminate].
    pose proof (pshrinks_manage_file h s cr f s1 cr1 M1) as P1.
    intros c Ic. destruct (IH s1 cr1 s' cr' (pshrinks_trans _ _ _ PS P1) M c Ic) as [Ic1 | (g & Ig & J)].
    + destruct (manage_file_judged h s0 s cr f s1 cr1 PS M1 c Ic1) as [I0 | J]; [left; exact I0|].
      right. exists f. split; [left; reflexivity | exact J].
    + right. exists g. split; [right; exact Ig | exact J].
Qed.

(* the statement of Props/C01.v *)
Theorem credited_only_when_judged_proven :
  forall s h cw s' cr p fk,
    reward_block s h cw = Some (s', cr) -> In (p, fk) cr ->
    exists k0 f key, In (k0, f) (files1 s) /\ fk1 f = fk /\ In key (f_proofs f) /\
      (f_start f + f_interval f >= h \/
       exists r, get_proof s key = Some r /\ p_prover r = p /\
                 p_last r >= f_start f + ((h - f_start f) - Z.rem (h - f_start f) (f_interval f)) - f_interval f).
Proof.
  intros s h cw s' cr p fk R Ic. unfold reward_block in R.
  destruct (cw =? 0); [discriminate|]. destruct (Z.rem h cw >? 0); [inversion R; subst; destruct Ic|].
  destruct (manage_files_judged h s (map snd (files1 s)) s [] s' cr (pshrinks_refl s) R (p, fk) Ic) as [[] | (f & If & Fk & key & Ik & J)].
  cbn in Fk, J. apply in_map_iff in If. destruct If as ([k0 f0] & E & I0). cbn in E. subst f0.
  exists k0, f, key. split; [exact I0|]. split; [symmetry; exact Fk|]. split; [exact Ik|].
  destruct J as [Y | (r & G & A & B)].
  - left. unfold is_young in Y. apply Z.geb_le in Y. lia.
  - right. exists r. split; [exact G|]. split; [exact A|].
    unfold proven_last_block, rounded_window in B. apply Z.geb_le in B. lia.
Qed.
