(* C01, "stays credited only by proving": every LastProven value a proof record ever carries is the height of an
   accepted PostProof with a verifying proof by that prover on that file, or of an attestation that completed the
   quorum on the form of that prover and file.  No other operation — posting or deleting files, requests, reports,
   provider registration, reward blocks — creates a proof record or moves its LastProven. *)
From Coq Require Import ZArith NArith List Bool Lia.
From JK Require Import Base.AList Model.StorageFiles Proofs.StorageFilesProofs Proofs.StorageFilesFrame.
Import ListNotations.
Open Scope Z_scope.

Lemma fproof_eq_dec (a b : fproof) : {a = b} + {a <> b}.
Proof. decide equality; try apply Z.eq_dec; apply N.eq_dec. Qed.
Lemma option_eq_dec_proof (a b : option fproof) : {a = b} + {a <> b}.
Proof. decide equality. apply fproof_eq_dec. Qed.

(* proof records only disappear *)
Definition pshrinks (s s' : sstate) : Prop := forall k r, get_proof s' k = Some r -> get_proof s k = Some r.
Lemma pshrinks_refl s : pshrinks s s. Proof. intros k r H; exact H. Qed.
Lemma pshrinks_trans a b c : pshrinks a b -> pshrinks b c -> pshrinks a c.
Proof. intros AB BC k r H. apply AB, BC, H. Qed.
Lemma pshrinks_same s s' : (forall k, get_proof s' k = get_proof s k) -> pshrinks s s'.
Proof. intros E k r H. rewrite E in H. exact H. Qed.

Lemma pshrinks_del_proofs l s : pshrinks s (fold_left del_proof l s).
Proof. intros k r H. rewrite getp_del_proofs in H. destruct (existsb (k4_eqb k) l); [discriminate | exact H]. Qed.

Lemma pshrinks_remove_file s m o st : pshrinks s (remove_file s m o st).
Proof.
  unfold remove_file. destruct (get_file s (m, o, st)) as [f|]; [|apply pshrinks_refl].
  intros k r H. apply (pshrinks_del_proofs (f_proofs f) s k r). exact H.
Qed.

Lemma pshrinks_rpk s f key s' f' : remove_prover_with_key s f key = Some (s', f') -> pshrinks s s'.
Proof.
  unfold remove_prover_with_key. destruct (rm_loop _ _ _ _ _ _) as [[[arr cur] hit]|]; [|discriminate].
  destruct hit; intros E; inversion E; subst; [|apply pshrinks_refl].
  intros k r H. rewrite getp_set_file, getp_del_proof in H. destruct (k4_eqb k key); [discriminate | exact H].
Qed.

Lemma pshrinks_burn s p : pshrinks s (burn_contract s p).
Proof. unfold burn_contract. destruct (aget N.eqb (burns s) p); [apply pshrinks_same; reflexivity | apply pshrinks_refl]. Qed.

Lemma pshrinks_manage_proof h w key w' : manage_proof h w key = Some w' -> pshrinks (w_state w) (w_state w').
Proof.
  unfold manage_proof.
  destruct (negb (is_young (w_file w) h) && _).
  - destruct (remove_prover_with_key _ _ _) as [[s' f']|] eqn:R; [|discriminate].
    intros E; inversion E; subst; cbn. eapply pshrinks_rpk; eauto.
  - destruct (f_interval (w_file w) =? 0); [discriminate|].
    destruct (negb (proven_last_block _ _ _) && _).
    + destruct (remove_prover_with_key _ _ _) as [[s' f']|] eqn:R; [|discriminate].
      intros E; inversion E; subst; cbn. eapply pshrinks_trans; [eapply pshrinks_rpk; eauto | apply pshrinks_burn].
    + intros E; inversion E; subst; cbn. apply pshrinks_refl.
Qed.

Lemma pshrinks_manage_proofs h : forall keys w w', manage_proofs h w keys = Some w' -> pshrinks (w_state w) (w_state w').
Proof.
  induction keys as [|k r IH]; intros w w' M; cbn [manage_proofs] in M; [inversion M; subst; apply pshrinks_refl|].
  destruct (manage_proof h w k) as [w1|] eqn:M1; [|discriminate].
  eapply pshrinks_trans; [eapply pshrinks_manage_proof; eauto | apply IH; exact M].
Qed.

Lemma pshrinks_manage_file h s cr f s' cr' : manage_file h (s, cr) f = Some (s', cr') -> pshrinks s s'.
Proof.
  unfold manage_file.
  set (s1 := match f_proofs f with [] => _ | _ => _ end).
  assert (P1 : pshrinks s s1).
  { subst s1. destruct (f_proofs f); [|apply pshrinks_refl]. destruct (negb (is_young f h)); [apply pshrinks_remove_file | apply pshrinks_refl]. }
  destruct (manage_proofs h _ (f_proofs f)) as [w|] eqn:M; [|discriminate].
  intros E; inversion E; subst. eapply pshrinks_trans; [exact P1|].
  apply (pshrinks_manage_proofs h _ _ _ M).
Qed.

Lemma pshrinks_manage_files h : forall fs s cr s' cr', manage_files h (s, cr) fs = Some (s', cr') -> pshrinks s s'.
Proof.
  induction fs as [|f r IH]; intros s cr s' cr' M; cbn [manage_files] in M; [inversion M; subst; apply pshrinks_refl|].
  destruct (manage_file h (s, cr) f) as [[s1 cr1]|] eqn:M1; [|discriminate].
  eapply pshrinks_trans; [eapply pshrinks_manage_file; eauto | eapply IH; eauto].
Qed.

Lemma pshrinks_reward_block s h cw s' cr : reward_block s h cw = Some (s', cr) -> pshrinks s s'.
Proof.
  unfold reward_block. destruct (cw =? 0); [discriminate|]. destruct (Z.rem h cw >? 0).
  - intros E; inversion E; apply pshrinks_refl.
  - apply pshrinks_manage_files.
Qed.

(* what may set a LastProven: an accepted verifying proof for that very pair, or a completed attestation quorum on
   the form of that prover and file, both at the height of the step *)
Definition refreshed_by (s : sstate) (o : op) (k : pkey) (h : Z) : Prop :=
  match o with
  | PostProof c m ow st hh tp v nc cs =>
    hh = h /\ k = (c, ow, m, st) /\ v = true /\ r_success (post_proof s c m ow st hh tp v nc cs) = true
  | Attest c p m ow st hh mp =>
    hh = h /\ exists fm f, aget k4_eqb (attests s) (p, m, ow, st) = Some fm /\
      is_listed c (fm_atts fm) = true /\ mp <= count_complete (mark c (fm_atts fm)) /\
      get_file s (fm_merkle fm, fm_owner fm, fm_start fm) = Some f /\ k = mk_pkey f (fm_prover fm)
  | _ => False
  end.

Lemma post_proof_last s c m o st h tp v nc cs k r' :
  Inv s -> get_proof (r_state (post_proof s c m o st h tp v nc cs)) k = Some r' ->
  get_proof s k = Some r' \/
  (p_last r' = h /\ k = (c, o, m, st) /\ v = true /\ r_success (post_proof s c m o st h tp v nc cs) = true).
Proof.
  intros I G.
  destruct (N.eq_dec (fst (fst (fst k))) c) as [E1|N1]; [|left].
  2: { rewrite <- (proj1 (postproof_frame s c m o st h tp v nc cs I) k); [exact G|].
       intros E; subst k; apply N1; reflexivity. }
  destruct (k4_eqb k (c, o, m, st)) eqn:EK.
  2: { left. rewrite <- (proj1 (postproof_frame s c m o st h tp v nc cs I) k); [exact G|].
       intros E; subst k. rewrite k4_refl in EK; discriminate. }
  apply k4_eqb_spec in EK. subst k.
  destruct (r_success (post_proof s c m o st h tp v nc cs)) eqn:S.
  - right.
    revert G S. unfold post_proof.
    destruct (get_file s (m, o, st)) as [f|] eqn:GF; [|cbn; discriminate].
    destruct (if len f =? f_max f then _ else _) as [[p isnew]|] eqn:C; [|cbn; discriminate].
    destruct (negb (tp =? p_chunk p)); [cbn; discriminate|].
    destruct (f_interval f =? 0); [cbn; discriminate|].
    destruct (negb v) eqn:V; [cbn; discriminate|].
    destruct (cs =? 0); [cbn; discriminate|].
    cbn [r_state ok_ r_success]. intros G _.
    rewrite get_proof_with_ghost, getp_set_proof in G.
    assert (PK : pk_of p = (c, o, m, st)).
    { pose proof (inv_key s I _ _ GF) as FK.
      assert (MK : mk_pkey f c = (c, o, m, st)) by (unfold mk_pkey; unfold fk1 in FK; inversion FK; subst; reflexivity).
      revert C. destruct (len f =? f_max f).
      - destruct (get_prover s f c) as [q|] eqn:GP; [|discriminate]. intros E; inversion E; subst.
        apply get_prover_listed in GP as [_ GP]. rewrite <- MK. exact (inv_pkey s I _ _ GP).
      - destruct (contains_prover f c).
        + destruct (get_prover s f c) as [q|] eqn:GP; [|discriminate]. intros E; inversion E; subst.
          apply get_prover_listed in GP as [_ GP]. rewrite <- MK. exact (inv_pkey s I _ _ GP).
        + destruct (len f >=? f_max f); [discriminate|]. intros E; inversion E; subst. exact MK. }
    change (pk_of {| p_prover := p_prover p; p_merkle := p_merkle p; p_owner := p_owner p; p_start := p_start p;
                     p_last := h; p_chunk := nc |}) with (pk_of p) in G.
    rewrite PK, k4_refl in G. inversion G; subst r'. cbn [p_last].
    split; [reflexivity|]. split; [reflexivity|]. split; [destruct v; [reflexivity | discriminate] | reflexivity].
  - left. rewrite (post_proof_refused_unchanged _ _ _ _ _ _ _ _ _ _ S) in G. exact G.
Qed.

Lemma step_last s o k r' :
  Inv s -> get_proof (step s o) k = Some r' ->
  (exists r, get_proof s k = Some r /\ p_last r = p_last r') \/ refreshed_by s o k (p_last r').
Proof.
  intros I G. unfold step in G.
  assert (KEEP : forall s', pshrinks s s' -> get_proof s' k = Some r' ->
                 (exists r, get_proof s k = Some r /\ p_last r = p_last r') \/ refreshed_by s o k (p_last r')).
  { intros s' P H. left. exists r'. split; [apply P; exact H | reflexivity]. }
  destruct o; cbn [msg_step] in G.
  - (* PostFile *)
    revert G. unfold post_file. destruct ((size <=? 0) || (maxp <=? 0)); [apply KEEP, pshrinks_refl|].
    destruct (size >? Z.quot max_int64 maxp); [apply KEEP, pshrinks_refl|].
    destruct paid; cbn [negb r_state ok_ fail_]; [|apply KEEP, pshrinks_refl].
    intros G. rewrite getp_set_file in G. revert G. apply KEEP, pshrinks_remove_file.
  - revert G. apply KEEP. unfold delete_file; cbn. apply pshrinks_remove_file.
  - destruct (post_proof_last s creator merkle owner start height to_prove verified new_chunk chunk_size k r' I G)
      as [H | (A & B & C & D)].
    + left. exists r'. split; [exact H | reflexivity].
    + right. cbn. rewrite A. auto.
  - (* Attest *)
    destruct (attest_effects s creator prover merkle owner start height min_pass I) as (_ & Hp).
    destruct (option_eq_dec_proof (get_proof (r_state (attest s creator prover merkle owner start height min_pass)) k) (get_proof s k)) as [E|N].
    + left. exists r'. rewrite <- E. split; [exact G | reflexivity].
    + destruct (Hp k N) as (fm & f & r & GA & IL & CC & GF & Il & Ek & Gr & Gn).
      right. cbn. rewrite Gn in G. inversion G; subst r'. cbn [p_last].
      split; [reflexivity|]. exists fm, f. auto.
  - (* Report *)
    revert G. unfold report. destruct (aget k4_eqb (reports s) _) as [fm|]; [|apply KEEP, pshrinks_refl].
    destruct (negb (is_listed creator (fm_atts fm))); [apply KEEP, pshrinks_refl|].
    destruct (count_complete _ <? min_pass); [apply KEEP, pshrinks_same; reflexivity|].
    destruct (get_file s (merkle, owner, start)) as [f|]; [|apply KEEP, pshrinks_same; reflexivity].
    destruct (remove_prover_with_key _ f _) as [[s2 f2]|] eqn:R; [|apply KEEP, pshrinks_same; reflexivity].
    cbn [r_state ok_]. apply KEEP. eapply pshrinks_trans; [|eapply pshrinks_rpk; exact R]. apply pshrinks_same; reflexivity.
  - revert G. unfold req_attest. destruct (get_file s _) as [f|]; [|apply KEEP, pshrinks_refl].
    destruct (get_prover s f creator); [|apply KEEP, pshrinks_refl].
    destruct (aget k4_eqb (attests s) _); [apply KEEP, pshrinks_refl|].
    destruct chosen; apply KEEP, pshrinks_same; reflexivity.
  - revert G. unfold req_report. destruct (get_file s _) as [f|]; [|apply KEEP, pshrinks_refl].
    destruct (aget k4_eqb (reports s) _); [apply KEEP, pshrinks_refl|].
    destruct (get_prover s f prover); [|apply KEEP, pshrinks_refl].
    destruct chosen; apply KEEP, pshrinks_same; reflexivity.
  - revert G. unfold init_provider. destruct (aget N.eqb (burns s) creator); [apply KEEP, pshrinks_refl|].
    destruct paid; apply KEEP, pshrinks_same; reflexivity.
  - revert G. unfold shutdown_provider. destruct (aget N.eqb (burns s) creator); [|apply KEEP, pshrinks_refl].
    destruct paid; apply KEEP, pshrinks_same; reflexivity.
  - revert G. destruct (reward_block s height cw) as [[s' cr]|] eqn:R; [|apply KEEP, pshrinks_refl].
    cbn [r_state ok_]. apply KEEP. eapply pshrinks_reward_block; eauto.
Qed.

(* every LastProven of every history *)
Theorem last_proven_history k : forall ops s r,
  Inv s -> get_proof (run s ops) k = Some r ->
  (exists r0, get_proof s k = Some r0 /\ p_last r0 = p_last r) \/
  exists ops1 o ops2, ops = ops1 ++ o :: ops2 /\ refreshed_by (run s ops1) o k (p_last r).
Proof.
  induction ops as [|o rest IH]; intros s r I G; cbn in G.
  - left. exists r. split; [exact G | reflexivity].
  - destruct (IH (step s o) r (inv_step s o I) G) as [(r1 & G1 & E1) | (ops1 & o' & ops2 & E & A)].
    + destruct (step_last s o k r1 I G1) as [(r0 & G0 & E0) | A].
      * left. exists r0. split; [exact G0 | congruence].
      * right. exists [], o, rest. split; [reflexivity|]. rewrite <- E1. exact A.
    + right. exists (o :: ops1), o', ops2. split; [cbn; rewrite E; reflexivity | exact A].
Qed.

Corollary last_proven_from_genesis k ops r :
  get_proof (run init ops) k = Some r ->
  exists ops1 o ops2, ops = ops1 ++ o :: ops2 /\ refreshed_by (run init ops1) o k (p_last r).
Proof.
  intros G. destruct (last_proven_history k ops init r inv_init G) as [(r0 & G0 & _) | H]; [discriminate G0 | exact H].
Qed.
