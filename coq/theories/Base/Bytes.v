(* Byte strings as list N, with the Go string functions the models need. *)
From Coq Require Import NArith List Bool Lia.
Import ListNotations.
Open Scope N_scope.

Definition bytes := list N.

Definition hexd (n : N) : N := if n <? 10 then 48 + n else 87 + n.
Definition hex (bs : bytes) : bytes :=
  concat (map (fun b => [hexd (b / 16); hexd (b mod 16)]) bs).

Fixpoint beqb (a b : bytes) : bool :=
  match a, b with
  | [], [] => true
  | x :: a', y :: b' => (x =? y) && beqb a' b'
  | _, _ => false
  end.

Definition slash : N := 47.

(* strings.Split(s, "/"): never returns the empty list *)
Fixpoint split_slash_aux (cur : bytes) (s : bytes) : list bytes :=
  match s with
  | [] => [rev cur]
  | c :: r => if c =? slash then rev cur :: split_slash_aux [] r
              else split_slash_aux (c :: cur) r
  end.
Definition split_slash (s : bytes) : list bytes := split_slash_aux [] s.

(* strings.TrimSuffix(s, "/") *)
Definition trim_slash (s : bytes) : bytes :=
  match rev s with
  | c :: r => if c =? slash then rev r else s
  | [] => s
  end.

Definition ends_with_slash (s : bytes) : bool :=
  match rev s with c :: _ => c =? slash | [] => false end.

Definition has_slash (s : bytes) : bool := existsb (fun c => c =? slash) s.
