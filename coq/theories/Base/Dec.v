(* sdk.Dec (cosmos-sdk types/decimal.go): an integer scaled by 10^18 with the SDK's own
   rounding.  Dec := Z.   Quo / Mul round half to even on the absolute value
   (chopPrecisionAndRound), QuoInt64 / MulInt64 do not round, TruncateInt(64) truncates
   toward zero.  Division by zero and out-of-range truncation are the callers' business:
   models test for them and return an explicit panic outcome. *)
From Coq Require Import ZArith Lia.
Open Scope Z_scope.

Definition P18 : Z := 10 ^ 18.
Definition HALF : Z := 5 * 10 ^ 17.
Lemma P18_pos : 0 < P18. Proof. reflexivity. Qed.
Lemma P18_half : P18 = 2 * HALF. Proof. reflexivity. Qed.
Lemma HALF_pos : 0 < HALF. Proof. reflexivity. Qed.
Global Opaque P18 HALF.

(* chopPrecisionAndRound on a non-negative big integer *)
Definition chop_nn (a : Z) : Z :=
  let q := a / P18 in
  let r := a mod P18 in
  if r <? HALF then q else if HALF <? r then q + 1 else if Z.even q then q else q + 1.
Definition chop_round (d : Z) : Z := if d <? 0 then - chop_nn (- d) else chop_nn d.

Definition dec (n : Z) : Z := n * P18.                         (* sdk.NewDec(n) *)
Definition dquo (a b : Z) : Z := chop_round (Z.quot (a * P18 * P18) b).   (* a.Quo(b), b <> 0 *)
Definition dmul (a b : Z) : Z := chop_round (a * b).           (* a.Mul(b) *)
Definition dquo_int (a n : Z) : Z := Z.quot a n.               (* a.QuoInt64(n), n <> 0 *)
Definition dmul_int (a n : Z) : Z := a * n.                    (* a.MulInt64(n) *)
Definition dtrunc (a : Z) : Z := Z.quot a P18.                 (* a.TruncateInt() *)

Definition int64_min : Z := - 2 ^ 63.
Definition int64_max : Z := 2 ^ 63 - 1.
Definition in_int64 (x : Z) : bool := (int64_min <=? x) && (x <=? int64_max).
(* a.TruncateInt64(): None = "Int64() out of bound" panic *)
Definition dtrunc64 (a : Z) : option Z := let t := dtrunc a in if in_int64 t then Some t else None.
(* two's complement wrap of Go int64 arithmetic *)
Definition wrap64 (x : Z) : Z := (x + 2 ^ 63) mod 2 ^ 64 - 2 ^ 63.

(* ---------- lemmas ---------- *)

Lemma chop_nn_bounds a :
  0 <= a -> 2 * P18 * chop_nn a <= 2 * a + P18 /\ 2 * a - P18 <= 2 * P18 * chop_nn a.
Proof.
  intros Ha. unfold chop_nn.
  pose proof P18_pos. pose proof P18_half.
  pose proof (Z.div_mod a P18 ltac:(lia)) as Hd.
  pose proof (Z.mod_pos_bound a P18 ltac:(lia)) as Hm.
  set (q := a / P18) in *. set (r := a mod P18) in *.
  destruct (Z.ltb_spec r HALF); [nia|].
  destruct (Z.ltb_spec HALF r); [nia|].
  destruct (Z.even q); nia.
Qed.

Lemma chop_nn_nonneg a : 0 <= a -> 0 <= chop_nn a.
Proof.
  intros Ha. unfold chop_nn. pose proof P18_pos.
  assert (0 <= a / P18) by (apply Z.div_pos; lia).
  destruct (_ <? _); [lia|]. destruct (_ <? _); [lia|]. destruct (Z.even _); lia.
Qed.

Lemma chop_nn_exact n : 0 <= n -> chop_nn (n * P18) = n.
Proof.
  intros Hn. unfold chop_nn. pose proof P18_pos. pose proof HALF_pos.
  rewrite Z.div_mul by lia. rewrite Z.mod_mul by lia.
  destruct (Z.ltb_spec 0 HALF); [reflexivity|lia].
Qed.

Lemma chop_nn_mono a b : 0 <= a <= b -> chop_nn a <= chop_nn b.
Proof.
  intros [Ha Hab]. pose proof P18_pos as HP. pose proof P18_half as HH.
  destruct (Z.eq_dec (a / P18) (b / P18)) as [E|NE].
  - unfold chop_nn. rewrite <- E.
    assert (a mod P18 <= b mod P18).
    { pose proof (Z.div_mod a P18 ltac:(lia)). pose proof (Z.div_mod b P18 ltac:(lia)). rewrite <- E in *. lia. }
    destruct (Z.ltb_spec (a mod P18) HALF), (Z.ltb_spec (b mod P18) HALF); try lia;
    destruct (Z.ltb_spec HALF (a mod P18)), (Z.ltb_spec HALF (b mod P18)); try lia;
    destruct (Z.even (a / P18)); lia.
  - assert (a / P18 < b / P18).
    { assert (a / P18 <= b / P18) by (apply Z.div_le_mono; lia). lia. }
    assert (chop_nn a <= a / P18 + 1).
    { unfold chop_nn. destruct (_ <? _); [lia|]. destruct (_ <? _); [lia|]. destruct (Z.even _); lia. }
    assert (b / P18 <= chop_nn b).
    { unfold chop_nn. destruct (_ <? _); [lia|]. destruct (_ <? _); [lia|]. destruct (Z.even _); lia. }
    lia.
Qed.

Lemma quot_nonneg_floor a b : 0 <= a -> 0 < b -> Z.quot a b = a / b.
Proof. intros. apply Z.quot_div_nonneg; lia. Qed.

Lemma dtrunc_nonneg a : 0 <= a -> dtrunc a = a / P18.
Proof. intros. unfold dtrunc. apply quot_nonneg_floor; [lia | apply P18_pos]. Qed.

Lemma dtrunc_dec n : dtrunc (dec n) = n.
Proof. unfold dtrunc, dec. apply Z.quot_mul. pose proof P18_pos. lia. Qed.

Lemma dmul_nonneg a b : 0 <= a -> 0 <= b -> dmul a b = chop_nn (a * b).
Proof. intros. unfold dmul, chop_round. destruct (Z.ltb_spec (a * b) 0); [nia | reflexivity]. Qed.

Lemma dmul_dec_int a n : 0 <= a -> 0 <= n -> dmul a (dec n) = a * n.
Proof.
  intros. rewrite dmul_nonneg by (unfold dec; pose proof P18_pos; nia).
  unfold dec. replace (a * (n * P18)) with ((a * n) * P18) by ring. apply chop_nn_exact. nia.
Qed.

Lemma dquo_nonneg a b : 0 <= a -> 0 < b -> dquo a b = chop_nn ((a * P18 * P18) / b).
Proof.
  intros. unfold dquo, chop_round. pose proof P18_pos.
  rewrite quot_nonneg_floor by nia.
  destruct (Z.ltb_spec ((a * P18 * P18) / b) 0) as [L|L]; [|reflexivity].
  assert (0 <= (a * P18 * P18) / b) by (apply Z.div_pos; nia). lia.
Qed.

Lemma in_int64_iff x : in_int64 x = true <-> int64_min <= x <= int64_max.
Proof. unfold in_int64. rewrite Bool.andb_true_iff, !Z.leb_le. tauto. Qed.

Lemma wrap64_id x : int64_min <= x <= int64_max -> wrap64 x = x.
Proof.
  unfold wrap64, int64_min, int64_max. intros Hx.
  rewrite Z.mod_small by lia. lia.
Qed.
