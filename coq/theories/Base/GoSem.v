(* Semantics of the Go fragment the function translator (translator/gen_gofuncs.go) emits.
   Generated definitions (Gen/GoFuncs.v) are shallow embeddings: every translated Go function is a
   Gallina function into [gres], the result-or-panic monad; the Go operators are the definitions
   below.  Nothing here is specific to canine-chain.

     int64 / int      Z, every + - * wrapped to two's complement 64 bit ([wrap64]); `/` and `%`
                      truncate toward zero (Z.quot / Z.rem) and panic on a zero divisor
     sdk.Dec          Z scaled by 10^18 (Base/Dec.v); Quo and QuoInt64 by zero panic, TruncateInt64 out of
                      the int64 range panics ("Int64() out of bound"); the 315-bit overflow panics of
                      the sdk are NOT modelled (unreachable from int64-sized operands in the
                      translated functions, see DESIGN section 7)
     sdk.Int          Z
     error            bool: true = nil
     effects          events [Ev tag args] appended to a list, in program order
*)
From Coq Require Import ZArith List Bool String.
From JK Require Import Base.Dec.
Import ListNotations.
Open Scope Z_scope.

Inductive gres (A : Type) : Type := GVal (a : A) | GPanic.
Arguments GVal {A} a.
Arguments GPanic {A}.

Definition gbind {A B : Type} (m : gres A) (f : A -> gres B) : gres B :=
  match m with GVal a => f a | GPanic => GPanic end.

Notation "'glet' x ':=' m 'in' k" := (gbind m (fun x => k))
  (at level 200, x name, m at level 100, k at level 200, right associativity).
Notation "'glet' ' p ':=' m 'in' k" := (gbind m (fun x => match x with p => k end))
  (at level 200, p pattern, m at level 100, k at level 200, right associativity).

(* an effect the translated code performs on something the translation does not model (a store write,
   a bank transfer): the configured tag and the translated integer arguments *)
Inductive gev := Ev (tag : string) (args : list Z).

(* ---------------- int64 ---------------- *)
Definition i64add (a b : Z) : Z := wrap64 (a + b).
Definition i64sub (a b : Z) : Z := wrap64 (a - b).
Definition i64mul (a b : Z) : Z := wrap64 (a * b).
Definition i64neg (a : Z) : Z := wrap64 (- a).
Definition i64quo (a b : Z) : gres Z := if b =? 0 then GPanic else GVal (wrap64 (Z.quot a b)).
Definition i64rem (a b : Z) : gres Z := if b =? 0 then GPanic else GVal (Z.rem a b).

(* ---------------- sdk.Dec ---------------- *)
Definition gdec_quo (a b : Z) : gres Z := if b =? 0 then GPanic else GVal (dquo a b).
Definition gdec_quo_int64 (a n : Z) : gres Z := if n =? 0 then GPanic else GVal (dquo_int a n).
Definition gdec_trunc64 (a : Z) : gres Z := match dtrunc64 a with Some t => GVal t | None => GPanic end.
(* sdk.NewInt64Coin(denom, amount): panics on a negative amount (the denom is the caller's business) *)
Definition gcoin64 (a : Z) : gres Z := if a <? 0 then GPanic else GVal a.

(* sdk.Int.Int64(): panics when the value does not fit *)
Definition gint_int64 (a : Z) : gres Z := if in_int64 a then GVal a else GPanic.
(* time.Time.Sub saturates at the int64 range of a Duration (instants are nanoseconds since the epoch, unbounded) *)
Definition gsat64 (x : Z) : Z := if x <? int64_min then int64_min else if int64_max <? x then int64_max else x.
(* time.Duration.Truncate(m): d - d % m toward zero; d itself when m <= 0 *)
Definition gdur_truncate (d m : Z) : gres Z := if m <=? 0 then GVal d else GVal (d - Z.rem d m).

(* ---------------- lemmas used by the ties ---------------- *)
Lemma gbind_val {A B} (a : A) (f : A -> gres B) : gbind (GVal a) f = f a.
Proof. reflexivity. Qed.

Lemma i64add_id a b : int64_min <= a + b <= int64_max -> i64add a b = a + b.
Proof. apply wrap64_id. Qed.
Lemma i64sub_id a b : int64_min <= a - b <= int64_max -> i64sub a b = a - b.
Proof. apply wrap64_id. Qed.
Lemma i64mul_id a b : int64_min <= a * b <= int64_max -> i64mul a b = a * b.
Proof. apply wrap64_id. Qed.

Definition of_option {A} (o : option A) : gres A := match o with Some a => GVal a | None => GPanic end.
