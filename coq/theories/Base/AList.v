(* Association lists with keys compared by a boolean equality; the KV stores, the bank
   and the transient maps of the models.  First binding wins on lookup; set replaces the
   first binding in place (or appends), so a list without duplicate keys stays so. *)
From Coq Require Import List Bool ZArith Lia.
Import ListNotations.

Section AList.
  Context {K V : Type}.
  Variable eqb : K -> K -> bool.
  Hypothesis eqb_spec : forall a b, eqb a b = true <-> a = b.

  Fixpoint aget (l : list (K * V)) (k : K) : option V :=
    match l with
    | [] => None
    | (k', v) :: r => if eqb k k' then Some v else aget r k
    end.

  Fixpoint aset (l : list (K * V)) (k : K) (v : V) : list (K * V) :=
    match l with
    | [] => [(k, v)]
    | (k', v') :: r => if eqb k k' then (k, v) :: r else (k', v') :: aset r k v
    end.

  Fixpoint adel (l : list (K * V)) (k : K) : list (K * V) :=
    match l with
    | [] => []
    | (k', v') :: r => if eqb k k' then adel r k else (k', v') :: adel r k
    end.

  Definition akeys (l : list (K * V)) : list K := map fst l.

  Lemma eqb_refl k : eqb k k = true.
  Proof. apply eqb_spec. reflexivity. Qed.

  Lemma eqb_neq a b : a <> b -> eqb a b = false.
  Proof. intros N. destruct (eqb a b) eqn:E; [apply eqb_spec in E; contradiction | reflexivity]. Qed.

  Lemma aget_aset_same l k v : aget (aset l k v) k = Some v.
  Proof.
    induction l as [|[k' v'] r IH]; cbn; [rewrite eqb_refl; reflexivity|].
    destruct (eqb k k') eqn:E; cbn; [rewrite eqb_refl; reflexivity | rewrite E; exact IH].
  Qed.

  Lemma aget_aset_other l k k' v : k' <> k -> aget (aset l k v) k' = aget l k'.
  Proof.
    intros N. induction l as [|[k0 v0] r IH]; cbn.
    - rewrite eqb_neq by exact N. reflexivity.
    - destruct (eqb k k0) eqn:E; cbn.
      + apply eqb_spec in E; subst k0. rewrite eqb_neq by exact N. reflexivity.
      + destruct (eqb k' k0); [reflexivity | exact IH].
  Qed.

  Lemma aget_adel_same l k : aget (adel l k) k = None.
  Proof.
    induction l as [|[k' v'] r IH]; cbn; [reflexivity|].
    destruct (eqb k k') eqn:E; cbn; [exact IH | rewrite E; exact IH].
  Qed.

  Lemma aget_adel_other l k k' : k' <> k -> aget (adel l k) k' = aget l k'.
  Proof.
    intros N. induction l as [|[k0 v0] r IH]; cbn; [reflexivity|].
    destruct (eqb k k0) eqn:E; cbn.
    - apply eqb_spec in E; subst k0. rewrite eqb_neq by exact N. exact IH.
    - destruct (eqb k' k0); [reflexivity | exact IH].
  Qed.

  Lemma akeys_aset_in l k v x : In x (akeys (aset l k v)) <-> x = k \/ In x (akeys l).
  Proof.
    induction l as [|[k' v'] r IH]; cbn; [intuition|].
    destruct (eqb k k') eqn:E; cbn.
    - apply eqb_spec in E; subst k'. intuition.
    - rewrite IH. intuition.
  Qed.

  Lemma aget_none_notin l k : aget l k = None <-> ~ In k (akeys l).
  Proof.
    induction l as [|[k' v'] r IH]; cbn; [intuition|].
    destruct (eqb k k') eqn:E.
    - apply eqb_spec in E; subst k'. split; [discriminate | intros N; exfalso; apply N; left; reflexivity].
    - rewrite IH. split; [intros N [C|C]; [subst k'; rewrite eqb_refl in E; discriminate | exact (N C)] | intros N C; apply N; right; exact C].
  Qed.

  Lemma nodup_aset l k v : NoDup (akeys l) -> NoDup (akeys (aset l k v)).
  Proof.
    induction l as [|[k' v'] r IH]; cbn; intros ND.
    - constructor; [intros []|constructor].
    - inversion ND as [|? ? Hn Hr]; subst.
      destruct (eqb k k') eqn:E; cbn.
      + apply eqb_spec in E; subst k'. constructor; assumption.
      + constructor; [|apply IH; exact Hr].
        intros C. apply akeys_aset_in in C as [C|C]; [subst k'; rewrite eqb_refl in E; discriminate | exact (Hn C)].
  Qed.

  Lemma akeys_adel_in l k x : In x (akeys (adel l k)) <-> x <> k /\ In x (akeys l).
  Proof.
    induction l as [|[k' v'] r IH]; cbn; [intuition|].
    destruct (eqb k k') eqn:E; cbn.
    - apply eqb_spec in E; subst k'. rewrite IH. intuition. subst. intuition.
    - rewrite IH. split.
      + intros [C|C]; [subst x; split; [intros ->; rewrite eqb_refl in E; discriminate | left; reflexivity] | intuition].
      + intros [N [C|C]]; [left; exact C | right; split; assumption].
  Qed.

  Lemma nodup_adel l k : NoDup (akeys l) -> NoDup (akeys (adel l k)).
  Proof.
    induction l as [|[k' v'] r IH]; cbn; intros ND; [constructor|].
    inversion ND as [|? ? Hn Hr]; subst.
    destruct (eqb k k'); cbn; [apply IH; exact Hr|].
    constructor; [|apply IH; exact Hr]. intros C. apply akeys_adel_in in C as [_ C]. exact (Hn C).
  Qed.
End AList.

(* sums over Z-valued association lists (escrow invariants) *)
Section ASum.
  Context {K : Type}.
  Variable eqb : K -> K -> bool.
  Hypothesis eqb_spec : forall a b, eqb a b = true <-> a = b.
  Open Scope Z_scope.

  Fixpoint asum (l : list (K * Z)) : Z :=
    match l with [] => 0 | (_, v) :: r => v + asum r end.
  Definition aval (l : list (K * Z)) (k : K) : Z := match aget eqb l k with Some v => v | None => 0 end.

  Lemma asum_aset l k v : NoDup (akeys l) -> asum (aset eqb l k v) = asum l - aval l k + v.
  Proof.
    unfold aval. induction l as [|[k' v'] r IH]; cbn; intros ND; [lia|].
    inversion ND as [|? ? Hn Hr]; subst.
    destruct (eqb k k') eqn:E; cbn; [lia|]. rewrite IH by exact Hr. lia.
  Qed.

  Lemma asum_adel l k : NoDup (akeys l) -> asum (adel eqb l k) = asum l - aval l k.
  Proof.
    unfold aval. induction l as [|[k' v'] r IH]; cbn; intros ND; [lia|].
    inversion ND as [|? ? Hn Hr]; subst.
    destruct (eqb k k') eqn:E; cbn.
    - apply eqb_spec in E; subst k'.
      assert (aget eqb r k = None) as G by (apply (aget_none_notin eqb eqb_spec); exact Hn).
      rewrite IH by exact Hr. rewrite G. lia.
    - rewrite IH by exact Hr. lia.
  Qed.
End ASum.
