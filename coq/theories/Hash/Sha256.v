(* Executable SHA-256 over byte lists (list N, each < 256).  Validated against
   crypto/sha256 by the correspondence runs; theorems never rely on any property
   of it other than being a function. *)
From Coq Require Import NArith List.
Import ListNotations.
Open Scope N_scope.

Definition w32 (x : N) : N := N.land x 4294967295.
Definition add32 (a b : N) : N := w32 (a + b).
Definition rotr (n x : N) : N := N.lor (N.shiftr x n) (w32 (N.shiftl x (32 - n))).
Definition shr (n x : N) : N := N.shiftr x n.
Definition Ch x y z := N.lxor (N.land x y) (N.land (N.lxor x 4294967295) z).
Definition Maj x y z := N.lxor (N.lxor (N.land x y) (N.land x z)) (N.land y z).
Definition S0 x := N.lxor (N.lxor (rotr 2 x) (rotr 13 x)) (rotr 22 x).
Definition S1 x := N.lxor (N.lxor (rotr 6 x) (rotr 11 x)) (rotr 25 x).
Definition s0 x := N.lxor (N.lxor (rotr 7 x) (rotr 18 x)) (shr 3 x).
Definition s1 x := N.lxor (N.lxor (rotr 17 x) (rotr 19 x)) (shr 10 x).

Definition Ks : list N := [1116352408; 1899447441; 3049323471; 3921009573; 961987163; 1508970993; 2453635748; 2870763221; 3624381080; 310598401; 607225278; 1426881987; 1925078388; 2162078206; 2614888103; 3248222580; 3835390401; 4022224774; 264347078; 604807628; 770255983; 1249150122; 1555081692; 1996064986; 2554220882; 2821834349; 2952996808; 3210313671; 3336571891; 3584528711; 113926993; 338241895; 666307205; 773529912; 1294757372; 1396182291; 1695183700; 1986661051; 2177026350; 2456956037; 2730485921; 2820302411; 3259730800; 3345764771; 3516065817; 3600352804; 4094571909; 275423344; 430227734; 506948616; 659060556; 883997877; 958139571; 1322822218; 1537002063; 1747873779; 1955562222; 2024104815; 2227730452; 2361852424; 2428436474; 2756734187; 3204031479; 3329325298].
Definition H0 : list N := [1779033703; 3144134277; 1013904242; 2773480762; 1359893119; 2600822924; 528734635; 1541459225].

(* message schedule: keep last 16 words in a list, newest first *)
Fixpoint sched (n : nat) (w : list N) (acc : list N) : list N :=
  match n with
  | O => rev acc
  | S n' =>
    match w with
    | w1 :: w2 :: w3 :: w4 :: w5 :: w6 :: w7 :: w8 :: w9 :: w10 :: w11 :: w12 :: w13 :: w14 :: w15 :: w16 :: _ =>
      let x := add32 (add32 (s1 w2) w7) (add32 (s0 w15) w16) in
      sched n' (x :: w1 :: w2 :: w3 :: w4 :: w5 :: w6 :: w7 :: w8 :: w9 :: w10 :: w11 :: w12 :: w13 :: w14 :: [w15]) (x :: acc)
    | _ => rev acc
    end
  end.

Definition st := (N * N * N * N * N * N * N * N)%type.

Definition round (s : st) (kw : N * N) : st :=
  let '(a,b,c,d,e,f,g,h) := s in
  let '(k,w) := kw in
  let t1 := add32 (add32 (add32 h (S1 e)) (add32 (Ch e f g) k)) w in
  let t2 := add32 (S0 a) (Maj a b c) in
  (add32 t1 t2, a, b, c, add32 d t1, e, f, g).

Definition compress (s : st) (blk : list N) : st :=
  let ws := blk ++ sched 48 (rev blk) [] in
  let '(a,b,c,d,e,f,g,h) := s in
  let '(a',b',c',d',e',f',g',h') := fold_left round (combine Ks ws) s in
  (add32 a a', add32 b b', add32 c c', add32 d d', add32 e e', add32 f f', add32 g g', add32 h h').

Fixpoint words (bs : list N) : list N :=
  match bs with
  | b0 :: b1 :: b2 :: b3 :: r => (b0 * 16777216 + b1 * 65536 + b2 * 256 + b3) :: words r
  | _ => []
  end.

Fixpoint chunks16 (fuel : nat) (ws : list N) : list (list N) :=
  match fuel with
  | O => []
  | S f => match ws with [] => [] | _ => firstn 16 ws :: chunks16 f (skipn 16 ws) end
  end.

Definition pad (bs : list N) : list N :=
  let l := N.of_nat (length bs) in
  let k := (119 - (l mod 64)) mod 64 in
  let bits := l * 8 in
  bs ++ [128] ++ repeat 0 (N.to_nat k) ++
  map (fun i => N.land (N.shiftr bits (8 * (7 - i))) 255) [0;1;2;3;4;5;6;7].

Definition word_bytes (w : N) : list N :=
  [N.shiftr w 24; N.land (N.shiftr w 16) 255; N.land (N.shiftr w 8) 255; N.land w 255].

Definition sha256 (bs : list N) : list N :=
  let ws := words (pad bs) in
  let init := match H0 with [a;b;c;d;e;f;g;h] => (a,b,c,d,e,f,g,h) | _ => (0,0,0,0,0,0,0,0) end in
  let '(a,b,c,d,e,f,g,h) := fold_left compress (chunks16 (length ws) ws) init in
  concat (map word_bytes [a;b;c;d;e;f;g;h]).

