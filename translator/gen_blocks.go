package main

// Generator "blocks": what each custom module does at a block boundary.  For every package x/<module> that declares
// an AppModule with BeginBlock / EndBlock methods, the calls those two methods make (by source text of the callee), in
// order; a body that only returns an empty validator-update list has none.  The models of the properties assume that
// rns, filetree, notifications and oracle do nothing at block boundaries and that storage and jklmint call exactly
// their BeginBlocker; the theorems over this table (Props/C05.v, Props/C16.v) are re-proved on every run.

import (
	"fmt"
	"go/ast"
	"go/printer"
	"sort"
	"strings"
)

func init() { generators["blocks"] = genBlocks }

func genBlocks(c *Ctx) (string, string, error) {
	type row struct {
		module     string
		begin, end []string
		where      string
		cv         string
		migs       []string
		blocker    []string // calls of the package-level BeginBlocker / EndBlocker functions (deferred telemetry aside)
	}
	var rows []row
	for _, p := range c.Pkgs {
		if !strings.Contains(p.PkgPath, "/x/") || strings.Count(strings.SplitN(p.PkgPath, "/x/", 2)[1], "/") != 0 {
			continue
		}
		mod := strings.SplitN(p.PkgPath, "/x/", 2)[1]
		r := row{module: mod}
		seen := 0
		for _, f := range p.Syntax {
			for _, d := range f.Decls {
				fd, ok := d.(*ast.FuncDecl)
				if ok && fd.Recv == nil && fd.Body != nil && (fd.Name.Name == "BeginBlocker" || fd.Name.Name == "EndBlocker") {
					for _, st := range fd.Body.List {
						switch x := st.(type) {
						case *ast.DeferStmt:
							var sb strings.Builder
							_ = printer.Fprint(&sb, p.Fset, x.Call.Fun)
							if !strings.HasPrefix(sb.String(), "telemetry.") {
								return "", "", fmt.Errorf("x/%s %s defers %s", mod, fd.Name.Name, sb.String())
							}
						case *ast.ExprStmt:
							call, isCall := x.X.(*ast.CallExpr)
							if !isCall {
								return "", "", fmt.Errorf("x/%s %s: a statement that is not a call", mod, fd.Name.Name)
							}
							var sb strings.Builder
							_ = printer.Fprint(&sb, p.Fset, call.Fun)
							r.blocker = append(r.blocker, fd.Name.Name+":"+sb.String())
						case *ast.ReturnStmt:
						default:
							return "", "", fmt.Errorf("%s:%d: x/%s %s does more than call the keeper's block routine (%T)", c.Rel(p.Fset.Position(st.Pos()).Filename), p.Fset.Position(st.Pos()).Line, mod, fd.Name.Name, st)
						}
					}
				}
				if ok && fd.Recv != nil && fd.Name.Name == "ConsensusVersion" && fd.Body != nil && len(fd.Body.List) == 1 {
					if rs, ok := fd.Body.List[0].(*ast.ReturnStmt); ok && len(rs.Results) == 1 {
						if bl, ok := rs.Results[0].(*ast.BasicLit); ok {
							r.cv = bl.Value
						}
					}
				}
				if ok && fd.Body != nil {
					ast.Inspect(fd.Body, func(n ast.Node) bool {
						if call, ok := n.(*ast.CallExpr); ok {
							if sel, ok := call.Fun.(*ast.SelectorExpr); ok && sel.Sel.Name == "RegisterMigration" && len(call.Args) == 3 {
								if bl, ok := call.Args[1].(*ast.BasicLit); ok {
									r.migs = append(r.migs, bl.Value)
								} else {
									r.migs = append(r.migs, "999999") // not a literal: the table cannot vouch for it
								}
							}
						}
						return true
					})
				}
				if !ok || fd.Recv == nil || len(fd.Recv.List) != 1 || (fd.Name.Name != "BeginBlock" && fd.Name.Name != "EndBlock") {
					continue
				}
				rt := fd.Recv.List[0].Type
				if st, ok := rt.(*ast.StarExpr); ok {
					rt = st.X
				}
				if id, ok := rt.(*ast.Ident); !ok || id.Name != "AppModule" {
					continue
				}
				seen++
				var calls []string
				var bad error
				for _, s := range fd.Body.List {
					switch x := s.(type) {
					case *ast.ReturnStmt:
						// `return []abci.ValidatorUpdate{}`: nothing happens
						for _, res := range x.Results {
							if cl, ok := res.(*ast.CompositeLit); !ok || len(cl.Elts) != 0 {
								bad = fmt.Errorf("%s: x/%s %s returns something else than an empty update list", c.Rel(p.Fset.Position(s.Pos()).Filename), mod, fd.Name.Name)
							}
						}
					case *ast.ExprStmt:
						call, ok := x.X.(*ast.CallExpr)
						if !ok {
							bad = fmt.Errorf("x/%s %s: a statement that is not a call", mod, fd.Name.Name)
							break
						}
						var sb strings.Builder
						_ = printer.Fprint(&sb, p.Fset, call.Fun)
						calls = append(calls, sb.String())
					default:
						bad = fmt.Errorf("%s:%d: x/%s %s does more than call its block routines (%T): the table cannot describe it", c.Rel(p.Fset.Position(s.Pos()).Filename), p.Fset.Position(s.Pos()).Line, mod, fd.Name.Name, s)
					}
				}
				if bad != nil {
					return "", "", bad
				}
				if fd.Name.Name == "BeginBlock" {
					r.begin = calls
				} else {
					r.end = calls
				}
				r.where = c.Rel(p.Fset.Position(fd.Pos()).Filename)
			}
		}
		if seen > 0 {
			if seen != 2 {
				return "", "", fmt.Errorf("x/%s: %d of BeginBlock/EndBlock found on AppModule", mod, seen)
			}
			if r.cv == "" {
				return "", "", fmt.Errorf("x/%s: ConsensusVersion is not `return <literal>`", mod)
			}
			rows = append(rows, r)
		}
	}
	if len(rows) == 0 {
		return "", "", fmt.Errorf("no AppModule with BeginBlock/EndBlock found under x/")
	}
	sort.Slice(rows, func(i, j int) bool { return rows[i].module < rows[j].module })
	var b strings.Builder
	b.WriteString("From Coq Require Import List String.\nImport ListNotations.\nOpen Scope string_scope.\n\n")
	b.WriteString("(* (module, calls of AppModule.BeginBlock, calls of AppModule.EndBlock) *)\nDefinition block_routines : list (string * (list string * list string)) :=\n  [")
	for i, r := range rows {
		if i > 0 {
			b.WriteString(";\n   ")
		}
		q := func(l []string) string {
			var o []string
			for _, s := range l {
				o = append(o, CoqString(s))
			}
			return CoqList(o)
		}
		fmt.Fprintf(&b, "(%s, (%s, %s)) (* %s *)", CoqString(r.module), q(r.begin), q(r.end), r.where)
	}
	b.WriteString("].\n\n(* (module, (consensus version, versions a migration is registered from, in source order)) *)\nDefinition module_migrations : list (string * (nat * list nat)) :=\n  [")
	for i, r := range rows {
		if i > 0 {
			b.WriteString(";\n   ")
		}
		fmt.Fprintf(&b, "(%s, (%s, %s))", CoqString(r.module), r.cv, CoqList(r.migs))
	}
	b.WriteString("].\n\n(* (module, calls of its package-level BeginBlocker / EndBlocker, deferred telemetry aside) *)\nDefinition blocker_calls : list (string * list string) :=\n  [")
	for i, r := range rows {
		if i > 0 {
			b.WriteString(";\n   ")
		}
		var o []string
		for _, x := range r.blocker {
			o = append(o, CoqString(x))
		}
		fmt.Fprintf(&b, "(%s, %s)", CoqString(r.module), CoqList(o))
	}
	b.WriteString("].\n")
	return "BlockRoutines.v", b.String(), nil
}
