package main

// Generator "genesis" (property C19): the genesis export/import of the six custom modules as a
// finite table, read off the program text.
//
// Per module it emits
//   (a) m_written  : every KV write a non-test keeper file performs: `X.Set(key, value)` where X is a
//       store built by `prefix.NewStore(ctx.KVStore(k.storeKey), types.KeyPrefix(P))` (P a constant) or the
//       raw module store, and `<paramstore>.SetParamSet(ctx, &p)`; with the prefix constant's VALUE, the Go
//       type marshalled into the value, the key function and which fields of the value feed it, the
//       functions that call the writer (liveness) and the source position;
//   (b) m_exported : the assignments `genesis.F = k.G(ctx)` of ExportGenesis, with the prefix G reads, the
//       type it unmarshals, the element type it returns and whether it returns the stored values unchanged;
//   (c) m_imported : the calls `k.S(ctx, elem)` of InitGenesis (loops over `genState.F`, or a single
//       `k.S(ctx, genState.F)`), with everything S writes (transitively through keeper methods).
// Anything else in ExportGenesis / InitGenesis, a Set on a store whose prefix is not a constant, a getter or
// setter that cannot be analysed: the generator FAILS (the check exits 2) instead of guessing.

import (
	"fmt"
	"go/ast"
	"go/constant"
	"go/printer"
	"go/token"
	"go/types"
	"sort"
	"strings"

	"golang.org/x/tools/go/packages"
)

const gkBase = "github.com/jackalLabs/canine-chain/v4/x/"

var gkModules = []string{"storage", "rns", "filetree", "notifications", "oracle", "jklmint"}

type gkWrite struct {
	Func, Prefix, Type, KeyFn string
	KeyArgs                   []string
	KFV                       bool // every key argument is a field of the stored value
	Callers                   []string
	Pos                       string
	decl                      *ast.FuncDecl
}

type gkGet struct {
	Field, Func, Prefix, Read, Type string
	Direct, Filtered                bool
}

type gkSet struct {
	Field, Func string
	Loop        bool
	Targets     []gkWrite
}

type gkModule struct {
	Name     string
	Written  []gkWrite
	Exported []gkGet
	Imported []gkSet
}

func init() { generators["genesis"] = genGenesis }

type gkCtx struct {
	c       *Ctx
	callers map[string]map[string]bool // callee FullName -> set of caller FullNames
}

func genGenesis(c *Ctx) (string, string, error) {
	g := &gkCtx{c: c, callers: map[string]map[string]bool{}}
	g.buildCallGraph()
	var mods []gkModule
	var prov []string
	for _, m := range gkModules {
		mod, files, err := g.module(m)
		if err != nil {
			return "", "", fmt.Errorf("module %s: %w", m, err)
		}
		mods = append(mods, mod)
		prov = append(prov, files...)
	}
	var b strings.Builder
	b.WriteString("(* Genesis record kinds of the custom modules (C19): store writes of the keepers, what ExportGenesis reads,\n   what InitGenesis writes.  Sources read:\n")
	for _, p := range prov {
		b.WriteString("     " + p + "\n")
	}
	b.WriteString("*)\nFrom Coq Require Import String List Bool.\nFrom JK Require Import Model.Genesis.\nImport ListNotations.\nOpen Scope string_scope.\n\n")
	var names []string
	for _, m := range mods {
		if len(m.Written) == 0 {
			return "", "", fmt.Errorf("module %s: no store write found in its keeper (refusing to emit an empty table)", m.Name)
		}
		// ExportGenesis / InitGenesis were found and every statement in them was recognised (module() fails
		// otherwise); an InitGenesis that imports nothing is a legal program and yields an empty list here
		n := "gk_" + m.Name
		names = append(names, n)
		fmt.Fprintf(&b, "Definition %s : gk_module := {|\n  m_name := %s;\n  m_written := [\n", n, CoqString(m.Name))
		for i, w := range m.Written {
			fmt.Fprintf(&b, "    %s%s\n", gkCoqWrite(w, true), sep(i, len(m.Written)))
		}
		b.WriteString("  ];\n  m_exported := [\n")
		for i, e := range m.Exported {
			fmt.Fprintf(&b, "    {| g_field := %s; g_func := %s; g_prefix := %s; g_read := %s; g_type := %s; g_direct := %s; g_filtered := %s |}%s\n",
				CoqString(e.Field), CoqString(e.Func), CoqString(e.Prefix), CoqString(e.Read), CoqString(e.Type), CoqBool(e.Direct), CoqBool(e.Filtered), sep(i, len(m.Exported)))
		}
		b.WriteString("  ];\n  m_imported := [\n")
		for i, s := range m.Imported {
			var ts []string
			for _, t := range s.Targets {
				ts = append(ts, gkCoqTarget(t))
			}
			fmt.Fprintf(&b, "    {| s_field := %s; s_func := %s; s_loop := %s; s_targets := %s |}%s\n",
				CoqString(s.Field), CoqString(s.Func), CoqBool(s.Loop), CoqList(ts), sep(i, len(m.Imported)))
		}
		b.WriteString("  ]\n|}.\n\n")
	}
	fmt.Fprintf(&b, "Definition genesis_table : list gk_module := %s.\n", CoqList(names))
	return "GenesisKinds.v", b.String(), nil
}

func sep(i, n int) string {
	if i+1 < n {
		return ";"
	}
	return ""
}

func gkStrs(xs []string) string {
	var q []string
	for _, x := range xs {
		q = append(q, CoqString(x))
	}
	return CoqList(q)
}

func gkCoqWrite(w gkWrite, full bool) string {
	return fmt.Sprintf("{| w_func := %s; w_prefix := %s; w_type := %s; w_keyfn := %s; w_keyargs := %s; w_kfv := %s; w_callers := %s; w_pos := %s |}",
		CoqString(w.Func), CoqString(w.Prefix), CoqString(w.Type), CoqString(w.KeyFn), gkStrs(w.KeyArgs), CoqBool(w.KFV), gkStrs(w.Callers), CoqString(w.Pos))
}

func gkCoqTarget(w gkWrite) string {
	return fmt.Sprintf("{| t_prefix := %s; t_type := %s; t_keyfn := %s; t_keyargs := %s; t_kfv := %s |}",
		CoqString(w.Prefix), CoqString(w.Type), CoqString(w.KeyFn), gkStrs(w.KeyArgs), CoqBool(w.KFV))
}

// ---------------------------------------------------------------- call graph (liveness of writers)

func gkCallee(info *types.Info, call *ast.CallExpr) *types.Func {
	var id *ast.Ident
	switch f := call.Fun.(type) {
	case *ast.Ident:
		id = f
	case *ast.SelectorExpr:
		id = f.Sel
	default:
		return nil
	}
	if fn, ok := info.Uses[id].(*types.Func); ok {
		return fn
	}
	return nil
}

func (g *gkCtx) buildCallGraph() {
	for _, p := range g.c.Pkgs {
		for _, f := range p.Syntax {
			if strings.HasSuffix(p.Fset.Position(f.Pos()).Filename, "_test.go") {
				continue
			}
			for _, d := range f.Decls {
				fd, ok := d.(*ast.FuncDecl)
				if !ok || fd.Body == nil {
					continue
				}
				callerObj, _ := p.TypesInfo.Defs[fd.Name].(*types.Func)
				if callerObj == nil {
					continue
				}
				caller := callerObj.FullName()
				ast.Inspect(fd.Body, func(n ast.Node) bool {
					// a method value / function value mentioned anywhere counts as a use
					if id, ok := n.(*ast.Ident); ok {
						if fn, ok := p.TypesInfo.Uses[id].(*types.Func); ok {
							cal := fn.FullName()
							if g.callers[cal] == nil {
								g.callers[cal] = map[string]bool{}
							}
							g.callers[cal][caller] = true
						}
					}
					return true
				})
			}
		}
	}
}

func gkShort(full string) string {
	// "(github.com/.../keeper.Keeper).SetFile" -> "keeper.SetFile"; "github.com/.../x/storage.InitGenesis" -> "storage.InitGenesis"
	s := strings.ReplaceAll(full, gkBase, "")
	s = strings.ReplaceAll(s, "github.com/jackalLabs/canine-chain/v4/", "")
	s = strings.NewReplacer("(", "", ")", "", "*", "").Replace(s)
	return s
}

// ---------------------------------------------------------------- per module

func (g *gkCtx) module(m string) (gkModule, []string, error) {
	mod := gkModule{Name: m}
	kp := g.c.ByID[gkBase+m+"/keeper"]
	gp := g.c.ByID[gkBase+m]
	if kp == nil || gp == nil {
		return mod, nil, fmt.Errorf("package %s or its keeper is not loaded", gkBase+m)
	}
	var files []string
	decls := map[string]*ast.FuncDecl{} // keeper methods and functions by name
	for _, f := range kp.Syntax {
		fn := kp.Fset.Position(f.Pos()).Filename
		if strings.HasSuffix(fn, "_test.go") {
			continue
		}
		files = append(files, g.c.Rel(fn))
		for _, d := range f.Decls {
			if fd, ok := d.(*ast.FuncDecl); ok && fd.Body != nil {
				decls[fd.Name.Name] = fd
			}
		}
	}
	sort.Strings(files)
	if len(files) == 0 {
		return mod, nil, fmt.Errorf("x/%s/keeper: no source file", m)
	}
	files = []string{fmt.Sprintf("x/%s/keeper/*.go (%d non-test files, %s ... %s)", m, len(files), files[0][strings.LastIndex(files[0], "/")+1:], files[len(files)-1][strings.LastIndex(files[len(files)-1], "/")+1:])}
	// (a) writers
	own := map[string][]gkWrite{} // by function name: the writes in its own body
	var names []string
	for n := range decls {
		names = append(names, n)
	}
	sort.Strings(names)
	for _, n := range names {
		ws, err := g.writesOf(kp, decls[n])
		if err != nil {
			return mod, nil, err
		}
		own[n] = ws
		mod.Written = append(mod.Written, ws...)
	}
	sort.SliceStable(mod.Written, func(i, j int) bool { return mod.Written[i].Pos < mod.Written[j].Pos })
	// (b), (c) genesis.go
	var exp, ini *ast.FuncDecl
	var gfile string
	for _, f := range gp.Syntax {
		fn := gp.Fset.Position(f.Pos()).Filename
		if !strings.HasSuffix(fn, "/genesis.go") {
			continue
		}
		gfile = g.c.Rel(fn)
		for _, d := range f.Decls {
			if fd, ok := d.(*ast.FuncDecl); ok {
				switch fd.Name.Name {
				case "ExportGenesis":
					exp = fd
				case "InitGenesis":
					ini = fd
				}
			}
		}
	}
	if exp == nil || ini == nil || exp.Body == nil || ini.Body == nil {
		return mod, nil, fmt.Errorf("x/%s/genesis.go: ExportGenesis or InitGenesis not found", m)
	}
	files = append(files, gfile)
	var err error
	if mod.Exported, err = g.exportOf(gp, kp, exp, decls); err != nil {
		return mod, nil, err
	}
	if mod.Imported, err = g.importOf(gp, kp, ini, decls, own); err != nil {
		return mod, nil, err
	}
	return mod, files, nil
}

func gkPos(p *packages.Package, c *Ctx, pos token.Pos) string {
	ps := p.Fset.Position(pos)
	return fmt.Sprintf("%s:%d", c.Rel(ps.Filename), ps.Line)
}

func gkNamed(t types.Type) string {
	for {
		if pt, ok := t.(*types.Pointer); ok {
			t = pt.Elem()
			continue
		}
		break
	}
	if n, ok := t.(*types.Named); ok {
		return n.Obj().Name()
	}
	return t.String()
}

func isSel(e ast.Expr, x, sel string) bool {
	s, ok := e.(*ast.SelectorExpr)
	if !ok || s.Sel.Name != sel {
		return false
	}
	if x == "" {
		return true
	}
	id, ok := s.X.(*ast.Ident)
	return ok && id.Name == x
}

// constPrefix evaluates `types.KeyPrefix(CONST)` to the constant's string value.
func constPrefix(info *types.Info, e ast.Expr) (string, bool) {
	call, ok := e.(*ast.CallExpr)
	if !ok || len(call.Args) != 1 || !isSel(call.Fun, "", "KeyPrefix") {
		return "", false
	}
	tv, ok := info.Types[call.Args[0]]
	if !ok || tv.Value == nil || tv.Value.Kind() != constant.String {
		return "", false
	}
	return constant.StringVal(tv.Value), true
}

// isKVStoreCall recognises ctx.KVStore(k.storeKey)
func isModuleKVStore(e ast.Expr) bool {
	call, ok := e.(*ast.CallExpr)
	if !ok || !isSel(call.Fun, "", "KVStore") || len(call.Args) != 1 {
		return false
	}
	return isSel(call.Args[0], "k", "storeKey") || isSel(call.Args[0], "keeper", "storeKey")
}

type gkStoreVar struct {
	prefix  string
	known   bool
	dynamic string // text of a non-constant prefix expression
}

func storeTyped(info *types.Info, e ast.Expr) bool {
	t := info.TypeOf(e)
	if t == nil {
		return false
	}
	s := t.String()
	return strings.HasSuffix(s, "store/prefix.Store") || strings.HasSuffix(s, "store/types.KVStore") || strings.HasSuffix(s, "types.KVStore")
}

// writesOf lists the KV writes in the body of one keeper function.
func (g *gkCtx) writesOf(p *packages.Package, fd *ast.FuncDecl) ([]gkWrite, error) {
	info := p.TypesInfo
	stores := map[string]gkStoreVar{}
	marsh := map[string]ast.Expr{}         // b -> x   for  b := k.cdc.MustMarshal(&x)
	lits := map[string]*ast.CompositeLit{} // x -> composite literal it was defined with
	var out []gkWrite
	var ferr error
	fobj, _ := info.Defs[fd.Name].(*types.Func)
	var callers []string
	if fobj != nil {
		for c := range g.callers[fobj.FullName()] {
			if c != fobj.FullName() {
				callers = append(callers, gkShort(c))
			}
		}
		sort.Strings(callers)
	}
	bind := func(name string, rhs ast.Expr) {
		if isModuleKVStore(rhs) {
			stores[name] = gkStoreVar{prefix: "", known: true}
			return
		}
		if call, ok := rhs.(*ast.CallExpr); ok {
			if isSel(call.Fun, "prefix", "NewStore") && len(call.Args) == 2 {
				base := call.Args[0]
				okBase := isModuleKVStore(base)
				if id, ok := base.(*ast.Ident); ok {
					if sv, ok := stores[id.Name]; ok && sv.known && sv.prefix == "" {
						okBase = true
					}
				}
				if pv, ok := constPrefix(info, call.Args[1]); ok && okBase {
					stores[name] = gkStoreVar{prefix: pv, known: true}
				} else {
					stores[name] = gkStoreVar{dynamic: gkExpr(p, call.Args[1])}
				}
				return
			}
			if (isSel(call.Fun, "", "MustMarshal") || isSel(call.Fun, "", "Marshal")) && len(call.Args) == 1 {
				if u, ok := call.Args[0].(*ast.UnaryExpr); ok && u.Op == token.AND {
					marsh[name] = u.X
				}
				return
			}
		}
		if cl, ok := rhs.(*ast.CompositeLit); ok {
			lits[name] = cl
		}
	}
	ast.Inspect(fd.Body, func(n ast.Node) bool {
		if ferr != nil {
			return false
		}
		switch s := n.(type) {
		case *ast.AssignStmt:
			if len(s.Lhs) >= 1 && len(s.Rhs) == 1 {
				if id, ok := s.Lhs[0].(*ast.Ident); ok {
					bind(id.Name, s.Rhs[0])
				}
			}
		case *ast.ValueSpec:
			if len(s.Names) == 1 && len(s.Values) == 1 {
				bind(s.Names[0].Name, s.Values[0])
			}
		case *ast.CallExpr:
			sel, ok := s.Fun.(*ast.SelectorExpr)
			if !ok {
				return true
			}
			// parameter store
			if sel.Sel.Name == "SetParamSet" && len(s.Args) == 2 {
				typ := "Params"
				if u, ok := s.Args[1].(*ast.UnaryExpr); ok {
					typ = gkNamed(info.TypeOf(u.X))
				}
				out = append(out, gkWrite{Func: fd.Name.Name, Prefix: "(params)", Type: typ, KeyFn: "ParamSet", KFV: true, Callers: callers, Pos: gkPos(p, g.c, s.Pos()), decl: fd})
				return true
			}
			if sel.Sel.Name != "Set" || len(s.Args) != 2 || !storeTyped(info, sel.X) {
				return true
			}
			id, ok := sel.X.(*ast.Ident)
			if !ok {
				// e.g. ctx.KVStore(k.storeKey).Set(...) or prefix.NewStore(...).Set(...) inline
				tmp := "\x00inline"
				bind(tmp, sel.X)
				id = &ast.Ident{Name: tmp}
			}
			sv, ok := stores[id.Name]
			if !ok {
				ferr = fmt.Errorf("%s: Set on store %q whose construction is not recognised", gkPos(p, g.c, s.Pos()), id.Name)
				return false
			}
			if !sv.known {
				ferr = fmt.Errorf("%s: Set on a store whose prefix is not a constant (%s)", gkPos(p, g.c, s.Pos()), sv.dynamic)
				return false
			}
			w := gkWrite{Func: fd.Name.Name, Prefix: sv.prefix, Callers: callers, Pos: gkPos(p, g.c, s.Pos()), decl: fd, KFV: true}
			// value
			var valVar string
			if vid, ok := s.Args[1].(*ast.Ident); ok && marsh[vid.Name] != nil {
				x := marsh[vid.Name]
				w.Type = gkNamed(info.TypeOf(x))
				if xid, ok := x.(*ast.Ident); ok {
					valVar = xid.Name
				}
			} else {
				w.Type = "raw:" + gkExpr(p, s.Args[1])
				w.KFV = false
			}
			// key
			kc, ok := s.Args[0].(*ast.CallExpr)
			if !ok {
				w.KeyFn = "expr:" + gkExpr(p, s.Args[0])
				w.KFV = false
			} else {
				w.KeyFn = gkExpr(p, kc.Fun)
				w.KeyFn = strings.TrimPrefix(w.KeyFn, "types.")
				for _, a := range kc.Args {
					field := ""
					if as, ok := a.(*ast.SelectorExpr); ok {
						if ax, ok := as.X.(*ast.Ident); ok && valVar != "" && ax.Name == valVar {
							field = as.Sel.Name
						}
					}
					if aid, ok := a.(*ast.Ident); ok && valVar != "" && lits[valVar] != nil {
						for _, el := range lits[valVar].Elts {
							if kv, ok := el.(*ast.KeyValueExpr); ok {
								if vi, ok := kv.Value.(*ast.Ident); ok && vi.Name == aid.Name {
									if ki, ok := kv.Key.(*ast.Ident); ok {
										field = ki.Name
									}
								}
							}
						}
					}
					if field == "" {
						field = "?" + gkExpr(p, a)
						w.KFV = false
					}
					w.KeyArgs = append(w.KeyArgs, field)
				}
			}
			out = append(out, w)
		}
		return true
	})
	return out, ferr
}

func gkExpr(p *packages.Package, e ast.Expr) string {
	var b strings.Builder
	_ = printer.Fprint(&b, p.Fset, e)
	s := strings.Join(strings.Fields(b.String()), " ")
	if len(s) > 80 {
		s = s[:80] + "..."
	}
	return s
}

// ---------------------------------------------------------------- ExportGenesis

func (g *gkCtx) exportOf(gp, kp *packages.Package, fd *ast.FuncDecl, decls map[string]*ast.FuncDecl) ([]gkGet, error) {
	var out []gkGet
	gvar := ""
	for _, st := range fd.Body.List {
		where := gkPos(gp, g.c, st.Pos())
		switch s := st.(type) {
		case *ast.ReturnStmt:
			if len(s.Results) == 1 {
				if id, ok := s.Results[0].(*ast.Ident); ok && id.Name == gvar {
					continue
				}
			}
			return nil, fmt.Errorf("%s: ExportGenesis: unrecognised return", where)
		case *ast.AssignStmt:
			if len(s.Lhs) != 1 || len(s.Rhs) != 1 {
				return nil, fmt.Errorf("%s: ExportGenesis: unrecognised assignment", where)
			}
			if id, ok := s.Lhs[0].(*ast.Ident); ok && s.Tok == token.DEFINE {
				if call, ok := s.Rhs[0].(*ast.CallExpr); ok && isSel(call.Fun, "types", "DefaultGenesis") && gvar == "" {
					gvar = id.Name
					continue
				}
				return nil, fmt.Errorf("%s: ExportGenesis: unrecognised definition of %s", where, id.Name)
			}
			lhs, ok := s.Lhs[0].(*ast.SelectorExpr)
			if !ok || !isSel(lhs, gvar, lhs.Sel.Name) || gvar == "" {
				return nil, fmt.Errorf("%s: ExportGenesis: unrecognised assignment target", where)
			}
			call, ok := s.Rhs[0].(*ast.CallExpr)
			if !ok || len(call.Args) != 1 {
				return nil, fmt.Errorf("%s: ExportGenesis: %s.%s is not assigned from k.<Getter>(ctx)", where, gvar, lhs.Sel.Name)
			}
			fsel, ok := call.Fun.(*ast.SelectorExpr)
			if !ok || !isSel(fsel, "k", fsel.Sel.Name) {
				return nil, fmt.Errorf("%s: ExportGenesis: %s.%s is not assigned from a keeper getter", where, gvar, lhs.Sel.Name)
			}
			gd := decls[fsel.Sel.Name]
			if gd == nil {
				return nil, fmt.Errorf("%s: ExportGenesis: getter %s not found in the keeper package", where, fsel.Sel.Name)
			}
			ge, err := g.getterOf(kp, gd)
			if err != nil {
				return nil, err
			}
			ge.Field = lhs.Sel.Name
			out = append(out, ge)
		default:
			return nil, fmt.Errorf("%s: ExportGenesis: unrecognised statement", where)
		}
	}
	return out, nil
}

// getterOf analyses `func (k Keeper) GetAllX(ctx) (list []types.T)` / GetParams.
func (g *gkCtx) getterOf(p *packages.Package, fd *ast.FuncDecl) (gkGet, error) {
	info := p.TypesInfo
	ge := gkGet{Func: fd.Name.Name}
	where := gkPos(p, g.c, fd.Pos())
	if fd.Type.Results == nil || len(fd.Type.Results.List) != 1 {
		return ge, fmt.Errorf("%s: getter %s: expected exactly one result", where, fd.Name.Name)
	}
	rt := info.TypeOf(fd.Type.Results.List[0].Type)
	isParams := false
	ast.Inspect(fd.Body, func(n ast.Node) bool {
		if c, ok := n.(*ast.CallExpr); ok && (isSel(c.Fun, "", "GetParamSet") || isSel(c.Fun, "", "GetParamSetIfExists")) {
			isParams = true
		}
		return true
	})
	if isParams {
		ge.Prefix, ge.Read, ge.Type, ge.Direct = "(params)", gkNamed(rt), gkNamed(rt), true
		return ge, nil
	}
	sl, ok := rt.(*types.Slice)
	if !ok {
		return ge, fmt.Errorf("%s: getter %s: result is neither a slice nor a parameter set", where, fd.Name.Name)
	}
	ge.Type = gkNamed(sl.Elem())
	var resName string
	if len(fd.Type.Results.List[0].Names) == 1 {
		resName = fd.Type.Results.List[0].Names[0].Name
	}
	nstores := 0
	var readVar string
	appended := 0
	ge.Direct = true
	var ferr error
	ast.Inspect(fd.Body, func(n ast.Node) bool {
		switch s := n.(type) {
		case *ast.CallExpr:
			if isSel(s.Fun, "prefix", "NewStore") && len(s.Args) == 2 {
				nstores++
				pv, ok := constPrefix(info, s.Args[1])
				if !ok || !isModuleKVStore(s.Args[0]) {
					ferr = fmt.Errorf("%s: getter %s: store prefix is not a constant", gkPos(p, g.c, s.Pos()), fd.Name.Name)
					return false
				}
				ge.Prefix = pv
			}
			if (isSel(s.Fun, "", "MustUnmarshal") || isSel(s.Fun, "", "Unmarshal")) && len(s.Args) == 2 {
				if u, ok := s.Args[1].(*ast.UnaryExpr); ok && u.Op == token.AND {
					ge.Read = gkNamed(info.TypeOf(u.X))
					if id, ok := u.X.(*ast.Ident); ok {
						readVar = id.Name
					}
				}
			}
			if id, ok := s.Fun.(*ast.Ident); ok && id.Name == "append" && len(s.Args) == 2 {
				if a0, ok := s.Args[0].(*ast.Ident); ok && a0.Name == resName {
					appended++
					if a1, ok := s.Args[1].(*ast.Ident); !ok || a1.Name != readVar || readVar == "" {
						ge.Direct = false
					}
				}
			}
			// the iteration must cover the whole prefix
			if isSel(s.Fun, "sdk", "KVStorePrefixIterator") && len(s.Args) == 2 {
				whole := false
				if id, ok := s.Args[1].(*ast.Ident); ok && id.Name == "nil" {
					whole = true
				}
				if cl, ok := s.Args[1].(*ast.CompositeLit); ok && len(cl.Elts) == 0 {
					whole = true
				}
				if !whole {
					ge.Filtered = true
				}
			}
		case *ast.BranchStmt:
			if s.Tok == token.CONTINUE || s.Tok == token.BREAK {
				ge.Filtered = true
			}
		case *ast.IfStmt:
			// a conditional append is a filter as well
			ast.Inspect(s.Body, func(m ast.Node) bool {
				if c, ok := m.(*ast.CallExpr); ok {
					if id, ok := c.Fun.(*ast.Ident); ok && id.Name == "append" {
						ge.Filtered = true
					}
				}
				return true
			})
		}
		return ferr == nil
	})
	if ferr != nil {
		return ge, ferr
	}
	if nstores != 1 || ge.Read == "" || appended != 1 {
		return ge, fmt.Errorf("%s: getter %s: unrecognised shape (%d prefix stores, read type %q, %d appends to the result)", where, fd.Name.Name, nstores, ge.Read, appended)
	}
	if ge.Read != ge.Type {
		ge.Direct = false
	}
	return ge, nil
}

// ---------------------------------------------------------------- InitGenesis

func (g *gkCtx) importOf(gp, kp *packages.Package, fd *ast.FuncDecl, decls map[string]*ast.FuncDecl, own map[string][]gkWrite) ([]gkSet, error) {
	if fd.Type.Params == nil || len(fd.Type.Params.List) != 3 || len(fd.Type.Params.List[2].Names) != 1 {
		return nil, fmt.Errorf("%s: InitGenesis: unexpected signature", gkPos(gp, g.c, fd.Pos()))
	}
	gs := fd.Type.Params.List[2].Names[0].Name
	var out []gkSet
	setterCall := func(e ast.Expr, arg func(ast.Expr) bool) (string, bool) {
		call, ok := e.(*ast.CallExpr)
		if !ok || len(call.Args) != 2 || !arg(call.Args[1]) {
			return "", false
		}
		fsel, ok := call.Fun.(*ast.SelectorExpr)
		if !ok || !isSel(fsel, "k", fsel.Sel.Name) {
			return "", false
		}
		if id, ok := call.Args[0].(*ast.Ident); !ok || id.Name != "ctx" {
			return "", false
		}
		return fsel.Sel.Name, true
	}
	for _, st := range fd.Body.List {
		where := gkPos(gp, g.c, st.Pos())
		var field, fn string
		loop := false
		switch s := st.(type) {
		case *ast.RangeStmt:
			rx, ok := s.X.(*ast.SelectorExpr)
			if !ok || !isSel(rx, gs, rx.Sel.Name) {
				return nil, fmt.Errorf("%s: InitGenesis: loop does not range over a field of %s", where, gs)
			}
			v, ok := s.Value.(*ast.Ident)
			if !ok || len(s.Body.List) != 1 {
				return nil, fmt.Errorf("%s: InitGenesis: unrecognised loop body", where)
			}
			es, ok := s.Body.List[0].(*ast.ExprStmt)
			if !ok {
				return nil, fmt.Errorf("%s: InitGenesis: unrecognised loop body", where)
			}
			name, ok := setterCall(es.X, func(a ast.Expr) bool { id, ok := a.(*ast.Ident); return ok && id.Name == v.Name })
			if !ok {
				return nil, fmt.Errorf("%s: InitGenesis: loop body is not k.<Setter>(ctx, %s)", where, v.Name)
			}
			field, fn, loop = rx.Sel.Name, name, true
		case *ast.ExprStmt:
			var f string
			name, ok := setterCall(s.X, func(a ast.Expr) bool {
				sel, ok := a.(*ast.SelectorExpr)
				if ok && isSel(sel, gs, sel.Sel.Name) {
					f = sel.Sel.Name
					return true
				}
				return false
			})
			if !ok {
				return nil, fmt.Errorf("%s: InitGenesis: unrecognised statement", where)
			}
			field, fn = f, name
		default:
			return nil, fmt.Errorf("%s: InitGenesis: unrecognised statement", where)
		}
		if decls[fn] == nil {
			return nil, fmt.Errorf("%s: InitGenesis: setter %s not found in the keeper package", where, fn)
		}
		ts, err := g.targetsOf(kp, fn, decls, own, map[string]bool{})
		if err != nil {
			return nil, err
		}
		if len(ts) == 0 {
			return nil, fmt.Errorf("%s: InitGenesis: setter %s writes nothing recognisable", where, fn)
		}
		out = append(out, gkSet{Field: field, Func: fn, Loop: loop, Targets: ts})
	}
	return out, nil
}

// targetsOf: the writes of a keeper method and of the keeper methods it calls on k.
func (g *gkCtx) targetsOf(p *packages.Package, fn string, decls map[string]*ast.FuncDecl, own map[string][]gkWrite, seen map[string]bool) ([]gkWrite, error) {
	if seen[fn] {
		return nil, nil
	}
	seen[fn] = true
	out := append([]gkWrite{}, own[fn]...)
	fd := decls[fn]
	var ferr error
	ast.Inspect(fd.Body, func(n ast.Node) bool {
		call, ok := n.(*ast.CallExpr)
		if !ok {
			return true
		}
		if sel, ok := call.Fun.(*ast.SelectorExpr); ok && isSel(sel, "k", sel.Sel.Name) && decls[sel.Sel.Name] != nil {
			sub, err := g.targetsOf(p, sel.Sel.Name, decls, own, seen)
			if err != nil {
				ferr = err
				return false
			}
			out = append(out, sub...)
		}
		return true
	})
	return out, ferr
}
