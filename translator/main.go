package main

import (
	"fmt"

	"golang.org/x/tools/go/packages"
)

func main() {
	cfg := &packages.Config{Mode: packages.NeedName | packages.NeedFiles | packages.NeedSyntax | packages.NeedTypes | packages.NeedTypesInfo | packages.NeedImports, Dir: "/repo"}
	pkgs, err := packages.Load(cfg, "./x/...", "./wasmbinding/...", "./app")
	if err != nil {
		panic(err)
	}
	for _, p := range pkgs {
		fmt.Println(p.PkgPath, len(p.Syntax), len(p.Errors))
	}
}
