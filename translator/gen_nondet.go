package main

// Generator "nondet" (property C06): the inventory of every syntactic site in the
// consensus-reachable code of the custom modules that could make a state transition depend on
// something two nodes do not share (map iteration order, wall clock, process-local randomness,
// scheduling, environment, object addresses, hardware floating point), each with the enclosing
// function and a pattern class.  Emits Gen/NondetSites.v; Props/C06.v re-proves on every run that
// every site is benign.  `Other` is the default class: a site is benign only when one of the
// syntactic patterns below is recognised.
//
// Scope.  Every non-test Go file of ./x/..., ./wasmbinding/..., ./app is scanned.  Files that are
// not executed by the state machine are classed QueryOnly as a whole: keeper/grpc_query*.go,
// client/ (CLI, REST), simulation/, module_simulation.go, *.pb.gw.go, testutil/, test_*.go helpers,
// app/export.go, and the node-wiring functions of app/app.go listed in ndWiringFuncs.  A function
// declared in a grpc_query*/test_* file that is referenced (transitively) from consensus code is
// NOT QueryOnly.
//
// Site kinds and the patterns recognised (everything else is Other):
//  KMapRange   `for … range m` with m of map type (also through a pointer dereference)
//                MapKeysThenSort: the body only stores key/value into a local slice (s[i]=k; i++ or
//                  s = append(s, k)) and the first later statement of the enclosing block that mentions
//                  the slice is slices.Sort(s) / sort.Strings(s) / sort.Ints(s) / sort.Float64s(s)
//                MapCommutative: the body consists only of integer `x op= pure`, `x++/--`,
//                  `m2[k] = pure` (k the loop key, m2 another map), `delete(m2,k)`, `continue`, and
//                  `if pure {…}` of the same; pure = no calls but conversions/len/cap, no reads of
//                  anything the body writes
//  KMapKeys    maps.Keys/Values(m) (x/exp or std): MapKeysThenSort with the same follow-up rule
//  KTime       time.Now/Since/Until, telemetry.Now: TelemetryOnly when (inside) an argument of a
//                result-less telemetry.* call, or assigned to a local whose every use is such an argument
//  KRng        package-level functions of math/rand, math/rand/v2, crypto/rand, tendermint libs/rand:
//                SeededFromBlock for a constructor whose result goes to a local that is re-seeded with
//                block data (`r.Seed(e)`) before any other use, for rand.NewSource(e)/rand.New(NewSource(e))
//                and for the global Seed(e), e built only from ctx.BlockHeight()/BlockTime()/BlockHeader()/
//                BlockGasMeter()… , constants and integer arithmetic
//  KGo, KSelect  `go` statements, `select` statements
//  KEnv        os.Getenv/LookupEnv/Environ/ExpandEnv/Hostname/Getpid/Getppid/Getuid/Geteuid/Getgid/Getwd/
//                UserHomeDir/Executable/Args, runtime.NumCPU/NumGoroutine/GOMAXPROCS/NumCgoCall
//  KReflectMap reflect.Value.MapKeys / MapRange
//  KFmtMap     a map-typed value (or struct/pointer holding a map field) passed as interface{} argument
//                to any function other than encoding/json (fmt.Sprint*, Errorf, Wrapf, loggers, yaml, …)
//  KJsonMap    the same passed to encoding/json Marshal/MarshalIndent/Encoder.Encode: JsonMarshalSorted
//  KFloat      non-constant float32/float64 arithmetic, conversions to/from float, math.* calls,
//                strconv.ParseFloat: TelemetryOnly inside an argument of a result-less telemetry.* call
//  KUnsafe     any use of package unsafe, reflect.Value.Pointer/UnsafeAddr, a "%p" verb in a string literal

import (
	"crypto/sha1"
	"fmt"
	"go/ast"
	"go/constant"
	"go/token"
	"go/types"
	"os"
	"path/filepath"
	"sort"
	"strings"

	"golang.org/x/tools/go/packages"
)

func init() { generators["nondet"] = genNondet }

type ndSite struct {
	file  string
	line  int
	fn    string
	kind  string
	class string
}

// node-wiring functions of app/app.go (run once at process start or serve the API; never inside a block)
var ndWiringFuncs = map[string]bool{
	"NewJackalApp": true, "JackalApp.RegisterAPIRoutes": true, "JackalApp.RegisterTxService": true,
	"JackalApp.RegisterTendermintService": true, "RegisterSwaggerAPI": true, "GetWasmOpts": true,
	"JackalApp.SimulationManager": true, "JackalApp.LoadHeight": true,
	"<var DefaultNodeHome>": true, // home directory of the node process
}

func ndFileQueryOnly(rel string) bool {
	base := filepath.Base(rel)
	switch {
	case strings.HasPrefix(base, "grpc_query"),
		strings.Contains(rel, "/client/"),
		strings.Contains(rel, "/simulation/"),
		base == "module_simulation.go",
		strings.HasSuffix(base, ".pb.gw.go"),
		base == "query.pb.go", // gRPC query request/response types: never stored, never part of a tx result
		strings.Contains(rel, "/testutil/"),
		strings.HasPrefix(base, "test_"),
		rel == "app/export.go":
		return true
	}
	return false
}

// files whose functions become consensus code when consensus code refers to them
func ndPromotable(rel string) bool {
	base := filepath.Base(rel)
	return strings.HasPrefix(base, "grpc_query") || strings.HasPrefix(base, "test_") || base == "query.pb.go"
}

type ndScan struct {
	c     *Ctx
	pkg   *packages.Package
	info  *types.Info
	fset  *token.FileSet
	rel   string
	fn    string         // enclosing function name
	body  *ast.BlockStmt // enclosing function body (nil at package level)
	query bool           // the enclosing function is not consensus code
	stack []ast.Node
	out   *[]ndSite
}

func (s *ndScan) add(n ast.Node, kind, class string) {
	if s.query {
		class = "QueryOnly"
	}
	*s.out = append(*s.out, ndSite{s.rel, s.fset.Position(n.Pos()).Line, s.fn, kind, class})
}

func ndFuncName(fd *ast.FuncDecl) string {
	if fd.Recv != nil && len(fd.Recv.List) > 0 {
		t := fd.Recv.List[0].Type
		for {
			switch x := t.(type) {
			case *ast.StarExpr:
				t = x.X
				continue
			case *ast.IndexExpr:
				t = x.X
				continue
			case *ast.ParenExpr:
				t = x.X
				continue
			}
			break
		}
		if id, ok := t.(*ast.Ident); ok {
			return id.Name + "." + fd.Name.Name
		}
	}
	return fd.Name.Name
}

func genNondet(c *Ctx) (string, string, error) {
	var sites []ndSite
	type fdecl struct {
		pkg *packages.Package
		fd  *ast.FuncDecl
		rel string
	}
	declOf := map[types.Object]*fdecl{}
	var decls []*fdecl
	nfiles := 0
	scopeSeen := map[string]int{}
	for _, p := range c.Pkgs {
		for _, f := range p.Syntax {
			rel := filepath.ToSlash(c.Rel(p.Fset.Position(f.Pos()).Filename))
			if strings.HasSuffix(rel, "_test.go") {
				continue
			}
			nfiles++
			switch {
			case strings.HasPrefix(rel, "x/") && strings.Contains(rel, "/keeper/"):
				scopeSeen["keeper"]++
			case strings.HasPrefix(rel, "x/") && strings.Contains(rel, "/types/"):
				scopeSeen["types"]++
			case strings.HasPrefix(rel, "x/") && (strings.HasSuffix(rel, "/abci.go") || strings.HasSuffix(rel, "/genesis.go") || strings.HasSuffix(rel, "/module.go")):
				scopeSeen["module"]++
			case strings.HasPrefix(rel, "wasmbinding/"):
				scopeSeen["wasmbinding"]++
			case strings.HasPrefix(rel, "app/"):
				scopeSeen["app"]++
			}
			for _, d := range f.Decls {
				if fd, ok := d.(*ast.FuncDecl); ok {
					x := &fdecl{p, fd, rel}
					decls = append(decls, x)
					if o := p.TypesInfo.Defs[fd.Name]; o != nil {
						declOf[o] = x
					}
				}
			}
		}
	}
	for _, k := range []string{"keeper", "types", "module", "wasmbinding", "app"} {
		if scopeSeen[k] == 0 {
			return "", "", fmt.Errorf("no source file of scope %q found under %s (expected x/*/keeper, x/*/types, x/*/{abci,genesis,module}.go, wasmbinding, app)", k, c.Repo)
		}
	}
	for _, must := range []string{"github.com/jackalLabs/canine-chain/v4/x/storage/keeper", "github.com/jackalLabs/canine-chain/v4/x/filetree/keeper", "github.com/jackalLabs/canine-chain/v4/app"} {
		found := false
		for id := range c.ByID {
			if id == must || strings.HasSuffix(id, strings.TrimPrefix(must, "github.com/jackalLabs/canine-chain/v4")) {
				found = true
			}
		}
		if !found {
			return "", "", fmt.Errorf("package %s not loaded", must)
		}
	}

	// promotion: functions of grpc_query*/test_* files referenced from consensus code are consensus code
	isQueryDecl := func(d *fdecl) bool {
		if ndFileQueryOnly(d.rel) {
			return true
		}
		return d.rel == "app/app.go" && ndWiringFuncs[ndFuncName(d.fd)]
	}
	promoted := map[*fdecl]bool{}
	var work []*fdecl
	for _, d := range decls {
		if !isQueryDecl(d) {
			work = append(work, d)
		}
	}
	visited := map[*fdecl]bool{}
	for len(work) > 0 {
		d := work[len(work)-1]
		work = work[:len(work)-1]
		if visited[d] || d.fd.Body == nil {
			continue
		}
		visited[d] = true
		ast.Inspect(d.fd.Body, func(n ast.Node) bool {
			id, ok := n.(*ast.Ident)
			if !ok {
				return true
			}
			if o, ok := d.pkg.TypesInfo.Uses[id].(*types.Func); ok {
				if t := declOf[o]; t != nil && isQueryDecl(t) && ndPromotable(t.rel) && !promoted[t] {
					promoted[t] = true
					work = append(work, t)
				}
			}
			return true
		})
	}

	fileHash := map[string]string{}
	for _, p := range c.Pkgs {
		for _, f := range p.Syntax {
			fn := p.Fset.Position(f.Pos()).Filename
			rel := filepath.ToSlash(c.Rel(fn))
			if strings.HasSuffix(rel, "_test.go") {
				continue
			}
			if b, err := os.ReadFile(fn); err == nil {
				h := sha1.New()
				fmt.Fprintf(h, "blob %d\x00", len(b))
				h.Write(b)
				fileHash[rel] = fmt.Sprintf("%x", h.Sum(nil))
			} else {
				return "", "", err
			}
			for _, d := range f.Decls {
				s := &ndScan{c: c, pkg: p, info: p.TypesInfo, fset: p.Fset, rel: rel, out: &sites}
				switch x := d.(type) {
				case *ast.FuncDecl:
					s.fn = ndFuncName(x)
					s.body = x.Body
					dd := declOf[p.TypesInfo.Defs[x.Name]]
					s.query = dd != nil && isQueryDecl(dd) && !promoted[dd]
					if dd == nil {
						s.query = ndFileQueryOnly(rel)
					}
					if x.Body != nil {
						s.walk(x.Body)
					}
				case *ast.GenDecl:
					for _, sp := range x.Specs {
						s.fn = "<package-level>"
						if vs, ok := sp.(*ast.ValueSpec); ok && len(vs.Names) > 0 {
							s.fn = "<var " + vs.Names[0].Name + ">"
						}
						s.query = ndFileQueryOnly(rel) || (rel == "app/app.go" && ndWiringFuncs[s.fn])
						s.stack = nil
						s.walk(sp)
					}
				}
			}
		}
	}
	if len(sites) == 0 {
		return "", "", fmt.Errorf("no site found at all in %d files: the scan is broken", nfiles)
	}

	// one site per (file, line, func, kind); the worst class wins
	type key struct {
		file string
		line int
		fn   string
		kind string
	}
	merged := map[key]string{}
	for _, s := range sites {
		k := key{s.file, s.line, s.fn, s.kind}
		if old, ok := merged[k]; !ok || (old != "Other" && s.class == "Other") {
			merged[k] = s.class
		}
	}
	var keys []key
	for k := range merged {
		keys = append(keys, k)
	}
	sort.Slice(keys, func(i, j int) bool {
		a, b := keys[i], keys[j]
		if a.file != b.file {
			return a.file < b.file
		}
		if a.line != b.line {
			return a.line < b.line
		}
		if a.kind != b.kind {
			return a.kind < b.kind
		}
		return a.fn < b.fn
	})

	var b strings.Builder
	b.WriteString("(* Inventory of the sites at which consensus-reachable code of the custom modules consults something\n")
	b.WriteString("   nodes do not share (see translator/gen_nondet.go for kinds, classes and the recognised patterns).\n")
	fmt.Fprintf(&b, "   %d files scanned; files with at least one site (git blob hash):\n", nfiles)
	seenFile := map[string]bool{}
	for _, k := range keys {
		if !seenFile[k.file] {
			seenFile[k.file] = true
			fmt.Fprintf(&b, "     %s %s\n", k.file, fileHash[k.file])
		}
	}
	b.WriteString("*)\n")
	b.WriteString("From Coq Require Import String NArith List.\nFrom JK Require Import Model.Nondet.\nImport ListNotations.\nOpen Scope string_scope.\nOpen Scope N_scope.\n\n")
	fmt.Fprintf(&b, "Definition nondet_files_scanned : N := %d.\n\n", nfiles)
	b.WriteString("Definition nondet_sites : list site := [\n")
	counts := map[string]int{}
	for i, k := range keys {
		cl := merged[k]
		counts[cl]++
		fmt.Fprintf(&b, "  {| s_file := %s; s_line := %d; s_func := %s; s_kind := %s; s_class := %s |}", CoqString(k.file), k.line, CoqString(k.fn), k.kind, cl)
		if i+1 < len(keys) {
			b.WriteString(";")
		}
		b.WriteString("\n")
	}
	b.WriteString("].\n\n(* class counts: ")
	var cls []string
	for cl := range counts {
		cls = append(cls, cl)
	}
	sort.Strings(cls)
	for _, cl := range cls {
		fmt.Fprintf(&b, "%s=%d ", cl, counts[cl])
	}
	b.WriteString("*)\n")
	return "NondetSites.v", b.String(), nil
}

// ---------------------------------------------------------------- traversal

func (s *ndScan) walk(root ast.Node) {
	ast.Inspect(root, func(n ast.Node) bool {
		if n == nil {
			s.stack = s.stack[:len(s.stack)-1]
			return false
		}
		s.visit(n)
		s.stack = append(s.stack, n)
		return true
	})
}

func (s *ndScan) parent(i int) ast.Node {
	if len(s.stack)-1-i >= 0 {
		return s.stack[len(s.stack)-1-i]
	}
	return nil
}

func ndPkgPath(o types.Object) string {
	if o == nil || o.Pkg() == nil {
		return ""
	}
	return o.Pkg().Path()
}

func ndIsRandPkg(p string) bool {
	return p == "math/rand" || p == "math/rand/v2" || p == "crypto/rand" || strings.HasSuffix(p, "/libs/rand")
}

func ndIsTelemetryPkg(p string) bool { return strings.HasSuffix(p, "cosmos-sdk/telemetry") }

var ndEnvFuncs = map[string]bool{
	"os.Getenv": true, "os.LookupEnv": true, "os.Environ": true, "os.ExpandEnv": true, "os.Hostname": true,
	"os.Getpid": true, "os.Getppid": true, "os.Getuid": true, "os.Geteuid": true, "os.Getgid": true, "os.Getwd": true,
	"os.UserHomeDir": true, "os.Executable": true, "os.Args": true,
	"runtime.NumCPU": true, "runtime.NumGoroutine": true, "runtime.GOMAXPROCS": true, "runtime.NumCgoCall": true,
}

// callee returns the function object a call expression invokes (nil for conversions, closures, …).
func (s *ndScan) callee(call *ast.CallExpr) *types.Func {
	var id *ast.Ident
	switch f := ast.Unparen(call.Fun).(type) {
	case *ast.Ident:
		id = f
	case *ast.SelectorExpr:
		id = f.Sel
	case *ast.IndexExpr: // generic instantiation f[T](…)
		switch g := ast.Unparen(f.X).(type) {
		case *ast.Ident:
			id = g
		case *ast.SelectorExpr:
			id = g.Sel
		}
	}
	if id == nil {
		return nil
	}
	fn, _ := s.info.Uses[id].(*types.Func)
	return fn
}

func (s *ndScan) isConversion(call *ast.CallExpr) bool {
	tv, ok := s.info.Types[call.Fun]
	return ok && tv.IsType()
}

func (s *ndScan) isConst(e ast.Expr) bool {
	tv, ok := s.info.Types[e]
	return ok && tv.Value != nil
}

func ndIsFloat(t types.Type) bool {
	if t == nil {
		return false
	}
	b, ok := t.Underlying().(*types.Basic)
	return ok && b.Info()&types.IsFloat != 0
}

func ndIsInteger(t types.Type) bool {
	if t == nil {
		return false
	}
	b, ok := t.Underlying().(*types.Basic)
	return ok && b.Info()&types.IsInteger != 0
}

func ndIsMap(t types.Type) bool {
	if t == nil {
		return false
	}
	_, ok := t.Underlying().(*types.Map)
	return ok
}

func ndStructWithMapField(t types.Type) bool {
	if p, ok := t.Underlying().(*types.Pointer); ok {
		t = p.Elem()
	}
	st, ok := t.Underlying().(*types.Struct)
	if !ok {
		return false
	}
	for i := 0; i < st.NumFields(); i++ {
		if ndIsMap(st.Field(i).Type()) {
			return true
		}
	}
	return false
}

// holdsMap: a map, or pointer/struct (two levels) holding a map field
func ndHoldsMap(t types.Type, depth int) bool {
	if t == nil || depth > 3 {
		return false
	}
	switch u := t.Underlying().(type) {
	case *types.Map:
		return true
	case *types.Pointer:
		return ndHoldsMap(u.Elem(), depth+1)
	case *types.Struct:
		for i := 0; i < u.NumFields(); i++ {
			if ndHoldsMap(u.Field(i).Type(), depth+1) {
				return true
			}
		}
	case *types.Slice:
		return ndHoldsMap(u.Elem(), depth+1)
	}
	return false
}

// inTelemetryArg: is the current node (about to be pushed) inside an argument of a result-less
// telemetry.* call, within the same statement?
func (s *ndScan) inTelemetryArg() bool {
	for i := len(s.stack) - 1; i >= 0; i-- {
		switch x := s.stack[i].(type) {
		case *ast.CallExpr:
			if fn := s.callee(x); fn != nil && ndIsTelemetryPkg(ndPkgPath(fn)) {
				if sig, ok := fn.Type().(*types.Signature); ok && sig.Results().Len() == 0 && fn.Name() != "Now" {
					// the node must sit in the arguments, not be the callee
					if i+1 < len(s.stack) && s.stack[i+1] == x.Fun {
						return false
					}
					return true
				}
			}
		case *ast.FuncLit, *ast.BlockStmt:
			return false
		}
	}
	return false
}

func (s *ndScan) visit(n ast.Node) {
	switch x := n.(type) {
	case *ast.GoStmt:
		s.add(x, "KGo", "Other")
	case *ast.SelectStmt:
		s.add(x, "KSelect", "Other")
	case *ast.RangeStmt:
		if tv, ok := s.info.Types[x.X]; ok && ndIsMap(tv.Type) {
			s.add(x, "KMapRange", s.classifyMapRange(x))
		}
	case *ast.BasicLit:
		if x.Kind == token.STRING && strings.Contains(strings.ReplaceAll(x.Value, "%%", ""), "%p") {
			s.add(x, "KUnsafe", "Other")
		}
	case *ast.Ident:
		s.visitIdent(x)
	case *ast.CallExpr:
		s.visitCall(x)
	case *ast.BinaryExpr:
		switch x.Op {
		case token.ADD, token.SUB, token.MUL, token.QUO:
			if tv, ok := s.info.Types[x]; ok && tv.Value == nil && ndIsFloat(tv.Type) {
				s.floatSite(x)
			}
		}
	case *ast.UnaryExpr:
		if x.Op == token.SUB {
			if tv, ok := s.info.Types[x]; ok && tv.Value == nil && ndIsFloat(tv.Type) {
				s.floatSite(x)
			}
		}
	case *ast.AssignStmt:
		switch x.Tok {
		case token.ADD_ASSIGN, token.SUB_ASSIGN, token.MUL_ASSIGN, token.QUO_ASSIGN:
			if len(x.Lhs) == 1 && ndIsFloat(s.info.TypeOf(x.Lhs[0])) {
				s.floatSite(x)
			}
		}
	case *ast.IncDecStmt:
		if ndIsFloat(s.info.TypeOf(x.X)) {
			s.floatSite(x)
		}
	}
}

func (s *ndScan) floatSite(n ast.Node) {
	if s.inTelemetryArg() {
		s.add(n, "KFloat", "TelemetryOnly")
	} else {
		s.add(n, "KFloat", "Other")
	}
}

// visitIdent handles every *use* of a package-level object of the watched packages (a call, but also
// a function value such as `f := time.Now`).
func (s *ndScan) visitIdent(id *ast.Ident) {
	o := s.info.Uses[id]
	if o == nil {
		return
	}
	pp := ndPkgPath(o)
	if pp == "" {
		return
	}
	// package-level only (methods have a receiver)
	if fn, ok := o.(*types.Func); ok {
		if sig, ok := fn.Type().(*types.Signature); ok && sig.Recv() != nil {
			s.visitMethodUse(id, fn)
			return
		}
	}
	if o.Parent() != o.Pkg().Scope() {
		return
	}
	q := o.Pkg().Name() + "." + o.Name()
	switch {
	case pp == "unsafe":
		s.add(id, "KUnsafe", "Other")
	case pp == "time" && (o.Name() == "Now" || o.Name() == "Since" || o.Name() == "Until"),
		ndIsTelemetryPkg(pp) && o.Name() == "Now":
		s.add(id, "KTime", s.classifyTime(id))
	case (pp == "os" || pp == "runtime") && ndEnvFuncs[q]:
		s.add(id, "KEnv", "Other")
	case ndIsRandPkg(pp):
		if _, isFunc := o.(*types.Func); isFunc {
			s.add(id, "KRng", s.classifyRng(id, o.(*types.Func)))
		} else if _, isVar := o.(*types.Var); isVar {
			s.add(id, "KRng", "Other") // e.g. crypto/rand.Reader
		}
	case pp == "math":
		if fn, ok := o.(*types.Func); ok {
			if call, _ := s.enclosingCallOf(id); call != nil { // `var _ = math.Inf` in generated code is not a computation
				if sig := fn.Type().(*types.Signature); sig.Results().Len() > 0 && ndIsFloat(sig.Results().At(0).Type()) {
					s.floatSite(id)
				}
			}
		}
	case pp == "strconv" && (o.Name() == "ParseFloat" || o.Name() == "FormatFloat"):
		s.floatSite(id)
	case (pp == "maps" || strings.HasSuffix(pp, "x/exp/maps")) && (o.Name() == "Keys" || o.Name() == "Values"):
		s.add(id, "KMapKeys", s.classifyMapKeysCall(id))
	}
}

func (s *ndScan) visitMethodUse(id *ast.Ident, fn *types.Func) {
	sig := fn.Type().(*types.Signature)
	rt := sig.Recv().Type()
	if p, ok := rt.(*types.Pointer); ok {
		rt = p.Elem()
	}
	named, ok := rt.(*types.Named)
	if !ok || named.Obj().Pkg() == nil {
		return
	}
	if named.Obj().Pkg().Path() == "reflect" && named.Obj().Name() == "Value" {
		switch fn.Name() {
		case "MapKeys", "MapRange":
			s.add(id, "KReflectMap", "Other")
		case "Pointer", "UnsafeAddr", "UnsafePointer":
			s.add(id, "KUnsafe", "Other")
		}
	}
}

// enclosingCallOf returns the call expression of which id (possibly as pkg.id) is the callee.
func (s *ndScan) enclosingCallOf(id *ast.Ident) (*ast.CallExpr, int) {
	i := 0
	var fun ast.Node = id
	if sel, ok := s.parent(0).(*ast.SelectorExpr); ok && sel.Sel == id {
		fun = sel
		i = 1
	}
	for {
		if p, ok := s.parent(i).(*ast.ParenExpr); ok {
			fun = p
			i++
			continue
		}
		break
	}
	if call, ok := s.parent(i).(*ast.CallExpr); ok && call.Fun == fun {
		return call, i
	}
	return nil, 0
}

// ---------------------------------------------------------------- time

func (s *ndScan) classifyTime(id *ast.Ident) string {
	call, depth := s.enclosingCallOf(id)
	if call == nil {
		return "Other" // function value
	}
	// temporarily view the stack as ending at the call's parent
	callIdx := len(s.stack) - 1 - depth
	saved := s.stack
	s.stack = s.stack[:callIdx]
	inTel := s.inTelemetryArg()
	s.stack = saved
	if inTel {
		return "TelemetryOnly"
	}
	// x := time.Now() ; every use of x is (inside) an argument of a result-less telemetry call
	if callIdx < 1 {
		return "Other"
	}
	var lhs *ast.Ident
	switch p := s.stack[callIdx-1].(type) {
	case *ast.AssignStmt:
		if len(p.Lhs) == 1 && len(p.Rhs) == 1 && p.Rhs[0] == ast.Expr(call) {
			lhs, _ = p.Lhs[0].(*ast.Ident)
		}
	case *ast.ValueSpec:
		if len(p.Names) == 1 && len(p.Values) == 1 && p.Values[0] == ast.Expr(call) {
			lhs = p.Names[0]
		}
	}
	if lhs == nil || s.body == nil {
		return "Other"
	}
	obj := s.info.ObjectOf(lhs)
	if v, ok := obj.(*types.Var); !ok || v.IsField() || obj.Parent() == obj.Pkg().Scope() {
		return "Other"
	}
	if !s.singleAssignment(obj) {
		return "Other"
	}
	uses, ok := 0, true
	sub := &ndScan{c: s.c, pkg: s.pkg, info: s.info, fset: s.fset, rel: s.rel, fn: s.fn, body: s.body, out: &[]ndSite{}}
	ast.Inspect(s.body, func(n ast.Node) bool {
		if n == nil {
			sub.stack = sub.stack[:len(sub.stack)-1]
			return false
		}
		if u, isId := n.(*ast.Ident); isId && s.info.Uses[u] == obj {
			uses++
			if !sub.inTelemetryArg() {
				ok = false
			}
		}
		sub.stack = append(sub.stack, n)
		return true
	})
	if ok && uses > 0 {
		return "TelemetryOnly"
	}
	return "Other"
}

// singleAssignment: obj is written exactly once in the enclosing function and its address is never taken.
func (s *ndScan) singleAssignment(obj types.Object) bool {
	writes, addr := 0, false
	ast.Inspect(s.body, func(n ast.Node) bool {
		switch x := n.(type) {
		case *ast.AssignStmt:
			for _, l := range x.Lhs {
				if id, ok := l.(*ast.Ident); ok && s.info.ObjectOf(id) == obj {
					writes++
				}
			}
		case *ast.ValueSpec:
			for _, id := range x.Names {
				if s.info.ObjectOf(id) == obj {
					writes++
				}
			}
		case *ast.IncDecStmt:
			if id, ok := x.X.(*ast.Ident); ok && s.info.ObjectOf(id) == obj {
				writes++
			}
		case *ast.UnaryExpr:
			if x.Op == token.AND {
				if id, ok := ast.Unparen(x.X).(*ast.Ident); ok && s.info.ObjectOf(id) == obj {
					addr = true
				}
			}
		}
		return true
	})
	return writes == 1 && !addr
}

// ---------------------------------------------------------------- map ranges

func (s *ndScan) mentions(n ast.Node, obj types.Object) bool {
	found := false
	ast.Inspect(n, func(m ast.Node) bool {
		if id, ok := m.(*ast.Ident); ok && (s.info.Uses[id] == obj || s.info.Defs[id] == obj) {
			found = true
		}
		return !found
	})
	return found
}

func (s *ndScan) localVar(e ast.Expr) types.Object {
	id, ok := ast.Unparen(e).(*ast.Ident)
	if !ok {
		return nil
	}
	obj := s.info.ObjectOf(id)
	v, ok := obj.(*types.Var)
	if !ok || v.IsField() || obj.Pkg() == nil || obj.Parent() == obj.Pkg().Scope() {
		return nil
	}
	return obj
}

// sortedNext: among the statements that follow stmt in its enclosing block, the first that mentions
// slice is a total-order sort of it.
func (s *ndScan) sortedNext(stmt ast.Stmt, enclosing ast.Node, slice types.Object) bool {
	blk, ok := enclosing.(*ast.BlockStmt)
	if !ok {
		return false
	}
	idx := -1
	for i, st := range blk.List {
		if st == stmt {
			idx = i
		}
	}
	if idx < 0 {
		return false
	}
	for _, st := range blk.List[idx+1:] {
		if !s.mentions(st, slice) {
			continue
		}
		es, ok := st.(*ast.ExprStmt)
		if !ok {
			return false
		}
		call, ok := es.X.(*ast.CallExpr)
		if !ok || len(call.Args) != 1 {
			return false
		}
		fn := s.callee(call)
		if fn == nil {
			return false
		}
		q := ndPkgPath(fn) + "." + fn.Name()
		switch q {
		case "slices.Sort", "sort.Strings", "sort.Ints", "sort.Float64s", "golang.org/x/exp/slices.Sort":
			return s.localVar(call.Args[0]) == slice
		}
		return false
	}
	return false
}

func (s *ndScan) classifyMapRange(rs *ast.RangeStmt) string {
	if s.commutativeBody(rs) {
		return "MapCommutative"
	}
	if s.collectBody(rs) {
		return "MapKeysThenSort"
	}
	return "Other"
}

// collectBody: the body only stores the loop key/value into ONE local slice, which is sorted before use.
func (s *ndScan) collectBody(rs *ast.RangeStmt) bool {
	var kObj, vObj types.Object
	if id, ok := rs.Key.(*ast.Ident); ok && id.Name != "_" {
		kObj = s.info.ObjectOf(id)
	}
	if id, ok := rs.Value.(*ast.Ident); ok && id.Name != "_" {
		vObj = s.info.ObjectOf(id)
	}
	isLoopVar := func(e ast.Expr) bool {
		id, ok := ast.Unparen(e).(*ast.Ident)
		if !ok {
			return false
		}
		o := s.info.ObjectOf(id)
		return o != nil && (o == kObj || o == vObj)
	}
	var slice types.Object
	setSlice := func(o types.Object) bool {
		if o == nil {
			return false
		}
		if slice == nil {
			slice = o
		}
		return slice == o
	}
	var idxVar types.Object
	if len(rs.Body.List) == 0 {
		return false
	}
	for _, st := range rs.Body.List {
		switch x := st.(type) {
		case *ast.AssignStmt:
			if s.blankAssign(x) {
				continue
			}
			if x.Tok != token.ASSIGN || len(x.Lhs) != 1 || len(x.Rhs) != 1 {
				return false
			}
			switch l := x.Lhs[0].(type) {
			case *ast.IndexExpr: // s[i] = k
				if _, isSlice := s.info.TypeOf(l.X).Underlying().(*types.Slice); !isSlice {
					return false
				}
				iv := s.localVar(l.Index)
				if iv == nil || !ndIsInteger(iv.Type()) || !isLoopVar(x.Rhs[0]) || !setSlice(s.localVar(l.X)) {
					return false
				}
				if idxVar != nil && idxVar != iv {
					return false
				}
				idxVar = iv
			case *ast.Ident: // s = append(s, k)
				call, ok := x.Rhs[0].(*ast.CallExpr)
				if !ok || len(call.Args) != 2 || call.Ellipsis.IsValid() {
					return false
				}
				if b, ok := s.info.Uses[identOf(call.Fun)].(*types.Builtin); !ok || b.Name() != "append" {
					return false
				}
				so := s.localVar(l)
				if so == nil || s.localVar(call.Args[0]) != so || !isLoopVar(call.Args[1]) || !setSlice(so) {
					return false
				}
			default:
				return false
			}
		case *ast.IncDecStmt: // i++
			iv := s.localVar(x.X)
			if x.Tok != token.INC || iv == nil || (idxVar != nil && iv != idxVar) {
				return false
			}
			idxVar = iv
		default:
			return false
		}
	}
	if slice == nil {
		return false
	}
	return s.sortedNext(rs, s.parent(0), slice)
}

// blankAssign: `_ = e` / `_, _ = a, b` with call-free right-hand sides (a no-op)
func (s *ndScan) blankAssign(x *ast.AssignStmt) bool {
	if x.Tok != token.ASSIGN || len(x.Lhs) != len(x.Rhs) {
		return false
	}
	for _, l := range x.Lhs {
		if id, ok := l.(*ast.Ident); !ok || id.Name != "_" {
			return false
		}
	}
	for _, r := range x.Rhs {
		if !s.pureExpr(r, map[types.Object]bool{}) {
			return false
		}
	}
	return true
}

func identOf(e ast.Expr) *ast.Ident {
	id, _ := ast.Unparen(e).(*ast.Ident)
	return id
}

func (s *ndScan) classifyMapKeysCall(id *ast.Ident) string {
	call, depth := s.enclosingCallOf(id)
	if call == nil {
		return "Other"
	}
	callIdx := len(s.stack) - 1 - depth
	if callIdx < 2 {
		return "Other"
	}
	st, ok := s.stack[callIdx-1].(*ast.AssignStmt)
	if !ok || len(st.Lhs) != 1 || len(st.Rhs) != 1 || st.Rhs[0] != ast.Expr(call) {
		return "Other"
	}
	so := s.localVar(st.Lhs[0])
	if so == nil {
		return "Other"
	}
	if s.sortedNext(st, s.stack[callIdx-2], so) {
		return "MapKeysThenSort"
	}
	return "Other"
}

// commutativeBody: an order-independent accumulation (see the file comment).
func (s *ndScan) commutativeBody(rs *ast.RangeStmt) bool {
	var kObj types.Object
	if id, ok := rs.Key.(*ast.Ident); ok && id.Name != "_" {
		kObj = s.info.ObjectOf(id)
	}
	ranged := s.rootObj(rs.X)
	// objects written by the body
	written := map[types.Object]bool{}
	okShape := true
	var collect func(list []ast.Stmt)
	collect = func(list []ast.Stmt) {
		for _, st := range list {
			switch x := st.(type) {
			case *ast.AssignStmt:
				if s.blankAssign(x) {
					continue
				}
				for _, l := range x.Lhs {
					if o := s.rootObj(l); o != nil {
						written[o] = true
					} else {
						okShape = false
					}
				}
			case *ast.IncDecStmt:
				if o := s.rootObj(x.X); o != nil {
					written[o] = true
				} else {
					okShape = false
				}
			case *ast.ExprStmt:
				if call, ok := x.X.(*ast.CallExpr); ok {
					if b, ok := s.info.Uses[identOf(call.Fun)].(*types.Builtin); ok && b.Name() == "delete" && len(call.Args) == 2 {
						if o := s.rootObj(call.Args[0]); o != nil {
							written[o] = true
							continue
						}
					}
				}
				okShape = false
			case *ast.IfStmt:
				if x.Init != nil {
					okShape = false
				}
				collect(x.Body.List)
				switch e := x.Else.(type) {
				case nil:
				case *ast.BlockStmt:
					collect(e.List)
				case *ast.IfStmt:
					collect([]ast.Stmt{e})
				default:
					okShape = false
				}
			case *ast.BranchStmt:
				if x.Tok != token.CONTINUE || x.Label != nil {
					okShape = false
				}
			default:
				okShape = false
			}
		}
	}
	collect(rs.Body.List)
	if !okShape {
		return false
	}
	pure := func(e ast.Expr) bool { return s.pureExpr(e, written) }
	isKey := func(e ast.Expr) bool {
		id := identOf(e)
		return id != nil && kObj != nil && s.info.ObjectOf(id) == kObj
	}
	var check func(list []ast.Stmt) bool
	check = func(list []ast.Stmt) bool {
		for _, st := range list {
			switch x := st.(type) {
			case *ast.IncDecStmt:
				if !ndIsInteger(s.info.TypeOf(x.X)) || !s.pureLhs(x.X, written) {
					return false
				}
			case *ast.AssignStmt:
				if s.blankAssign(x) {
					continue
				}
				if len(x.Lhs) != 1 || len(x.Rhs) != 1 {
					return false
				}
				switch x.Tok {
				case token.ADD_ASSIGN, token.SUB_ASSIGN, token.MUL_ASSIGN, token.OR_ASSIGN, token.AND_ASSIGN, token.XOR_ASSIGN:
					if !ndIsInteger(s.info.TypeOf(x.Lhs[0])) || !s.pureLhs(x.Lhs[0], written) || !pure(x.Rhs[0]) {
						return false
					}
				case token.ASSIGN: // m2[k] = pure, k the loop key, m2 another map; or m2[f(k)] = constant (set membership)
					ix, ok := x.Lhs[0].(*ast.IndexExpr)
					if !ok || !ndIsMap(s.info.TypeOf(ix.X)) {
						return false
					}
					switch {
					case isKey(ix.Index) && pure(x.Rhs[0]):
					case s.isConst(x.Rhs[0]) && s.valueOnlyExpr(ix.Index, written):
					default:
						return false
					}
					if o := s.rootObj(ix.X); o == nil || o == ranged {
						return false
					}
				default:
					return false
				}
			case *ast.ExprStmt: // delete(m2, k)
				call := x.X.(*ast.CallExpr)
				if !ndIsMap(s.info.TypeOf(call.Args[0])) || !isKey(call.Args[1]) {
					return false
				}
			case *ast.IfStmt:
				if !pure(x.Cond) || !check(x.Body.List) {
					return false
				}
				switch e := x.Else.(type) {
				case *ast.BlockStmt:
					if !check(e.List) {
						return false
					}
				case *ast.IfStmt:
					if !check([]ast.Stmt{e}) {
						return false
					}
				}
			case *ast.BranchStmt:
			default:
				return false
			}
		}
		return true
	}
	return check(rs.Body.List)
}

// rootObj: the variable an lvalue expression is rooted in (x, x.f, x[i], *x, (*x)[i] …).
func (s *ndScan) rootObj(e ast.Expr) types.Object {
	for {
		switch x := e.(type) {
		case *ast.Ident:
			return s.info.ObjectOf(x)
		case *ast.SelectorExpr:
			e = x.X
		case *ast.IndexExpr:
			e = x.X
		case *ast.StarExpr:
			e = x.X
		case *ast.ParenExpr:
			e = x.X
		default:
			return nil
		}
	}
}

// pureLhs: the index/selector parts of an accumulator lvalue do not read anything the body writes
// (other than the accumulator's own root) and contain no calls.
func (s *ndScan) pureLhs(e ast.Expr, written map[types.Object]bool) bool {
	root := s.rootObj(e)
	w2 := map[types.Object]bool{}
	for o := range written {
		if o != root {
			w2[o] = true
		}
	}
	ok := true
	ast.Inspect(e, func(n ast.Node) bool {
		if ix, isIx := n.(*ast.IndexExpr); isIx && !s.pureExpr(ix.Index, written) {
			ok = false
		}
		if _, isCall := n.(*ast.CallExpr); isCall {
			ok = false
		}
		return ok
	})
	return ok
}

// valueOnlyExpr: like pureExpr, but calls are allowed when the receiver and every argument are plain
// values (basic types, strings, byte slices/arrays): such a call cannot reach a context, keeper or store.
func (s *ndScan) valueOnlyExpr(e ast.Expr, written map[types.Object]bool) bool {
	plain := func(t types.Type) bool {
		if t == nil {
			return false
		}
		switch u := t.Underlying().(type) {
		case *types.Basic:
			return u.Kind() != types.UnsafePointer
		case *types.Slice:
			_, ok := u.Elem().Underlying().(*types.Basic)
			return ok
		case *types.Array:
			_, ok := u.Elem().Underlying().(*types.Basic)
			return ok
		}
		return false
	}
	ok := true
	ast.Inspect(e, func(n ast.Node) bool {
		switch x := n.(type) {
		case *ast.CallExpr:
			if s.isConversion(x) {
				return true
			}
			if fn := s.callee(x); fn == nil || ndIsRandPkg(ndPkgPath(fn)) || ndPkgPath(fn) == "time" || ndPkgPath(fn) == "os" {
				ok = false
				return false
			}
			for _, a := range x.Args {
				if !plain(s.info.TypeOf(a)) {
					ok = false
				}
			}
			if sel, isSel := x.Fun.(*ast.SelectorExpr); isSel {
				if msel := s.info.Selections[sel]; msel != nil && !plain(msel.Recv()) {
					ok = false
				}
			}
		case *ast.FuncLit:
			ok = false
		case *ast.UnaryExpr:
			if x.Op == token.ARROW || x.Op == token.AND {
				ok = false
			}
		case *ast.Ident:
			if o := s.info.Uses[x]; o != nil && written[o] {
				ok = false
			}
		}
		return ok
	})
	return ok
}

// pureExpr: no calls except conversions / len / cap, no function literals, no channel receives, and no
// read of an object the loop body writes.
func (s *ndScan) pureExpr(e ast.Expr, written map[types.Object]bool) bool {
	ok := true
	ast.Inspect(e, func(n ast.Node) bool {
		switch x := n.(type) {
		case *ast.CallExpr:
			if s.isConversion(x) {
				return true
			}
			if b, isB := s.info.Uses[identOf(x.Fun)].(*types.Builtin); isB && (b.Name() == "len" || b.Name() == "cap") {
				return true
			}
			ok = false
		case *ast.FuncLit:
			ok = false
		case *ast.UnaryExpr:
			if x.Op == token.ARROW || x.Op == token.AND {
				ok = false
			}
		case *ast.Ident:
			if o := s.info.Uses[x]; o != nil && written[o] {
				ok = false
			}
		}
		return ok
	})
	return ok
}

// ---------------------------------------------------------------- RNGs

func (s *ndScan) classifyRng(id *ast.Ident, fn *types.Func) string {
	call, depth := s.enclosingCallOf(id)
	if call == nil {
		return "Other"
	}
	pp := ndPkgPath(fn)
	tm := strings.HasSuffix(pp, "/libs/rand")
	switch {
	case fn.Name() == "Seed" && (tm || pp == "math/rand"):
		if len(call.Args) == 1 && s.blockData(call.Args[0], map[types.Object]bool{}) {
			return "SeededFromBlock"
		}
	case fn.Name() == "NewSource" && pp == "math/rand":
		if len(call.Args) == 1 && s.blockData(call.Args[0], map[types.Object]bool{}) {
			return "SeededFromBlock"
		}
	case fn.Name() == "New" && pp == "math/rand":
		if len(call.Args) == 1 {
			if inner, ok := ast.Unparen(call.Args[0]).(*ast.CallExpr); ok {
				if f := s.callee(inner); f != nil && ndPkgPath(f) == "math/rand" && f.Name() == "NewSource" &&
					len(inner.Args) == 1 && s.blockData(inner.Args[0], map[types.Object]bool{}) {
					return "SeededFromBlock"
				}
			}
		}
	case fn.Name() == "NewRand" && tm:
		// r := rand.NewRand(); …; r.Seed(<block data>) before any other use of r
		top := len(s.stack) - depth - 2 // the statement holding the call
		if top < 1 {
			return "Other"
		}
		var lhs ast.Expr
		switch p := s.stack[top].(type) {
		case *ast.AssignStmt:
			if len(p.Lhs) == 1 && len(p.Rhs) == 1 && p.Rhs[0] == ast.Expr(call) {
				lhs = p.Lhs[0]
			}
		}
		if lhs == nil {
			return "Other"
		}
		r := s.localVar(lhs)
		blk, ok := s.stack[top-1].(*ast.BlockStmt)
		if r == nil || !ok {
			return "Other"
		}
		idx := -1
		for i, st := range blk.List {
			if st == s.stack[top] {
				idx = i
			}
		}
		if idx < 0 {
			return "Other"
		}
		for _, st := range blk.List[idx+1:] {
			if !s.mentions(st, r) {
				continue
			}
			es, ok := st.(*ast.ExprStmt)
			if !ok {
				return "Other"
			}
			c2, ok := es.X.(*ast.CallExpr)
			if !ok || len(c2.Args) != 1 {
				return "Other"
			}
			sel, ok := c2.Fun.(*ast.SelectorExpr)
			if !ok || sel.Sel.Name != "Seed" || s.localVar(sel.X) != r {
				return "Other"
			}
			if s.blockData(c2.Args[0], map[types.Object]bool{}) {
				return "SeededFromBlock"
			}
			return "Other"
		}
	}
	return "Other"
}

var ndCtxBlockMethods = map[string]bool{
	"BlockHeight": true, "BlockTime": true, "BlockHeader": true, "BlockGasMeter": true, "HeaderHash": true,
	"ChainID": true, "ConsensusParams": true, "GasMeter": true, "TxBytes": true,
}

func ndIsSdkContext(t types.Type) bool {
	if p, ok := t.(*types.Pointer); ok {
		t = p.Elem()
	}
	n, ok := t.(*types.Named)
	return ok && n.Obj().Name() == "Context" && n.Obj().Pkg() != nil && strings.HasSuffix(n.Obj().Pkg().Path(), "cosmos-sdk/types")
}

// blockData: e is computed only from the block header / block gas meter read through sdk.Context,
// constants, and integer arithmetic / argument-less methods on such values.
func (s *ndScan) blockData(e ast.Expr, seen map[types.Object]bool) bool {
	if s.isConst(e) {
		return true
	}
	switch x := e.(type) {
	case *ast.ParenExpr:
		return s.blockData(x.X, seen)
	case *ast.BasicLit:
		return true
	case *ast.BinaryExpr:
		return s.blockData(x.X, seen) && s.blockData(x.Y, seen)
	case *ast.UnaryExpr:
		if x.Op == token.SUB || x.Op == token.ADD || x.Op == token.XOR {
			return s.blockData(x.X, seen)
		}
		return false
	case *ast.SelectorExpr: // field of block data
		if sel := s.info.Selections[x]; sel != nil && sel.Kind() == types.FieldVal {
			return s.blockData(x.X, seen)
		}
		return false
	case *ast.CallExpr:
		if s.isConversion(x) {
			return len(x.Args) == 1 && s.blockData(x.Args[0], seen)
		}
		sel, ok := x.Fun.(*ast.SelectorExpr)
		if !ok {
			return false
		}
		msel := s.info.Selections[sel]
		if msel == nil || msel.Kind() != types.MethodVal {
			return false
		}
		if ndIsSdkContext(s.info.TypeOf(sel.X)) {
			// the context itself may be a parameter: only its block-level readers count
			return ndCtxBlockMethods[sel.Sel.Name] && len(x.Args) == 0
		}
		if len(x.Args) != 0 {
			return false
		}
		return s.blockData(sel.X, seen)
	case *ast.Ident:
		obj := s.localVar(x)
		if obj == nil || s.body == nil || seen[obj] {
			return false
		}
		seen[obj] = true
		defer delete(seen, obj)
		// parameters are unknown
		isParam := true
		all := true
		ast.Inspect(s.body, func(n ast.Node) bool {
			switch a := n.(type) {
			case *ast.AssignStmt:
				for i, l := range a.Lhs {
					if id, ok := l.(*ast.Ident); ok && s.info.ObjectOf(id) == obj {
						isParam = isParam && a.Tok != token.DEFINE
						if len(a.Lhs) != len(a.Rhs) || !s.blockData(a.Rhs[i], seen) {
							all = false
						}
					}
				}
			case *ast.ValueSpec:
				for i, id := range a.Names {
					if s.info.ObjectOf(id) == obj {
						isParam = false
						if len(a.Values) == 0 {
							continue // zero value
						}
						if len(a.Values) != len(a.Names) || !s.blockData(a.Values[i], seen) {
							all = false
						}
					}
				}
			case *ast.IncDecStmt:
			case *ast.UnaryExpr:
				if a.Op == token.AND {
					if id, ok := ast.Unparen(a.X).(*ast.Ident); ok && s.info.ObjectOf(id) == obj {
						all = false
					}
				}
			case *ast.RangeStmt:
				for _, kv := range []ast.Expr{a.Key, a.Value} {
					if id, ok := kv.(*ast.Ident); ok && s.info.ObjectOf(id) == obj {
						all = false
					}
				}
			}
			return true
		})
		return all && !isParam
	}
	return false
}

// ---------------------------------------------------------------- calls: maps passed as interface, float conversions

func (s *ndScan) visitCall(call *ast.CallExpr) {
	if s.isConversion(call) {
		if len(call.Args) == 1 && !s.isConst(call.Args[0]) {
			to := s.info.TypeOf(call.Fun)
			from := s.info.TypeOf(call.Args[0])
			if (ndIsFloat(to) && !ndIsFloat(from)) || (ndIsFloat(from) && !ndIsFloat(to)) || (ndIsFloat(to) && ndIsFloat(from) && !types.Identical(to.Underlying(), from.Underlying())) {
				s.floatSite(call)
			}
		}
		return
	}
	tv, ok := s.info.Types[call.Fun]
	if !ok {
		return
	}
	sig, ok := tv.Type.Underlying().(*types.Signature)
	if !ok {
		return
	}
	fn := s.callee(call)
	for i, a := range call.Args {
		at := s.info.TypeOf(a)
		if at == nil {
			continue
		}
		direct := ndIsMap(at)
		if p, ok := at.Underlying().(*types.Pointer); ok && ndIsMap(p.Elem()) {
			direct = true
		}
		// a struct (or pointer to one) with a map-typed field counts only for the formatting / json functions
		viaStruct := !direct && ndStructWithMapField(at) && fn != nil && (ndPkgPath(fn) == "fmt" || ndPkgPath(fn) == "encoding/json")
		if !direct && !viaStruct {
			continue
		}
		// parameter type
		var pt types.Type
		np := sig.Params().Len()
		switch {
		case sig.Variadic() && i >= np-1:
			if call.Ellipsis.IsValid() {
				pt = sig.Params().At(np - 1).Type()
			} else if sl, ok := sig.Params().At(np - 1).Type().(*types.Slice); ok {
				pt = sl.Elem()
			}
		case i < np:
			pt = sig.Params().At(i).Type()
		}
		if pt == nil {
			continue
		}
		if _, isIface := pt.Underlying().(*types.Interface); !isIface {
			continue
		}
		if _, isTP := pt.(*types.TypeParam); isTP {
			continue
		}
		if fn != nil && ndPkgPath(fn) == "encoding/json" {
			switch fn.Name() {
			case "Marshal", "MarshalIndent", "Encode":
				s.add(call, "KJsonMap", "JsonMarshalSorted")
				continue
			case "Unmarshal", "Decode", "Valid":
				continue // fills a map; order plays no role
			}
		}
		// a *pointer to* a map handed to a decoder-like function is not a formatting of the map
		if _, isPtr := at.Underlying().(*types.Pointer); isPtr && fn != nil && (strings.Contains(fn.Name(), "Unmarshal") || strings.Contains(fn.Name(), "Decode")) {
			continue
		}
		s.add(call, "KFmtMap", "Other")
	}
	_ = constant.Unknown
}
