package main

// Generator "msgtable" (property C11): the table of every transaction message type of the
// custom modules, read off the Go sources as they are NOW.
//
// For every custom module m in x/<m>:
//   * x/<m>/types/tx.pb.go : the composite literal `_Msg_serviceDesc` (MethodName -> Handler func);
//     the request type of a method is the T of `in := new(T)` in the handler func;
//     the proto type URL is read from `proto.RegisterType((*T)(nil), "<full name>")`.
//   * x/<m>/types/codec.go : inside `RegisterInterfaces`, every `&T{}` passed to
//     `registry.RegisterImplementations((*sdk.Msg)(nil), ...)` and whether
//     `msgservice.RegisterMsgServiceDesc(registry, &_Msg_serviceDesc)` is called.
//   * `func (msg *T) GetSigners() []sdk.AccAddress` evaluated over a tiny abstract domain:
//       x, err := sdk.AccAddressFromBech32(msg.F)      x |-> "address of field F"
//       if err != nil { panic(...) }                      (skipped)
//       return []sdk.AccAddress{x1, ..., xn}              the list of fields
//     any other statement, a re-assignment, another callee, an unknown identifier => SignerUnknown.
//   * `func (msg *T) ValidateBasic() error` : does it parse msg.Creator
//     (sdk.AccAddressFromBech32 or bech32.DecodeAndConvert applied to msg.Creator).
//   * x/<m>/keeper : the type `msgServer` has a method <MethodName> declared in that package
//     (not promoted from an embedded Unimplemented server) whose request parameter is *types.T.
//   * x/<m>/module.go : `func (am AppModule) RegisterServices` calls `types.RegisterMsgServer`.
//
// The generator fails (no table is written, bin/check stops with an internal error) when a file
// or construct it expects is missing; it never emits an empty table.

import (
	"fmt"
	"go/ast"
	"go/token"
	"go/types"
	"path/filepath"
	"sort"
	"strconv"
	"strings"

	"golang.org/x/tools/go/packages"
)

const msgtableModPath = "github.com/jackalLabs/canine-chain/v4/x/"

var msgtableModules = []string{"storage", "rns", "filetree", "notifications", "oracle", "jklmint"}

func init() { generators["msgtable"] = genMsgTable }

type msgtableRow struct {
	module, typ, url, method string
	signers                  []string
	signersKnown             bool
	registered, inDesc       bool
	descRegistered           bool
	serverMethod             bool
	servicesRegistered       bool
	validateCreator          bool
	hasCreatorField          bool
	amino                    string // name under which the type's amino-JSON sign bytes carry it ("" = bare field object)
	src                      string
}

func msgtableFileOf(p *packages.Package, base string) *ast.File {
	for _, f := range p.Syntax {
		if filepath.Base(p.Fset.Position(f.Pos()).Filename) == base {
			return f
		}
	}
	return nil
}

// all function declarations of a package by "Recv.Name" / "Name"
func msgtableFuncs(p *packages.Package) map[string]*ast.FuncDecl {
	res := map[string]*ast.FuncDecl{}
	for _, f := range p.Syntax {
		for _, d := range f.Decls {
			fd, ok := d.(*ast.FuncDecl)
			if !ok {
				continue
			}
			name := fd.Name.Name
			if fd.Recv != nil && len(fd.Recv.List) == 1 {
				t := fd.Recv.List[0].Type
				if st, ok := t.(*ast.StarExpr); ok {
					t = st.X
				}
				if id, ok := t.(*ast.Ident); ok {
					name = id.Name + "." + name
				}
			}
			res[name] = fd
		}
	}
	return res
}

func msgtableCallee(p *packages.Package, call *ast.CallExpr) (pkgPath, name string) {
	var id *ast.Ident
	switch f := call.Fun.(type) {
	case *ast.SelectorExpr:
		id = f.Sel
	case *ast.Ident:
		id = f
	default:
		return "", ""
	}
	obj := p.TypesInfo.Uses[id]
	if obj == nil {
		return "", id.Name
	}
	if obj.Pkg() != nil {
		return obj.Pkg().Path(), obj.Name()
	}
	return "", obj.Name()
}

// recvField returns F when e is `<recv>.F`.
func msgtableRecvField(e ast.Expr, recv string) (string, bool) {
	se, ok := e.(*ast.SelectorExpr)
	if !ok {
		return "", false
	}
	id, ok := se.X.(*ast.Ident)
	if !ok || id.Name != recv || recv == "" || recv == "_" {
		return "", false
	}
	return se.Sel.Name, true
}

func msgtableRecvName(fd *ast.FuncDecl) string {
	if fd.Recv == nil || len(fd.Recv.List) != 1 || len(fd.Recv.List[0].Names) != 1 {
		return ""
	}
	return fd.Recv.List[0].Names[0].Name
}

const sdkTypesPath = "github.com/cosmos/cosmos-sdk/types"

// abstract evaluation of GetSigners
func msgtableSigners(p *packages.Package, fd *ast.FuncDecl) ([]string, bool) {
	recv := msgtableRecvName(fd)
	if fd.Body == nil {
		return nil, false
	}
	env := map[string]string{} // local -> field whose address it holds
	for _, st := range fd.Body.List {
		switch s := st.(type) {
		case *ast.AssignStmt:
			if s.Tok != token.DEFINE || len(s.Lhs) != 2 || len(s.Rhs) != 1 {
				return nil, false
			}
			call, ok := s.Rhs[0].(*ast.CallExpr)
			if !ok || len(call.Args) != 1 {
				return nil, false
			}
			pp, nm := msgtableCallee(p, call)
			if pp != sdkTypesPath || nm != "AccAddressFromBech32" {
				return nil, false
			}
			fld, ok := msgtableRecvField(call.Args[0], recv)
			if !ok {
				return nil, false
			}
			x, ok := s.Lhs[0].(*ast.Ident)
			if !ok || x.Name == "_" {
				return nil, false
			}
			if _, dup := env[x.Name]; dup {
				return nil, false
			}
			env[x.Name] = fld
		case *ast.IfStmt:
			// only `if err != nil { panic(...) }`
			if s.Init != nil || s.Else != nil || len(s.Body.List) != 1 {
				return nil, false
			}
			be, ok := s.Cond.(*ast.BinaryExpr)
			if !ok || be.Op != token.NEQ {
				return nil, false
			}
			if l, ok := be.X.(*ast.Ident); !ok || l.Name != "err" {
				return nil, false
			}
			if r, ok := be.Y.(*ast.Ident); !ok || r.Name != "nil" {
				return nil, false
			}
			es, ok := s.Body.List[0].(*ast.ExprStmt)
			if !ok {
				return nil, false
			}
			c, ok := es.X.(*ast.CallExpr)
			if !ok {
				return nil, false
			}
			if id, ok := c.Fun.(*ast.Ident); !ok || id.Name != "panic" {
				return nil, false
			}
		case *ast.ReturnStmt:
			if len(s.Results) != 1 {
				return nil, false
			}
			cl, ok := s.Results[0].(*ast.CompositeLit)
			if !ok {
				return nil, false
			}
			at, ok := cl.Type.(*ast.ArrayType)
			if !ok || at.Len != nil {
				return nil, false
			}
			tv, ok := p.TypesInfo.Types[at.Elt]
			if !ok || tv.Type.String() != sdkTypesPath+".AccAddress" {
				return nil, false
			}
			out := []string{}
			for _, el := range cl.Elts {
				id, ok := el.(*ast.Ident)
				if !ok {
					return nil, false
				}
				f, ok := env[id.Name]
				if !ok {
					return nil, false
				}
				out = append(out, f)
			}
			return out, true
		default:
			return nil, false
		}
	}
	return nil, false
}

func msgtableValidatesCreator(p *packages.Package, fd *ast.FuncDecl) bool {
	recv := msgtableRecvName(fd)
	found := false
	if fd.Body == nil {
		return false
	}
	ast.Inspect(fd.Body, func(n ast.Node) bool {
		call, ok := n.(*ast.CallExpr)
		if !ok || len(call.Args) != 1 {
			return true
		}
		pp, nm := msgtableCallee(p, call)
		isParse := (pp == sdkTypesPath && nm == "AccAddressFromBech32") || (pp == sdkTypesPath+"/bech32" && nm == "DecodeAndConvert")
		if !isParse {
			return true
		}
		if f, ok := msgtableRecvField(call.Args[0], recv); ok && f == "Creator" {
			found = true
		}
		return true
	})
	return found
}

func coqOptString(s string) string {
	if s == "" {
		return "None"
	}
	return "(Some " + CoqString(s) + ")"
}

func genMsgTable(c *Ctx) (string, string, error) {
	rows := []*msgtableRow{}
	var prov []string
	for _, m := range msgtableModules {
		tp := c.ByID[msgtableModPath+m+"/types"]
		kp := c.ByID[msgtableModPath+m+"/keeper"]
		mp := c.ByID[msgtableModPath+m]
		if tp == nil || kp == nil || mp == nil {
			return "", "", fmt.Errorf("module %s: package types/keeper/module not loaded", m)
		}
		txf := msgtableFileOf(tp, "tx.pb.go")
		cdf := msgtableFileOf(tp, "codec.go")
		mdf := msgtableFileOf(mp, "module.go")
		if txf == nil || cdf == nil || mdf == nil {
			return "", "", fmt.Errorf("module %s: tx.pb.go / codec.go / module.go missing", m)
		}
		prov = append(prov, "x/"+m+"/types/tx.pb.go", "x/"+m+"/types/codec.go", "x/"+m+"/module.go")
		funcs := msgtableFuncs(tp)

		// ---- proto type URLs
		urls := map[string]string{}
		ast.Inspect(txf, func(n ast.Node) bool {
			call, ok := n.(*ast.CallExpr)
			if !ok || len(call.Args) != 2 {
				return true
			}
			if _, nm := msgtableCallee(tp, call); nm != "RegisterType" {
				return true
			}
			lit, ok := call.Args[1].(*ast.BasicLit)
			if !ok {
				return true
			}
			full, err := strconv.Unquote(lit.Value)
			if err != nil {
				return true
			}
			// (*T)(nil)
			if conv, ok := call.Args[0].(*ast.CallExpr); ok {
				if par, ok := conv.Fun.(*ast.ParenExpr); ok {
					if st, ok := par.X.(*ast.StarExpr); ok {
						if id, ok := st.X.(*ast.Ident); ok {
							urls[id.Name] = "/" + full
						}
					}
				}
			}
			return true
		})

		// ---- service descriptor
		var desc *ast.CompositeLit
		for _, d := range txf.Decls {
			gd, ok := d.(*ast.GenDecl)
			if !ok || gd.Tok != token.VAR {
				continue
			}
			for _, sp := range gd.Specs {
				vs := sp.(*ast.ValueSpec)
				for i, n := range vs.Names {
					if n.Name == "_Msg_serviceDesc" && i < len(vs.Values) {
						if cl, ok := vs.Values[i].(*ast.CompositeLit); ok {
							desc = cl
						}
					}
				}
			}
		}
		if desc == nil {
			return "", "", fmt.Errorf("module %s: var _Msg_serviceDesc not found in tx.pb.go", m)
		}
		type meth struct{ name, handler string }
		var meths []meth
		sawMethods := false
		for _, el := range desc.Elts {
			kv, ok := el.(*ast.KeyValueExpr)
			if !ok {
				continue
			}
			if k, ok := kv.Key.(*ast.Ident); !ok || k.Name != "Methods" {
				continue
			}
			sawMethods = true
			ml, ok := kv.Value.(*ast.CompositeLit)
			if !ok {
				return "", "", fmt.Errorf("module %s: _Msg_serviceDesc.Methods is not a literal", m)
			}
			for _, me := range ml.Elts {
				mc, ok := me.(*ast.CompositeLit)
				if !ok {
					return "", "", fmt.Errorf("module %s: method descriptor is not a literal", m)
				}
				var mm meth
				for _, f := range mc.Elts {
					fkv, ok := f.(*ast.KeyValueExpr)
					if !ok {
						continue
					}
					switch fkv.Key.(*ast.Ident).Name {
					case "MethodName":
						if bl, ok := fkv.Value.(*ast.BasicLit); ok {
							mm.name, _ = strconv.Unquote(bl.Value)
						}
					case "Handler":
						if id, ok := fkv.Value.(*ast.Ident); ok {
							mm.handler = id.Name
						}
					}
				}
				if mm.name == "" || mm.handler == "" {
					return "", "", fmt.Errorf("module %s: method descriptor without MethodName/Handler", m)
				}
				meths = append(meths, mm)
			}
		}
		if !sawMethods {
			return "", "", fmt.Errorf("module %s: _Msg_serviceDesc has no Methods field", m)
		}

		// ---- RegisterInterfaces
		ri := funcs["RegisterInterfaces"]
		if ri == nil || ri.Body == nil {
			return "", "", fmt.Errorf("module %s: func RegisterInterfaces not found in types", m)
		}
		registered := map[string]bool{}
		descRegistered := false
		ast.Inspect(ri.Body, func(n ast.Node) bool {
			call, ok := n.(*ast.CallExpr)
			if !ok {
				return true
			}
			_, nm := msgtableCallee(tp, call)
			switch nm {
			case "RegisterImplementations":
				if len(call.Args) < 1 {
					return true
				}
				// first argument must be (*sdk.Msg)(nil)
				tv, ok := tp.TypesInfo.Types[call.Args[0]]
				if !ok || tv.Type.String() != "*"+sdkTypesPath+".Msg" {
					return true
				}
				for _, a := range call.Args[1:] {
					if u, ok := a.(*ast.UnaryExpr); ok && u.Op == token.AND {
						if cl, ok := u.X.(*ast.CompositeLit); ok {
							if id, ok := cl.Type.(*ast.Ident); ok {
								registered[id.Name] = true
							}
						}
					}
				}
			case "RegisterMsgServiceDesc":
				if len(call.Args) == 2 {
					if u, ok := call.Args[1].(*ast.UnaryExpr); ok && u.Op == token.AND {
						if id, ok := u.X.(*ast.Ident); ok && id.Name == "_Msg_serviceDesc" {
							descRegistered = true
						}
					}
				}
			}
			return true
		})

		// ---- amino names: RegisterConcrete(&T{}, "name", nil) inside a func F of codec.go, effective for the sign
		// bytes only if init() calls F(Amino) and ModuleCdc is codec.NewAminoCodec(Amino)
		aminoNames := map[string]string{}
		aminoFuncs := map[string]bool{}
		for fname, fd := range funcs {
			if fd.Body == nil || strings.Contains(fname, ".") {
				continue
			}
			ast.Inspect(fd.Body, func(n ast.Node) bool {
				call, ok := n.(*ast.CallExpr)
				if !ok || len(call.Args) != 3 {
					return true
				}
				if _, nm := msgtableCallee(tp, call); nm != "RegisterConcrete" {
					return true
				}
				u, ok := call.Args[0].(*ast.UnaryExpr)
				if !ok || u.Op != token.AND {
					return true
				}
				cl, ok := u.X.(*ast.CompositeLit)
				if !ok {
					return true
				}
				id, ok := cl.Type.(*ast.Ident)
				lit, ok2 := call.Args[1].(*ast.BasicLit)
				if !ok || !ok2 {
					return true
				}
				if nm, err := strconv.Unquote(lit.Value); err == nil {
					aminoNames[id.Name+"@"+fname] = nm
					aminoFuncs[fname] = true
				}
				return true
			})
		}
		aminoEffective := map[string]bool{} // F -> init() calls F(Amino)
		for _, d := range cdf.Decls { // (a package has several init functions: the ones of codec.go)
			in, ok := d.(*ast.FuncDecl)
			if !ok || in.Name.Name != "init" || in.Recv != nil || in.Body == nil {
				continue
			}
			ast.Inspect(in.Body, func(n ast.Node) bool {
				call, ok := n.(*ast.CallExpr)
				if !ok || len(call.Args) != 1 {
					return true
				}
				f, ok := call.Fun.(*ast.Ident)
				a, ok2 := call.Args[0].(*ast.Ident)
				if ok && ok2 && aminoFuncs[f.Name] && a.Name == "Amino" {
					aminoEffective[f.Name] = true
				}
				return true
			})
		}
		moduleCdcOnAmino := false
		ast.Inspect(cdf, func(n ast.Node) bool {
			vs, ok := n.(*ast.ValueSpec)
			if !ok {
				return true
			}
			for i, nm := range vs.Names {
				if nm.Name != "ModuleCdc" || i >= len(vs.Values) {
					continue
				}
				if call, ok := vs.Values[i].(*ast.CallExpr); ok && len(call.Args) == 1 {
					if _, cn := msgtableCallee(tp, call); cn == "NewAminoCodec" {
						if a, ok := call.Args[0].(*ast.Ident); ok && a.Name == "Amino" {
							moduleCdcOnAmino = true
						}
					}
				}
			}
			return true
		})
		// GetSignBytes of T is `bz := ModuleCdc.MustMarshalJSON(msg); return sdk.MustSortJSON(bz)`
		stdSignBytes := func(typ string) bool {
			fd := funcs[typ+".GetSignBytes"]
			if fd == nil || fd.Body == nil || len(fd.Body.List) != 2 {
				return false
			}
			as, ok := fd.Body.List[0].(*ast.AssignStmt)
			if !ok || len(as.Rhs) != 1 || len(as.Lhs) != 1 {
				return false
			}
			call, ok := as.Rhs[0].(*ast.CallExpr)
			if !ok || len(call.Args) != 1 {
				return false
			}
			sel, ok := call.Fun.(*ast.SelectorExpr)
			if !ok || sel.Sel.Name != "MustMarshalJSON" {
				return false
			}
			if x, ok := sel.X.(*ast.Ident); !ok || x.Name != "ModuleCdc" {
				return false
			}
			if a, ok := call.Args[0].(*ast.Ident); !ok || a.Name != msgtableRecvName(fd) {
				return false
			}
			ret, ok := fd.Body.List[1].(*ast.ReturnStmt)
			if !ok || len(ret.Results) != 1 {
				return false
			}
			rc, ok := ret.Results[0].(*ast.CallExpr)
			if !ok || len(rc.Args) != 1 {
				return false
			}
			if _, nm := msgtableCallee(tp, rc); nm != "MustSortJSON" {
				return false
			}
			lhs, ok := as.Lhs[0].(*ast.Ident)
			arg, ok2 := rc.Args[0].(*ast.Ident)
			return ok && ok2 && lhs.Name == arg.Name
		}
		aminoOf := func(typ string) string {
			if !moduleCdcOnAmino || !stdSignBytes(typ) {
				return ""
			}
			fns := []string{}
			for f := range aminoEffective {
				fns = append(fns, f)
			}
			sort.Strings(fns)
			for _, f := range fns {
				if nm, ok := aminoNames[typ+"@"+f]; ok {
					return nm
				}
			}
			return ""
		}

		// ---- module.go RegisterServices
		mfuncs := msgtableFuncs(mp)
		rs := mfuncs["AppModule.RegisterServices"]
		if rs == nil || rs.Body == nil {
			return "", "", fmt.Errorf("module %s: func (AppModule) RegisterServices not found", m)
		}
		servicesRegistered := false
		ast.Inspect(rs.Body, func(n ast.Node) bool {
			call, ok := n.(*ast.CallExpr)
			if !ok {
				return true
			}
			pp, nm := msgtableCallee(mp, call)
			if nm == "RegisterMsgServer" && pp == tp.PkgPath {
				servicesRegistered = true
			}
			return true
		})

		// ---- keeper msgServer method set
		msObj := kp.Types.Scope().Lookup("msgServer")
		if msObj == nil {
			return "", "", fmt.Errorf("module %s: keeper type msgServer not found", m)
		}
		mset := types.NewMethodSet(msObj.Type())
		hasServerMethod := func(method, reqType string) bool {
			sel := mset.Lookup(kp.Types, method)
			if sel == nil {
				// exported methods are looked up with a nil package too
				sel = mset.Lookup(nil, method)
			}
			if sel == nil {
				return false
			}
			fn, ok := sel.Obj().(*types.Func)
			if !ok || fn.Pkg() == nil || fn.Pkg().Path() != kp.PkgPath {
				return false // promoted from an embedded (Unimplemented) server
			}
			sig := fn.Type().(*types.Signature)
			if sig.Params().Len() != 2 {
				return false
			}
			return sig.Params().At(1).Type().String() == "*"+tp.PkgPath+"."+reqType
		}

		seen := map[string]*msgtableRow{}
		addRow := func(typ string) (*msgtableRow, error) {
			if r, ok := seen[typ]; ok {
				return r, nil
			}
			r := &msgtableRow{module: m, typ: typ, descRegistered: descRegistered, servicesRegistered: servicesRegistered, registered: registered[typ]}
			u, ok := urls[typ]
			if !ok {
				return nil, fmt.Errorf("module %s: no proto.RegisterType for %s", m, typ)
			}
			r.url = u
			gs := funcs[typ+".GetSigners"]
			if gs == nil {
				return nil, fmt.Errorf("module %s: %s has no GetSigners method in the types package", m, typ)
			}
			vb := funcs[typ+".ValidateBasic"]
			if vb == nil {
				return nil, fmt.Errorf("module %s: %s has no ValidateBasic method in the types package", m, typ)
			}
			r.signers, r.signersKnown = msgtableSigners(tp, gs)
			r.validateCreator = msgtableValidatesCreator(tp, vb)
			r.amino = aminoOf(typ)
			pos := tp.Fset.Position(gs.Pos())
			r.src = fmt.Sprintf("%s:%d", c.Rel(pos.Filename), pos.Line)
			if obj := tp.Types.Scope().Lookup(typ); obj != nil {
				if st, ok := obj.Type().Underlying().(*types.Struct); ok {
					for i := 0; i < st.NumFields(); i++ {
						if st.Field(i).Name() == "Creator" && st.Field(i).Type().String() == "string" {
							r.hasCreatorField = true
						}
					}
				}
			}
			seen[typ] = r
			rows = append(rows, r)
			return r, nil
		}
		for _, mm := range meths {
			hf := funcs[mm.handler]
			if hf == nil || hf.Body == nil {
				return "", "", fmt.Errorf("module %s: handler func %s not found", m, mm.handler)
			}
			req := ""
			for _, st := range hf.Body.List {
				as, ok := st.(*ast.AssignStmt)
				if !ok || len(as.Rhs) != 1 {
					continue
				}
				call, ok := as.Rhs[0].(*ast.CallExpr)
				if !ok || len(call.Args) != 1 {
					continue
				}
				if id, ok := call.Fun.(*ast.Ident); ok && id.Name == "new" {
					if t, ok := call.Args[0].(*ast.Ident); ok {
						req = t.Name
						break
					}
				}
			}
			if req == "" {
				return "", "", fmt.Errorf("module %s: request type of %s not found (no `in := new(T)`)", m, mm.handler)
			}
			r, err := addRow(req)
			if err != nil {
				return "", "", err
			}
			if r.inDesc {
				return "", "", fmt.Errorf("module %s: request type %s used by two service methods", m, req)
			}
			r.inDesc = true
			r.method = mm.name
			r.serverMethod = hasServerMethod(mm.name, req)
		}
		regNames := []string{}
		for t := range registered {
			regNames = append(regNames, t)
		}
		sort.Strings(regNames)
		for _, t := range regNames {
			if _, err := addRow(t); err != nil {
				return "", "", err
			}
		}
	}
	if len(rows) == 0 {
		return "", "", fmt.Errorf("no message type found in any custom module")
	}

	var b strings.Builder
	b.WriteString("(* sources read: " + strings.Join(prov, " ") + " and the message_*.go / keeper files they refer to *)\n")
	b.WriteString("From Coq Require Import List String Bool.\nFrom JK Require Import Model.MsgTable.\nImport ListNotations.\nOpen Scope string_scope.\n\n")
	b.WriteString("Definition msg_table : list msg_row := [\n")
	for i, r := range rows {
		sg := "SignerUnknown"
		if r.signersKnown {
			fs := make([]string, len(r.signers))
			for j, f := range r.signers {
				fs[j] = CoqString(f)
			}
			sg = "SignerFields " + CoqList(fs)
		}
		fmt.Fprintf(&b, "  (* %s *)\n  {| m_module := %s; m_type := %s; m_url := %s; m_method := %s;\n     m_signers := %s; m_has_creator_field := %s;\n     m_registered := %s; m_in_desc := %s; m_desc_registered := %s;\n     m_server_method := %s; m_services_registered := %s; m_validate_checks_creator := %s;\n     m_amino := %s |}",
			r.src, CoqString(r.module), CoqString(r.typ), CoqString(r.url), CoqString(r.method), sg, CoqBool(r.hasCreatorField),
			CoqBool(r.registered), CoqBool(r.inDesc), CoqBool(r.descRegistered), CoqBool(r.serverMethod), CoqBool(r.servicesRegistered), CoqBool(r.validateCreator), coqOptString(r.amino))
		if i+1 < len(rows) {
			b.WriteString(";")
		}
		b.WriteString("\n")
	}
	b.WriteString("].\n")
	return "MsgTable.v", b.String(), nil
}
