package main

// Generator "gofuncs": translates the bodies of selected Go functions of /repo, as they are NOW, into Gallina
// (coq/theories/Gen/GoFuncs.v, over the operators of Base/GoSem.v).  The hand-written models are then tied to the
// generated definitions by THEOREMS (Proofs/GoTie*.v: `gen_f args = model_f args` for all arguments in the stated
// ranges), so for these functions the tie between model and code is the translator plus a proof, not a sample.
//
// The translated fragment of Go (anything else makes the generator fail, which bin/check reports as a broken
// obligation of every property that depends on the table):
//
//   types        int64, int (Z, wrapped arithmetic), bool, sdk.Dec, sdk.Int, error (bool: true = nil)
//   expressions  constants (folded by go/types), identifiers, ( ), unary - and !, + - * / %, comparisons,
//                && and || (short-circuit, made explicit when the right operand can panic),
//                int64(x) of an integer x, sdk.NewDec / NewDecFromInt / NewInt / MustNewDecFromStr("literal"),
//                the Dec methods Add Sub Mul Quo QuoInt64 MulInt64 TruncateInt64 TruncateInt, Int.ToDec,
//                sdk.NewInt64Coin (a panic on a negative amount) and sdk.NewCoins/NewCoin of one coin (its amount),
//                sdkerrors.Wrap/Wrapf (nil-preserving), calls of other translated functions,
//                and "reads": expressions named in the function's configuration by their source text
//                (fields of the receiver or of a record fetched from the store, keeper getters, ctx.BlockHeight())
//                which become parameters of the generated function
//   statements   := = += -= ++ --, var, if/else (with init), switch (tagless or on an integer tag), return,
//                blocks; expression statements and error-assignments that the configuration declares as
//                effects (they append an event `Ev tag args` to the function's event list, in program order)
//                or as ignorable (logging, telemetry), and "read statements" that only fetch configured reads
//   control      straight-line code with early returns; an `if` whose branch falls through is translated by
//                duplicating the rest of the function into both branches (no loops, no goto, no defer except ignored)
//
// A function with effects returns `gres (list gev * T)` (or `gres (list gev)` when it returns nothing).

import (
	"bytes"
	"fmt"
	"go/ast"
	"go/constant"
	"go/printer"
	"go/token"
	"go/types"
	"math/big"
	"regexp"
	"strings"

	"golang.org/x/tools/go/packages"
)

// One generated file per group of functions, so that a function the translator can no longer read only affects
// the properties that depend on its group.
var gfGroups = map[string]struct{ file string }{
	"gowindows":  {"GoWindows.v"},  // storage proof windows, the reward block's per-prover decision, the next challenge
	"gomint":     {"GoMint.v"},     // jklmint emission and split
	"goprice":    {"GoPrice.v"},    // storage price functions
	"gorns":      {"GoRns.v"},      // rns price list
	"gogauge":    {"GoGauge.v"},    // payment gauges: what a reward block releases
	"goreward":   {"GoReward.v"},   // the payout of a reward block
	"gocollat":   {"GoCollat.v"},   // provider registration and shutdown (collateral)
	"gornsown":   {"GoRnsOwn.v"},   // rns: the handlers that change a name's owner or move bid escrow
	"gofiletree": {"GoFiletree.v"}, // filetree: who may delete, hand over, post and change access lists
	"gonotif":    {"GoNotif.v"},    // notifications: when a notification is stored
	"gooracle":   {"GoOracle.v"},   // oracle: who may create and update a feed
	"goforms":    {"GoForms.v"},    // storage: what a signature on an attestation / report form does
}

func init() {
	for g := range gfGroups {
		g := g
		generators[g] = func(c *Ctx) (string, string, error) { return genGoFuncs(c, g) }
	}
}

type gfInput struct{ Expr, Coq, Ty string } // Ty: "Z" or "bool"

type gfEffect struct {
	Match    string   // source text of the callee (`file.RemoveProverWithKey`) or, for `x op= e`, of the assigned expression
	Tag      string   // event tag
	Args     []string // source texts of the integer expressions recorded with the event ("$rhs" = the assigned value)
	Fallible string   // for `err := call(...)`: the boolean input that says whether the call returned nil
}

type gfFunc struct {
	Group           string
	Pkg, Recv, Name string
	Coq             string
	Inputs          []gfInput
	ReadStmts       []string // statements (source text, whitespace-normalised) that only bring configured reads into scope
	Ignore          []string // regular expressions of statements without effect on the modelled state
	Effects         []gfEffect
	// Path selects a part of the function as the translated unit: "funclit:<callee>" descends into the function
	// literal passed to that call (a bare `return` ends the unit), "range:<expr>" into the body of the range
	// statement over that expression (`continue` ends the unit).  Variables of the enclosing code are reads.
	Path []string
	// FieldVars: fields of a record fetched from the store that the function updates in place before writing the
	// record back (`payInfo.SpaceUsed -= ...`): each is a translated variable initialised with the given input
	FieldVars []gfInput
	// RespField: the function returns a response record next to its error; this boolean field of the returned
	// `&T{...}` literal becomes the first component of the translated result (false when the field is absent)
	RespField string
	// UnitExits: the unit (a loop body) may leave the whole function with `return <values>`; the generated unit then
	// answers a boolean: true = the loop goes on to the next element, false = the function returned from inside the loop
	UnitExits bool
	// StmtEvents: statements (by prefix of their source text) that are not translated but recorded as an event,
	// e.g. an inner loop whose body is a unit of its own
	StmtEvents []gfEffect
}

const gfMod = "github.com/jackalLabs/canine-chain/v4/"

var gfLogging = []string{`^ctx\.Logger\(\)\.(Info|Error|Debug)\(`, `^_ = \w+$`, `^\w+ := \w+\.String\(\)$`}

// The functions translated.  Order matters only for readability: dependencies are sorted out by the generator.
var gfFuncs = []gfFunc{
	// ---- x/storage/types/file.go: the proof-window arithmetic (C01, C02, C03, C05)
	{Group: "gowindows", Pkg: "x/storage/types", Name: "getRoundedWindow", Coq: "gen_getRoundedWindow",
		Inputs: []gfInput{{"currentHeight", "h", "Z"}, {"start", "start", "Z"}, {"window", "w", "Z"}}},
	{Group: "gowindows", Pkg: "x/storage/types", Recv: "UnifiedFile", Name: "ProvenLastBlock", Coq: "gen_ProvenLastBlock",
		Inputs: []gfInput{{"f.Start", "start", "Z"}, {"f.ProofInterval", "pi", "Z"}, {"height", "h", "Z"}, {"lastProven", "last", "Z"}}},
	{Group: "gowindows", Pkg: "x/storage/types", Recv: "UnifiedFile", Name: "ProvenThisBlock", Coq: "gen_ProvenThisBlock",
		Inputs: []gfInput{{"f.Start", "start", "Z"}, {"f.ProofInterval", "pi", "Z"}, {"height", "h", "Z"}, {"lastProven", "last", "Z"}}},
	{Group: "gowindows", Pkg: "x/storage/types", Recv: "UnifiedFile", Name: "IsYoung", Coq: "gen_IsYoung",
		Inputs: []gfInput{{"f.Start", "start", "Z"}, {"f.ProofInterval", "pi", "Z"}, {"height", "h", "Z"}}},
	// ---- x/storage/keeper/rewards.go: the per-prover decision of a reward block and the block's trigger
	{Group: "gowindows", Pkg: "x/storage/keeper", Recv: "Keeper", Name: "manageProof", Coq: "gen_manageProof",
		Inputs: []gfInput{{"file.Start", "start", "Z"}, {"file.ProofInterval", "pi", "Z"}, {"ctx.BlockHeight()", "h", "Z"},
			{"file.FileSize", "size", "Z"}, {"found", "found", "bool"}, {"proof.LastProven", "last", "Z"}},
		ReadStmts: []string{`pks := strings.Split(proofKey, "/")`, `providerAddress := pks[0]`,
			`proof, found := k.GetProofWithBuiltKey(ctx, []byte(proofKey))`},
		Ignore: gfLogging,
		Effects: []gfEffect{{Match: "file.RemoveProverWithKey", Tag: "remove-prover"}, {Match: "k.burnContract", Tag: "burn"},
			{Match: "(*sizeTracker)[proof.Prover]", Tag: "credit", Args: []string{"$rhs"}}}},
	{Group: "gowindows", Pkg: "x/storage/keeper", Recv: "Keeper", Name: "removeFileIfDeserved", Coq: "gen_removeFileIfDeserved",
		Inputs: []gfInput{{"file.Start", "start", "Z"}, {"file.ProofInterval", "pi", "Z"}, {"ctx.BlockHeight()", "h", "Z"},
			{"len(file.Proofs)", "nproofs", "Z"}},
		Ignore:  gfLogging,
		Effects: []gfEffect{{Match: "k.RemoveFile", Tag: "remove-file"}}},
	{Group: "gowindows", Pkg: "x/storage/keeper", Recv: "Keeper", Name: "RunRewardBlock", Coq: "gen_RunRewardBlock",
		Inputs:  []gfInput{{"k.GetParams(ctx).CheckWindow", "cw", "Z"}, {"ctx.BlockHeight()", "h", "Z"}},
		Ignore:  gfLogging,
		Effects: []gfEffect{{Match: "k.ManageRewards", Tag: "manage-rewards"}}},
	// ---- x/storage/types/file_deal.go: the challenge a prover is given next
	{Group: "gowindows", Pkg: "x/storage/types", Recv: "UnifiedFile", Name: "ResetChunkWithProof", Coq: "gen_ResetChunkWithProof",
		Inputs: []gfInput{{"f.FileSize", "size", "Z"}, {"chunkSize", "chunk", "Z"}, {"r.Int63n(pieces)", "draw", "Z"}},
		ReadStmts: []string{`var gs int64`, `gasMeter := ctx.BlockGasMeter()`, `if gasMeter != nil { gs = int64(gasMeter.GasConsumed()) }`,
			`h := ctx.BlockHeight()`, `r := rand.NewRand()`, `r.Seed(gs + h)`},
		Effects: []gfEffect{{Match: "proof.ChunkToProve", Tag: "set-challenge", Args: []string{"$rhs"}}}},
	{Group: "gowindows", Pkg: "x/storage/types", Recv: "UnifiedFile", Name: "SetProven", Coq: "gen_SetProven",
		Inputs:  []gfInput{{"f.FileSize", "size", "Z"}, {"chunkSize", "chunk", "Z"}, {"r.Int63n(pieces)", "draw", "Z"}, {"ctx.BlockHeight()", "h", "Z"}},
		Effects: []gfEffect{{Match: "proof.LastProven", Tag: "set-last-proven", Args: []string{"$rhs"}}}},
	{Group: "gowindows", Pkg: "x/storage/types", Recv: "UnifiedFile", Name: "Prove", Coq: "gen_Prove",
		Inputs: []gfInput{{"f.FileSize", "size", "Z"}, {"chunkSize", "chunk", "Z"}, {"r.Int63n(pieces)", "draw", "Z"}, {"ctx.BlockHeight()", "h", "Z"},
			{"f.VerifyProof(proofData, proof.ChunkToProve, item)", "verified", "bool"}},
		StmtEvents: []gfEffect{{Match: "this never matches", Tag: "unused"}}},
	// ---- x/storage/keeper/msg_server_postproof.go: the whole handler (C01, C17)
	{Group: "gowindows", Pkg: "x/storage/keeper", Recv: "msgServer", Name: "PostProof", Coq: "gen_PostProof", RespField: "Success",
		Inputs: []gfInput{{"found", "found", "bool"}, {"len(file.Proofs)", "nproofs", "Z"}, {"file.MaxProofs", "maxp", "Z"},
			{"getprover_ok", "getprover_ok", "bool"}, {"file.ContainsProver(prover)", "listed", "bool"},
			{"msg.ToProve", "to_prove", "Z"}, {"proof.ChunkToProve", "challenge", "Z"},
			{"file.Start", "start", "Z"}, {"file.ProofInterval", "pi", "Z"}, {"ctx.BlockHeight()", "h", "Z"}, {"proof.LastProven", "last", "Z"},
			{"file.FileSize", "size", "Z"}, {"k.GetParams(ctx).ChunkSize", "chunk", "Z"}, {"r.Int63n(pieces)", "draw", "Z"},
			{"file.VerifyProof(msg.HashList, proof.ChunkToProve, msg.Item)", "verified", "bool"}},
		ReadStmts: []string{`ctx := sdk.UnwrapSDKContext(goCtx)`, `f, found := k.GetFile(ctx, msg.Merkle, msg.Owner, msg.Start)`, `file := &f`, `prover := msg.Creator`,
			`var proof *types.FileProof`, `var err error`, `proof, err = file.GetProver(ctx, k, prover) => err=getprover_ok`},
		Ignore:  append([]string{`^s := fmt\.Sprintf\(`, `^e := fmt\.Errorf\(`, `^e := sdkerrors\.Wrapf\(`, `^ctx\.Logger\(\)\.Debug\(s\)$`, `^proof = &types\.FileProof\{`, `^ctx\.EventManager\(\)\.EmitEvent\(`}, gfLogging...),
		Effects: []gfEffect{{Match: "file.AddProver", Tag: "add-prover"}, {Match: "k.SetProof", Tag: "set-proof"}}},
	// ---- x/storage/keeper/msg_server_init_provider.go: collateral locked and returned (C15)
	{Group: "gocollat", Pkg: "x/storage/keeper", Recv: "msgServer", Name: "InitProvider", Coq: "gen_InitProvider",
		Inputs: []gfInput{{"found", "found", "bool"}, {"params.CollateralPrice", "price", "Z"}, {"creator_ok", "creator_ok", "bool"},
			{"account.String() != msg.Creator", "not_canonical", "bool"}, {"ok_lock", "ok_lock", "bool"}},
		ReadStmts: []string{`ctx := sdk.UnwrapSDKContext(goCtx)`, `_, found := k.GetProviders(ctx, msg.Creator)`, `params := k.GetParams(ctx)`,
			`account, err := sdk.AccAddressFromBech32(msg.Creator) => err=creator_ok`},
		Ignore: append([]string{`^collat := types\.Collateral\{`, `^provider := types\.Providers\{`, `^ctx\.EventManager\(\)\.EmitEvent\(`}, gfLogging...),
		Effects: []gfEffect{{Match: "k.bankKeeper.SendCoinsFromAccountToModule", Tag: "lock-collateral", Args: []string{"coins"}, Fallible: "ok_lock"},
			{Match: "k.SetCollateral", Tag: "record-collateral", Args: []string{"params.CollateralPrice"}}, {Match: "k.SetProviders", Tag: "set-provider"}}},
	{Group: "gocollat", Pkg: "x/storage/keeper", Recv: "msgServer", Name: "ShutdownProvider", Coq: "gen_ShutdownProvider",
		Inputs: []gfInput{{"prov_found", "prov_found", "bool"}, {"coll_found", "coll_found", "bool"}, {"collateral.Amount", "amount", "Z"},
			{"creator_ok", "creator_ok", "bool"}, {"ok_return", "ok_return", "bool"}},
		ReadStmts: []string{`ctx := sdk.UnwrapSDKContext(goCtx)`, `_, found := k.GetProviders(ctx, msg.Creator) => found=prov_found`,
			`collateral, found := k.GetCollateral(ctx, msg.Creator) => found=coll_found`,
			`account, err := sdk.AccAddressFromBech32(msg.Creator) => err=creator_ok`},
		Ignore: append([]string{`^ctx\.EventManager\(\)\.EmitEvent\(`}, gfLogging...),
		Effects: []gfEffect{{Match: "k.bankKeeper.SendCoinsFromModuleToAccount", Tag: "return-collateral", Args: []string{"coins"}, Fallible: "ok_return"},
			{Match: "k.RemoveCollateral", Tag: "remove-collateral"}, {Match: "k.RemoveProviders", Tag: "remove-provider"}}},
	// ---- x/rns/keeper: ownership and escrow (C08, C09).  Coins are opaque here: the events say which stored amount moves
	{Group: "gornsown", Pkg: "x/rns/keeper", Recv: "Keeper", Name: "BuyName", Coq: "gen_BuyName",
		Inputs: []gfInput{{"sender_ok", "sender_ok", "bool"}, {"found", "listed", "bool"}, {"parse_ok", "parse_ok", "bool"}, {"nfound", "name_found", "bool"},
			{"ctx.BlockHeight()", "h", "Z"}, {"name.Expires", "expires", "Z"}, {"name.Value == sender", "own_name", "bool"},
			{"name.Value != sale.Owner", "stale_listing", "bool"}, {"price_ok", "price_ok", "bool"}, {"ok_charge", "ok_charge", "bool"}, {"ok_pay", "ok_pay", "bool"}},
		ReadStmts: []string{`nm = strings.ToLower(nm)`, `buyer, err := sdk.AccAddressFromBech32(sender) => err=sender_ok`, `sale, found := k.GetForsale(ctx, nm)`,
			`n, tld, err := GetNameAndTLD(nm) => err=parse_ok`, `name, nfound := k.GetNames(ctx, n, tld)`, `seller, _ := sdk.AccAddressFromBech32(sale.Owner)`,
			`price, err := sdk.ParseCoinNormalized(sale.Price) => err=price_ok`, `coins := sdk.NewCoins(price)`},
		Ignore: append([]string{`^name\.Data = "\{\}"$`, `^ctx\.EventManager\(\)\.EmitEvent\(`}, gfLogging...),
		Effects: []gfEffect{{Match: "k.bankKeeper.SendCoinsFromAccountToModule", Tag: "buyer-pays-listed-price", Fallible: "ok_charge"},
			{Match: "k.bankKeeper.SendCoinsFromModuleToAccount", Tag: "listed-price-to-listing-owner", Fallible: "ok_pay"},
			{Match: "k.RemoveForsale", Tag: "remove-listing"}, {Match: "name.Value", Tag: "owner-becomes-buyer"}, {Match: "k.SetNames", Tag: "set-name"}}},
	{Group: "gornsown", Pkg: "x/rns/keeper", Recv: "Keeper", Name: "AddBid", Coq: "gen_AddBid",
		Inputs: []gfInput{{"sender_ok", "sender_ok", "bool"}, {"price_ok", "price_ok", "bool"}, {"ok_escrow", "ok_escrow", "bool"}, {"replaced", "replaced", "bool"},
			{"old_price_ok", "old_price_ok", "bool"}, {"ok_refund", "ok_refund", "bool"}},
		ReadStmts: []string{`name = strings.ToLower(name)`, `bidder, err := sdk.AccAddressFromBech32(sender) => err=sender_ok`,
			`price, err := sdk.ParseCoinsNormalized(bid) => err=price_ok`, `index := fmt.Sprintf("%s%s", bidder.String(), name)`, `oldBid, replaced := k.GetBids(ctx, index)`,
			`oldPrice, err := sdk.ParseCoinsNormalized(oldBid.Price) => err=old_price_ok`},
		Ignore: append([]string{`^newBid := types\.Bids\{`}, gfLogging...),
		Effects: []gfEffect{{Match: "k.bankKeeper.SendCoinsFromAccountToModule", Tag: "escrow-new-bid", Fallible: "ok_escrow"},
			{Match: "k.bankKeeper.SendCoinsFromModuleToAccount", Tag: "refund-replaced-bid", Fallible: "ok_refund"}, {Match: "k.SetBids", Tag: "set-bid"}}},
	{Group: "gornsown", Pkg: "x/rns/keeper", Recv: "Keeper", Name: "CancelOneBid", Coq: "gen_CancelOneBid",
		Inputs: []gfInput{{"sender_ok", "sender_ok", "bool"}, {"bidFound", "bid_found", "bool"}, {"price_ok", "price_ok", "bool"}, {"ok_refund", "ok_refund", "bool"}},
		ReadStmts: []string{`name = strings.ToLower(name)`, `bidder, err := sdk.AccAddressFromBech32(sender) => err=sender_ok`,
			`bid, bidFound := k.GetBids(ctx, fmt.Sprintf("%s%s", sender, name))`, `price, err := sdk.ParseCoinsNormalized(bid.Price) => err=price_ok`},
		Ignore:  append([]string{`^ctx\.EventManager\(\)\.EmitEvent\(`}, gfLogging...),
		Effects: []gfEffect{{Match: "k.bankKeeper.SendCoinsFromModuleToAccount", Tag: "refund-bid-to-sender", Fallible: "ok_refund"}, {Match: "k.RemoveBids", Tag: "remove-bid"}}},
	{Group: "gornsown", Pkg: "x/rns/keeper", Recv: "Keeper", Name: "AcceptOneBid", Coq: "gen_AcceptOneBid",
		Inputs: []gfInput{{"sender_ok", "sender_ok", "bool"}, {"parse_ok", "parse_ok", "bool"}, {"isFound", "name_found", "bool"}, {"ctx.BlockHeight()", "h", "Z"},
			{"whois.Expires", "expires", "Z"}, {"whois.Value != owner.String()", "not_owner", "bool"}, {"whois.Locked", "locked", "Z"},
			{"bidFound", "bid_found", "bool"}, {"price_ok", "price_ok", "bool"}, {"ok_pay", "ok_pay", "bool"}},
		ReadStmts: []string{`name = strings.ToLower(name)`, `owner, err := sdk.AccAddressFromBech32(sender) => err=sender_ok`, `n, tld, err := GetNameAndTLD(name) => err=parse_ok`,
			`whois, isFound := k.GetNames(ctx, n, tld)`, `bid, bidFound := k.GetBids(ctx, fmt.Sprintf("%s%s", bidder, name))`,
			`price, err := sdk.ParseCoinsNormalized(bid.Price) => err=price_ok`},
		Ignore: append([]string{`^whois\.Data = "\{\}"$`, `^ctx\.EventManager\(\)\.EmitEvent\(`}, gfLogging...),
		Effects: []gfEffect{{Match: "k.bankKeeper.SendCoinsFromModuleToAccount", Tag: "bid-to-signer", Fallible: "ok_pay"}, {Match: "k.RemoveBids", Tag: "remove-bid"},
			{Match: "whois.Value", Tag: "owner-becomes-bidder"}, {Match: "k.SetNames", Tag: "set-name"}}},
	{Group: "gornsown", Pkg: "x/rns/keeper", Recv: "Keeper", Name: "TransferName", Coq: "gen_TransferName",
		Inputs: []gfInput{{"sender_ok", "sender_ok", "bool"}, {"parse_ok", "parse_ok", "bool"}, {"isFound", "name_found", "bool"}, {"ctx.BlockHeight()", "h", "Z"},
			{"whois.Expires", "expires", "Z"}, {"admin != sender.String()", "not_owner", "bool"}, {"whois.Locked", "locked", "Z"}},
		ReadStmts: []string{`name = strings.ToLower(name)`, `sender, err := sdk.AccAddressFromBech32(creator) => err=sender_ok`, `name, tld, err := GetNameAndTLD(name) => err=parse_ok`,
			`whois, isFound := k.GetNames(ctx, name, tld)`, `admin := whois.Value`},
		Ignore:  append([]string{`^whois\.Data = "\{\}"$`, `^ctx\.EventManager\(\)\.EmitEvent\(`}, gfLogging...),
		Effects: []gfEffect{{Match: "whois.Value", Tag: "owner-becomes-receiver"}, {Match: "k.SetNames", Tag: "set-name"}}},
	// ---- x/rns/keeper: a name's data and records change only by its owner, while the name is live (C08)
	{Group: "gornsown", Pkg: "x/rns/keeper", Recv: "Keeper", Name: "UpdateName", Coq: "gen_UpdateName",
		Inputs: []gfInput{{"parse_ok", "parse_ok", "bool"}, {"isFound", "name_found", "bool"}, {"sender_ok", "sender_ok", "bool"}, {"whois.Value != owner.String()", "not_owner", "bool"},
			{"ctx.BlockHeight()", "h", "Z"}, {"whois.Expires", "expires", "Z"}},
		ReadStmts: []string{`nm = strings.ToLower(nm)`, `name, tld, err := GetNameAndTLD(nm) => err=parse_ok`, `whois, isFound := k.GetNames(ctx, name, tld)`,
			`owner, err := sdk.AccAddressFromBech32(sender) => err=sender_ok`},
		Ignore:  append([]string{`^ctx\.EventManager\(\)\.EmitEvent\(`}, gfLogging...),
		Effects: []gfEffect{{Match: "whois.Data", Tag: "data-becomes-the-message's"}, {Match: "k.SetNames", Tag: "set-name"}}},
	{Group: "gornsown", Pkg: "x/rns/keeper", Recv: "msgServer", Name: "AddRecord", Coq: "gen_AddRecord",
		Inputs: []gfInput{{"parse_ok", "parse_ok", "bool"}, {"isFound", "name_found", "bool"}, {"ctx.BlockHeight()", "h", "Z"}, {"whois.Expires", "expires", "Z"},
			{"msg.Creator != whois.Value", "not_owner", "bool"}, {`strings.Contains(msg.Value, ".")`, "value_has_dot", "bool"}, {"label_taken", "label_taken", "bool"}},
		ReadStmts: []string{`ctx := sdk.UnwrapSDKContext(goCtx)`, `mname := strings.ToLower(msg.Name)`, `name, tld, err := GetNameAndTLD(mname) => err=parse_ok`,
			`whois, isFound := k.GetNames(ctx, name, tld)`,
			`for _, sd := range whois.Subdomains { if sd.Name == msg.Record { return nil, sdkerrors.Wrap(sdkerrors.ErrInvalidType, "Subdomain already exists") } } => !fails_when=label_taken`},
		Ignore:  append([]string{`^if whois\.Subdomains == nil \{`, `^record := types\.Names\{`, `^ctx\.EventManager\(\)\.EmitEvent\(`}, gfLogging...),
		Effects: []gfEffect{{Match: "whois.Subdomains", Tag: "append-record"}, {Match: "k.SetNames", Tag: "set-name"}}},
	{Group: "gornsown", Pkg: "x/rns/keeper", Recv: "msgServer", Name: "DelRecord", Coq: "gen_DelRecord",
		Inputs: []gfInput{{"parse_ok", "parse_ok", "bool"}, {"hasSub", "has_sub", "bool"}, {"found", "name_found", "bool"}, {"ctx.BlockHeight()", "h", "Z"}, {"val.Expires", "expires", "Z"},
			{"msg.Creator != val.Value", "not_owner", "bool"}, {"record_present", "record_present", "bool"}},
		ReadStmts: []string{`ctx := sdk.UnwrapSDKContext(goCtx)`, `mname := strings.ToLower(msg.Name)`, `n, tld, err := GetNameAndTLD(mname) => err=parse_ok`,
			`sub, n, hasSub := GetSubdomain(n)`, `val, found := k.GetNames(ctx, n, tld)`, `dms := []*types.Names{}`,
			`for _, domain := range val.Subdomains { if domain.Name != sub { dms = append(dms, domain) continue } removed = true } => removed=record_present`},
		Ignore:  append([]string{`^ctx\.EventManager\(\)\.EmitEvent\(`}, gfLogging...),
		Effects: []gfEffect{{Match: "val.Subdomains", Tag: "records-without-the-label"}, {Match: "k.SetNames", Tag: "set-name"}}},
	// ---- x/filetree/keeper: the authorisation skeleton of every handler (C10).  Strings are opaque: the events say what is written
	{Group: "gofiletree", Pkg: "x/filetree/keeper", Recv: "msgServer", Name: "DeleteFile", Coq: "gen_DeleteFile",
		Inputs:    []gfInput{{"found", "found", "bool"}, {"isOwner", "is_owner", "bool"}},
		ReadStmts: []string{`ctx := sdk.UnwrapSDKContext(goCtx)`, `ownerAddress := MakeOwnerAddress(msg.HashPath, msg.Account)`, `file, found := k.GetFiles(ctx, msg.HashPath, ownerAddress)`, `isOwner := IsOwner(file, msg.Creator)`},
		Ignore:    append([]string{`^ctx\.EventManager\(\)\.EmitEvent\(`}, gfLogging...),
		Effects:   []gfEffect{{Match: "k.RemoveFiles", Tag: "remove-entry"}}},
	{Group: "gofiletree", Pkg: "x/filetree/keeper", Recv: "msgServer", Name: "ChangeOwner", Coq: "gen_ChangeOwner",
		Inputs: []gfInput{{"found", "found", "bool"}, {"isOwner", "is_owner", "bool"}, {"fnd", "target_exists", "bool"}},
		ReadStmts: []string{`ctx := sdk.UnwrapSDKContext(goCtx)`, `currentOwner := MakeOwnerAddress(msg.Address, msg.FileOwner)`, `file, found := k.GetFiles(ctx, msg.Address, currentOwner)`,
			`isOwner := IsOwner(file, msg.Creator)`, `newOwner := MakeOwnerAddress(msg.Address, msg.NewOwner)`, `_, fnd := k.GetFiles(ctx, msg.Address, newOwner)`},
		Ignore:  append([]string{`^ctx\.EventManager\(\)\.EmitEvent\(`}, gfLogging...),
		Effects: []gfEffect{{Match: "file.Owner", Tag: "owner-becomes-new-owner"}, {Match: "k.SetFiles", Tag: "set-entry"}, {Match: "k.RemoveFiles", Tag: "remove-old-entry"}}},
	{Group: "gofiletree", Pkg: "x/filetree/keeper", Recv: "msgServer", Name: "PostFile", Coq: "gen_FtPostFile",
		Inputs: []gfInput{{"found", "parent_found", "bool"}, {"hasEdit", "has_edit", "bool"}, {"access_ok", "access_ok", "bool"}},
		ReadStmts: []string{`ctx := sdk.UnwrapSDKContext(goCtx)`, `parentOwnerString := MakeOwnerAddress(msg.HashParent, msg.Account)`, `parentFile, found := k.GetFiles(ctx, msg.HashParent, parentOwnerString)`,
			`hasEdit, err := HasEditAccess(parentFile, msg.Creator) => err=access_ok`, `fullMerklePath := types.AddToMerkle(msg.HashParent, msg.HashChild)`, `owner := MakeOwnerAddress(fullMerklePath, msg.Account)`},
		Ignore:  append([]string{`^file := types\.Files\{`, `^ctx\.EventManager\(\)\.EmitEvent\(`}, gfLogging...),
		Effects: []gfEffect{{Match: "k.SetFiles", Tag: "set-entry-under-parent"}}},
	{Group: "gofiletree", Pkg: "x/filetree/keeper", Recv: "msgServer", Name: "AddViewers", Coq: "gen_AddViewers",
		Inputs:     []gfInput{{"found", "found", "bool"}, {"isOwner", "is_owner", "bool"}, {"parse_ok", "parse_ok", "bool"}, {"marshal_ok", "marshal_ok", "bool"}},
		ReadStmts:  []string{`ctx := sdk.UnwrapSDKContext(goCtx)`, `file, found := k.GetFiles(ctx, msg.Address, msg.FileOwner)`, `isOwner := IsOwner(file, msg.Creator)`, `pvacc := file.ViewingAccess`, `jvacc := make(map[string]string)`, `err := json.Unmarshal([]byte(pvacc), &jvacc) => err=parse_ok`, `ids := strings.Split(msg.ViewerIds, ",")`, `keys := strings.Split(msg.ViewerKeys, ",")`, `vaccbytes, err := json.Marshal(jvacc) => err=marshal_ok`, `newviewers := string(vaccbytes)`},
		Ignore:     append([]string{`^ctx\.EventManager\(\)\.EmitEvent\(`}, gfLogging...),
		StmtEvents: []gfEffect{{Match: "for i, v := range ids", Tag: "merge-ids-into-list"}},
		Effects:    []gfEffect{{Match: "file.ViewingAccess", Tag: "set-list"}, {Match: "k.SetFiles", Tag: "set-file"}}},
	{Group: "gofiletree", Pkg: "x/filetree/keeper", Recv: "msgServer", Name: "AddEditors", Coq: "gen_AddEditors",
		Inputs:     []gfInput{{"found", "found", "bool"}, {"isOwner", "is_owner", "bool"}, {"parse_ok", "parse_ok", "bool"}, {"marshal_ok", "marshal_ok", "bool"}},
		ReadStmts:  []string{`ctx := sdk.UnwrapSDKContext(goCtx)`, `file, found := k.GetFiles(ctx, msg.Address, msg.FileOwner)`, `isOwner := IsOwner(file, msg.Creator)`, `peacc := file.EditAccess`, `jeacc := make(map[string]string)`, `err := json.Unmarshal([]byte(peacc), &jeacc) => err=parse_ok`, `ids := strings.Split(msg.EditorIds, ",")`, `keys := strings.Split(msg.EditorKeys, ",")`, `eaccbytes, err := json.Marshal(jeacc) => err=marshal_ok`, `newEditors := string(eaccbytes)`},
		Ignore:     append([]string{`^ctx\.EventManager\(\)\.EmitEvent\(`}, gfLogging...),
		StmtEvents: []gfEffect{{Match: "for i, v := range ids", Tag: "merge-ids-into-list"}},
		Effects:    []gfEffect{{Match: "file.EditAccess", Tag: "set-list"}, {Match: "k.SetFiles", Tag: "set-file"}}},
	{Group: "gofiletree", Pkg: "x/filetree/keeper", Recv: "msgServer", Name: "RemoveViewers", Coq: "gen_RemoveViewers",
		Inputs:     []gfInput{{"found", "found", "bool"}, {"isOwner", "is_owner", "bool"}, {"parse_ok", "parse_ok", "bool"}, {"marshal_ok", "marshal_ok", "bool"}},
		ReadStmts:  []string{`ctx := sdk.UnwrapSDKContext(goCtx)`, `file, found := k.GetFiles(ctx, msg.Address, msg.FileOwner)`, `isOwner := IsOwner(file, msg.Creator)`, `pvacc := file.ViewingAccess`, `jvacc := make(map[string]string)`, `err := json.Unmarshal([]byte(pvacc), &jvacc) => err=parse_ok`, `ids := strings.Split(msg.ViewerIds, ",")`, `vaccbytes, err := json.Marshal(jvacc) => err=marshal_ok`, `newviewers := string(vaccbytes)`},
		Ignore:     append([]string{`^ctx\.EventManager\(\)\.EmitEvent\(`}, gfLogging...),
		StmtEvents: []gfEffect{{Match: "for _, v := range ids", Tag: "delete-ids-from-list"}},
		Effects:    []gfEffect{{Match: "file.ViewingAccess", Tag: "set-list"}, {Match: "k.SetFiles", Tag: "set-file"}}},
	{Group: "gofiletree", Pkg: "x/filetree/keeper", Recv: "msgServer", Name: "RemoveEditors", Coq: "gen_RemoveEditors",
		Inputs:     []gfInput{{"found", "found", "bool"}, {"isOwner", "is_owner", "bool"}, {"parse_ok", "parse_ok", "bool"}, {"marshal_ok", "marshal_ok", "bool"}},
		ReadStmts:  []string{`ctx := sdk.UnwrapSDKContext(goCtx)`, `file, found := k.GetFiles(ctx, msg.Address, msg.FileOwner)`, `isOwner := IsOwner(file, msg.Creator)`, `peacc := file.EditAccess`, `jeacc := make(map[string]string)`, `err := json.Unmarshal([]byte(peacc), &jeacc) => err=parse_ok`, `ids := strings.Split(msg.EditorIds, ",")`, `eaccbytes, err := json.Marshal(jeacc) => err=marshal_ok`, `newEditors := string(eaccbytes)`},
		Ignore:     append([]string{`^ctx\.EventManager\(\)\.EmitEvent\(`}, gfLogging...),
		StmtEvents: []gfEffect{{Match: "for _, v := range ids", Tag: "delete-ids-from-list"}},
		Effects:    []gfEffect{{Match: "file.EditAccess", Tag: "set-list"}, {Match: "k.SetFiles", Tag: "set-file"}}},
	{Group: "gofiletree", Pkg: "x/filetree/keeper", Recv: "msgServer", Name: "ResetViewers", Coq: "gen_ResetViewers",
		Inputs:     []gfInput{{"found", "found", "bool"}, {"isOwner", "is_owner", "bool"}, {"parse_ok", "parse_ok", "bool"}, {"marshal_ok", "marshal_ok", "bool"}},
		ReadStmts:  []string{`ctx := sdk.UnwrapSDKContext(goCtx)`, `file, found := k.GetFiles(ctx, msg.Address, msg.FileOwner)`, `isOwner := IsOwner(file, msg.Creator)`, `pvacc := file.ViewingAccess`, `jvacc := make(map[string]string)`, `err := json.Unmarshal([]byte(pvacc), &jvacc) => err=parse_ok`, `ownerViewerAddress := MakeViewerAddress(file.TrackingNumber, msg.Creator)`, `ownerKey := jvacc[ownerViewerAddress]`, `resetViewers := make(map[string]string)`, `vaccbytes, err := json.Marshal(resetViewers) => err=marshal_ok`, `newViewers := string(vaccbytes)`},
		Ignore:     append([]string{`^ctx\.EventManager\(\)\.EmitEvent\(`}, gfLogging...),
		StmtEvents: []gfEffect{{Match: "resetViewers[ownerViewerAddress] = ownerKey", Tag: "list-becomes-the-signers-own-entry"}},
		Effects:    []gfEffect{{Match: "file.ViewingAccess", Tag: "set-list"}, {Match: "k.SetFiles", Tag: "set-file"}}},
	{Group: "gofiletree", Pkg: "x/filetree/keeper", Recv: "msgServer", Name: "ResetEditors", Coq: "gen_ResetEditors",
		Inputs:     []gfInput{{"found", "found", "bool"}, {"isOwner", "is_owner", "bool"}, {"parse_ok", "parse_ok", "bool"}, {"marshal_ok", "marshal_ok", "bool"}},
		ReadStmts:  []string{`ctx := sdk.UnwrapSDKContext(goCtx)`, `file, found := k.GetFiles(ctx, msg.Address, msg.FileOwner)`, `isOwner := IsOwner(file, msg.Creator)`, `peacc := file.EditAccess`, `jeacc := make(map[string]string)`, `err := json.Unmarshal([]byte(peacc), &jeacc) => err=parse_ok`, `ownerEditorAddress := MakeEditorAddress(file.TrackingNumber, msg.Creator)`, `ownerKey := jeacc[ownerEditorAddress]`, `resetEditors := make(map[string]string)`, `eaccbytes, err := json.Marshal(resetEditors) => err=marshal_ok`, `newEditors := string(eaccbytes)`},
		Ignore:     append([]string{`^ctx\.EventManager\(\)\.EmitEvent\(`}, gfLogging...),
		StmtEvents: []gfEffect{{Match: "resetEditors[ownerEditorAddress] = ownerKey", Tag: "list-becomes-the-signers-own-entry"}},
		Effects:    []gfEffect{{Match: "file.EditAccess", Tag: "set-list"}, {Match: "k.SetFiles", Tag: "set-file"}}},
	// ---- x/storage/keeper/files.go: removing a file hands its footprint back to the plan that paid for it (C07)
	{Group: "goprice", Pkg: "x/storage/keeper", Recv: "Keeper", Name: "RemoveFile", Coq: "gen_RemoveFile",
		Inputs: []gfInput{{"file_found", "file_found", "bool"}, {"file.Expires", "expires", "Z"}, {"file.FileSize", "size", "Z"}, {"file.MaxProofs", "maxp", "Z"},
			{"plan_found", "plan_found", "bool"}, {"used", "used", "Z"}, {"start", "start", "Z"}},
		FieldVars:  []gfInput{{"payInfo.SpaceUsed", "used", "Z"}},
		ReadStmts:  []string{`file, found := k.GetFile(ctx, merkle, owner, start) => found=file_found`, `payInfo, found := k.GetStoragePaymentInfo(ctx, file.Owner) => found=plan_found`},
		StmtEvents: []gfEffect{{Match: "for _, proof := range file.Proofs", Tag: "remove-proof-records"}},
		Effects: []gfEffect{{Match: "k.SetStoragePaymentInfo", Tag: "set-plan-used", Args: []string{"payInfo.SpaceUsed"}},
			{Match: "k.removeFilePrimary", Tag: "remove-file-primary"}, {Match: "k.removeFileSecondary", Tag: "remove-file-secondary"}}},
	// ---- x/rns/keeper: listing and delisting (C08: who may list, whose listing may be withdrawn)
	{Group: "gornsown", Pkg: "x/rns/keeper", Recv: "msgServer", Name: "List", Coq: "gen_List",
		Inputs: []gfInput{{"found", "listed", "bool"}, {"parse_ok", "parse_ok", "bool"}, {"nfound", "name_found", "bool"}, {"name.Value != msg.Creator", "not_owner", "bool"},
			{"ctx.BlockHeight()", "h", "Z"}, {"name.Locked", "locked", "Z"}, {"name.Expires", "expires", "Z"}},
		ReadStmts: []string{`ctx := sdk.UnwrapSDKContext(goCtx)`, `mname := strings.ToLower(msg.Name)`, `_, found := k.GetForsale(ctx, mname)`,
			`n, tld, err := GetNameAndTLD(mname) => err=parse_ok`, `name, nfound := k.GetNames(ctx, n, tld)`},
		Ignore:  append([]string{`^newsale := types\.Forsale\{`, `^ctx\.EventManager\(\)\.EmitEvent\(`}, gfLogging...),
		Effects: []gfEffect{{Match: "k.SetForsale", Tag: "set-listing"}}},
	{Group: "gornsown", Pkg: "x/rns/keeper", Recv: "msgServer", Name: "Delist", Coq: "gen_Delist",
		Inputs: []gfInput{{"found", "listed", "bool"}, {"parse_ok", "parse_ok", "bool"}, {"nfound", "name_found", "bool"}, {"sale.Owner != msg.Creator", "not_lister", "bool"},
			{"name.Value != sale.Owner", "stale_listing", "bool"}},
		ReadStmts: []string{`ctx := sdk.UnwrapSDKContext(goCtx)`, `mname := strings.ToLower(msg.Name)`, `sale, found := k.GetForsale(ctx, mname)`,
			`n, tld, err := GetNameAndTLD(mname) => err=parse_ok`, `name, nfound := k.GetNames(ctx, n, tld)`},
		Ignore:  append([]string{`^ctx\.EventManager\(\)\.EmitEvent\(`}, gfLogging...),
		Effects: []gfEffect{{Match: "k.RemoveForsale", Tag: "remove-listing"}}},
	// ---- x/notifications/keeper: when a notification is stored (C18)
	{Group: "gonotif", Pkg: "x/notifications/keeper", Recv: "msgServer", Name: "CreateNotification", Coq: "gen_CreateNotification",
		Inputs: []gfInput{{"json.Valid([]byte(msg.Contents))", "json_ok", "bool"}, {"resolve_ok", "resolve_ok", "bool"}, {"k.IsBlocked(ctx, address.String(), sender)", "blocked", "bool"},
			{"found", "slot_taken", "bool"}},
		ReadStmts: []string{`ctx := sdk.UnwrapSDKContext(goCtx)`, `sender := msg.Creator`,
			`if senderAddress, err := sdk.AccAddressFromBech32(msg.Creator); err == nil { sender = senderAddress.String() }`, `owner := msg.To`,
			`address, err := k.rns.Resolve(ctx, owner) => err=resolve_ok`, `_, found := k.GetNotification(ctx, noti.To, noti.From, noti.Time)`},
		Ignore:  append([]string{`^noti := types\.Notification\{`, `^ctx\.EventManager\(\)\.EmitEvent\(`}, gfLogging...),
		Effects: []gfEffect{{Match: "k.SetNotification", Tag: "store-notification"}}},
	// ---- x/notifications/keeper: deleting from one's own inbox, blocking senders (C18, C11)
	{Group: "gonotif", Pkg: "x/notifications/keeper", Recv: "msgServer", Name: "DeleteNotification", Coq: "gen_DeleteNotification",
		ReadStmts: []string{`ctx := sdk.UnwrapSDKContext(goCtx)`, `owner := msg.Creator`,
			`if ownerAddress, err := sdk.AccAddressFromBech32(msg.Creator); err == nil { owner = ownerAddress.String() }`},
		Ignore:  append([]string{`^ctx\.EventManager\(\)\.EmitEvent\(`}, gfLogging...),
		Effects: []gfEffect{{Match: "k.RemoveNotification", Tag: "remove-from-own-inbox"}}},
	{Group: "gonotif", Pkg: "x/notifications/keeper", Recv: "msgServer", Name: "BlockSenders", Coq: "gen_BlockOne",
		Path: []string{"range:msg.ToBlock"}, UnitExits: true,
		Inputs:    []gfInput{{"resolve_ok", "resolve_ok", "bool"}},
		ReadStmts: []string{`address, err := k.rns.Resolve(ctx, toBlock) => err=resolve_ok`},
		Ignore:    []string{`^b := types\.Block\{`},
		Effects:   []gfEffect{{Match: "k.SetBlock", Tag: "block-in-own-list"}}},
	// ---- x/oracle/keeper: a feed is written by CreateFeed under a free name, afterwards only by its owner (C11)
	{Group: "gooracle", Pkg: "x/oracle/keeper", Recv: "msgServer", Name: "CreateFeed", Coq: "gen_CreateFeed",
		Inputs: []gfInput{{"found", "name_taken", "bool"}, {"creator_ok", "creator_ok", "bool"}, {"ok_charge", "ok_charge", "bool"}, {"deposit_ok", "deposit_ok", "bool"}, {"ok_forward", "ok_forward", "bool"}},
		ReadStmts: []string{`ctx := sdk.UnwrapSDKContext(goCtx)`, `_, found := k.GetFeed(ctx, msg.Name)`, `add, err := sdk.AccAddressFromBech32(msg.Creator) => err=creator_ok`,
			`c := sdk.NewInt64Coin("ujkl", 100*1000000)`, `cs := sdk.NewCoins(c)`, `depo, err := sdk.AccAddressFromBech32(k.GetParams(ctx).Deposit) => err=deposit_ok`},
		Ignore: []string{`^feed := types\.Feed\{`},
		Effects: []gfEffect{{Match: "k.bankKeeper.SendCoinsFromAccountToModule", Tag: "charge-deposit", Fallible: "ok_charge"},
			{Match: "k.bankKeeper.SendCoinsFromModuleToAccount", Tag: "forward-deposit", Fallible: "ok_forward"}, {Match: "k.SetFeed", Tag: "store-feed"}}},
	{Group: "gooracle", Pkg: "x/oracle/keeper", Recv: "msgServer", Name: "UpdateFeed", Coq: "gen_UpdateFeed",
		Inputs:    []gfInput{{"found", "found", "bool"}, {"feed.Owner != msg.Creator", "not_owner", "bool"}},
		ReadStmts: []string{`ctx := sdk.UnwrapSDKContext(goCtx)`, `feed, found := k.GetFeed(ctx, msg.Name)`},
		Effects:   []gfEffect{{Match: "feed.Data", Tag: "set-data"}, {Match: "feed.LastUpdate", Tag: "set-time"}, {Match: "k.SetFeed", Tag: "store-feed"}}},
	// ---- x/storage/keeper: signatures on attestation and report forms (C14, C01).  The loop that marks the signer and
	// counts the completed entries is a read: whether the signer is named on the form, and the count after marking
	{Group: "goforms", Pkg: "x/storage/keeper", Recv: "Keeper", Name: "Attest", Coq: "gen_Attest",
		Inputs: []gfInput{{"form_found", "form_found", "bool"}, {"named", "named", "bool"}, {"count_after", "count", "Z"}, {"k.GetParams(ctx).AttestMinToPass", "min", "Z"},
			{"file_found", "file_found", "bool"}, {"prover_ok", "prover_ok", "bool"}, {"ctx.BlockHeight()", "h", "Z"}, {"start", "start", "Z"}},
		ReadStmts: []string{`form, found := k.GetAttestationForm(ctx, prover, merkle, owner, start) => found=form_found`, `attestations := form.Attestations`,
			`for _, attestation := range attestations { if attestation.Provider == creator { attestation.Complete = true done = true } if attestation.Complete { count++ } } => done=named,count=count_after`,
			`deal, found := k.GetFile(ctx, form.Merkle, form.Owner, form.Start) => found=file_found`, `proof, err := deal.GetProver(ctx, k, form.Prover) => err=prover_ok`},
		Ignore: append([]string{`^ctx\.EventManager\(\)\.EmitEvent\(`}, gfLogging...),
		Effects: []gfEffect{{Match: "form.Attestations", Tag: "marks-onto-form"}, {Match: "k.SetAttestationForm", Tag: "store-form"},
			{Match: "proof.LastProven", Tag: "refresh-last-proven", Args: []string{"$rhs"}}, {Match: "k.SetProof", Tag: "set-proof"}, {Match: "k.RemoveAttestation", Tag: "consume-form"}}},
	{Group: "goforms", Pkg: "x/storage/keeper", Recv: "Keeper", Name: "DoReport", Coq: "gen_DoReport",
		Inputs: []gfInput{{"form_found", "form_found", "bool"}, {"named", "named", "bool"}, {"count_after", "count", "Z"}, {"k.GetParams(ctx).AttestMinToPass", "min", "Z"},
			{"file_found", "file_found", "bool"}, {"start", "start", "Z"}},
		ReadStmts: []string{`form, found := k.GetReportForm(ctx, prover, merkle, owner, start) => found=form_found`, `attestations := form.Attestations`,
			`for _, attestation := range attestations { if attestation.Provider == creator { attestation.Complete = true done = true } if attestation.Complete { count++ } } => done=named,count=count_after`,
			`deal, found := k.GetFile(ctx, merkle, owner, start) => found=file_found`},
		Ignore: gfLogging,
		Effects: []gfEffect{{Match: "form.Attestations", Tag: "marks-onto-form"}, {Match: "k.SetReportForm", Tag: "store-form"},
			{Match: "k.RemoveReport", Tag: "consume-form"}, {Match: "deal.RemoveProver", Tag: "remove-prover"}}},
	// ---- x/jklmint: the emission schedule and the split (C13, C05)
	{Group: "gomint", Pkg: "x/jklmint/utils", Name: "int64ToDec", Coq: "gen_int64ToDec", Inputs: []gfInput{{"i", "i", "Z"}}},
	{Group: "gomint", Pkg: "x/jklmint/utils", Name: "GetMintForBlock", Coq: "gen_GetMintForBlock",
		Inputs: []gfInput{{"mintedLastBlock", "prev", "Z"}, {"blocksPerYear", "blocks", "Z"}, {"mintDecrease", "decrease", "Z"}}},
	{Group: "gomint", Pkg: "x/jklmint/keeper", Recv: "Keeper", Name: "mintStaker", Coq: "gen_mintStaker",
		Inputs:  []gfInput{{"mintTokens", "e", "Z"}, {"params.StakerRatio", "ratio", "Z"}, {"ok_fees", "ok_fees", "bool"}},
		Effects: []gfEffect{{Match: "k.AddCollectedFees", Tag: "to-stakers", Args: []string{"stakerCoins"}, Fallible: "ok_fees"}}},
	{Group: "gomint", Pkg: "x/jklmint/keeper", Recv: "Keeper", Name: "mintStorageProviderStipend", Coq: "gen_mintStipend",
		Inputs:  []gfInput{{"mintTokens", "e", "Z"}, {"params.StorageProviderRatio", "ratio", "Z"}, {"ok_send", "ok_send", "bool"}},
		Effects: []gfEffect{{Match: "k.send", Tag: "to-stipend", Args: []string{"provTokens"}, Fallible: "ok_send"}}},
	{Group: "gomint", Pkg: "x/jklmint/keeper", Recv: "Keeper", Name: "BlockMint", Coq: "gen_BlockMint",
		Inputs: []gfInput{{"params.TokensPerBlock", "tpb", "Z"}, {"params.MintDecrease", "decrease", "Z"}, {"found", "found", "bool"}, {"minted.Minted", "last", "Z"},
			{"ok_mint", "ok_mint", "bool"}, {"ok_staker", "ok_staker", "bool"}, {"ok_dev", "ok_dev", "bool"}, {"ok_stipend", "ok_stipend", "bool"}},
		ReadStmts: []string{`params := k.GetParams(ctx)`, `minted, found := k.GetMintedBlock(ctx, ctx.BlockHeight()-1)`,
			`denom := k.GetParams(ctx).MintDenom`, `if denom == "" { denom = "ujkl" }`},
		Ignore: append([]string{`^defer telemetry\.`, `^ctx\.EventManager\(\)\.EmitEvent\(`}, gfLogging...),
		Effects: []gfEffect{{Match: "k.MintCoins", Tag: "mint", Args: []string{"coins"}, Fallible: "ok_mint"},
			{Match: "k.mintStaker", Tag: "staker-share-of", Args: []string{"mintTokens"}, Fallible: "ok_staker"},
			{Match: "k.mintDevGrants", Tag: "dev-share-of", Args: []string{"mintTokens"}, Fallible: "ok_dev"},
			{Match: "k.mintStorageProviderStipend", Tag: "stipend-share-of", Args: []string{"mintTokens"}, Fallible: "ok_stipend"},
			{Match: "k.SetMintedBlock", Tag: "record-emission", Args: []string{"newMintForBlock"}}}},
	// ---- x/storage/keeper/utils.go: the two price functions (C04)
	{Group: "goprice", Pkg: "x/storage/keeper", Recv: "Keeper", Name: "GetStorageCostKbsWithPrice", Coq: "gen_GetStorageCostKbsWithPrice",
		Inputs: []gfInput{{"pricePerTBMonth", "ppt", "Z"}, {"k.GetJklPrice(ctx)", "jkl", "Z"}, {"kbs", "kbs", "Z"}, {"hours", "hours", "Z"}}},
	{Group: "goprice", Pkg: "x/storage/keeper", Recv: "Keeper", Name: "GetStorageCost", Coq: "gen_GetStorageCost",
		Inputs: []gfInput{{"k.GetParams(ctx).PricePerTbPerMonth", "ppt", "Z"}, {"k.GetJklPrice(ctx)", "jkl", "Z"}, {"gbs", "gbs", "Z"}, {"hours", "hours", "Z"}}},
	{Group: "goprice", Pkg: "x/storage/keeper", Recv: "Keeper", Name: "GetStorageCostKbs", Coq: "gen_GetStorageCostKbs",
		Inputs: []gfInput{{"k.GetParams(ctx).PricePerTbPerMonth", "ppt", "Z"}, {"k.GetJklPrice(ctx)", "jkl", "Z"}, {"kbs", "kbs", "Z"}, {"hours", "hours", "Z"}}},
	// ---- x/storage/keeper/msg_server_post_file.go: the whole handler (C04 pay-once branch, C07 plan branch)
	{Group: "goprice", Pkg: "x/storage/keeper", Recv: "msgServer", Name: "PostFile", Coq: "gen_PostFile",
		Inputs: []gfInput{{"json.Valid([]byte(msg.Note))", "note_ok", "bool"}, {"k.GetParams(ctx).ProofWindow", "window", "Z"}, {"ctx.BlockHeight()", "h", "Z"},
			{"msg.FileSize", "size", "Z"}, {"msg.MaxProofs", "maxp", "Z"}, {"msg.Expires", "expires", "Z"},
			{"k.GetParams(ctx).PricePerTbPerMonth", "ppt", "Z"}, {"k.GetJklPrice(ctx)", "jkl", "Z"},
			{"params.ReferralCommission", "refc", "Z"}, {"params.PolRatio", "polr", "Z"},
			{"creator_ok", "creator_ok", "bool"}, {"gauge_acc_ok", "gauge_acc_ok", "bool"}, {"ok_charge", "ok_charge", "bool"}, {"ok_fund", "ok_fund", "bool"},
			{"found", "found", "bool"}, {"paymentInfo.End.Before(ctx.BlockTime())", "plan_over", "bool"},
			{"paymentInfo.SpaceAvailable", "avail", "Z"}, {"paymentInfo.SpaceUsed", "used", "Z"}},
		ReadStmts: []string{`ctx := sdk.UnwrapSDKContext(goCtx)`, `params := k.GetParams(ctx)`, `if msg.Expires > 0 { b = True }`,
			`end := ctx.BlockTime().AddDate(0, 0, int(days))`,
			`addr, err := sdk.AccAddressFromBech32(msg.Creator) => err=creator_ok`, `acc, err := types.GetGaugeAccount(gauge) => err=gauge_acc_ok`,
			`paymentInfo, found := k.GetStoragePaymentInfo(ctx, msg.Creator)`},
		Ignore: append([]string{`^file := types\.UnifiedFile\{`, `^ips := make\(`, `^res := &types\.MsgPostFileResponse\{`, `^b := False$`, `^ctx\.EventManager\(\)\.EmitEvent\(`}, gfLogging...),
		Effects: []gfEffect{{Match: "k.RemoveFile", Tag: "remove-file-under-this-key"},
			{Match: "k.SetFile", Tag: "set-file", Args: []string{"msg.FileSize", "msg.MaxProofs", "msg.Expires", "window"}},
			{Match: "k.NewGauge", Tag: "new-gauge", Args: []string{"spcTokens"}},
			{Match: "k.bankKeeper.SendCoinsFromAccountToModule", Tag: "charge-creator", Args: []string{"toPay"}, Fallible: "ok_charge"},
			{Match: "k.bankKeeper.SendCoinsFromModuleToAccount", Tag: "fund-gauge", Args: []string{"spcTokens"}, Fallible: "ok_fund"},
			{Match: "paymentInfo.SpaceUsed", Tag: "plan-used-add", Args: []string{"$rhs"}},
			{Match: "k.SetStoragePaymentInfo", Tag: "set-plan"}}},
	// ---- x/storage/keeper/msg_server_buy_storage.go: the whole purchase (C04)
	{Group: "goprice", Pkg: "x/storage/keeper", Name: "validateBuy", Coq: "gen_validateBuy",
		Inputs: []gfInput{{"days", "days", "Z"}, {"bytesIn", "bytes_in", "Z"}, {"denomIn != \"ujkl\"", "not_ujkl", "bool"}}},
	{Group: "goprice", Pkg: "x/storage/keeper", Recv: "Keeper", Name: "UpgradeStorage", Coq: "gen_UpgradeStorage",
		Inputs: []gfInput{{"bytes", "bytes", "Z"}, {"duration", "duration", "Z"}, {"storageCost", "cost", "Z"},
			{"payInfo.End", "plan_end", "Z"}, {"ctx.BlockTime()", "now", "Z"}, {"payInfo.SpaceAvailable", "plan_avail", "Z"}, {"payInfo.SpaceUsed", "plan_used", "Z"},
			{"k.GetParams(ctx).PricePerTbPerMonth", "ppt", "Z"}, {"k.GetJklPrice(ctx)", "jkl", "Z"}}},
	{Group: "goprice", Pkg: "x/storage/keeper", Recv: "msgServer", Name: "BuyStorage", Coq: "gen_BuyStorage",
		Inputs: []gfInput{{"for_resolves", "for_resolves", "bool"}, {"msg.DurationDays", "days", "Z"}, {"msg.Bytes", "bytes_in", "Z"}, {"msg.PaymentDenom != \"ujkl\"", "not_ujkl", "bool"},
			{"for_ok", "for_ok", "bool"}, {"accExists", "acc_exists", "bool"},
			{"found", "found", "bool"}, {"payInfo.SpaceUsed", "plan_used", "Z"}, {"payInfo.SpaceAvailable", "plan_avail", "Z"}, {"payInfo.End", "plan_end", "Z"}, {"ctx.BlockTime()", "now", "Z"},
			{"k.GetParams(ctx).PricePerTbPerMonth", "ppt", "Z"}, {"k.GetJklPrice(ctx)", "jkl", "Z"},
			{"ref_resolves", "ref_resolves", "bool"}, {"creator_ok", "creator_ok", "bool"}, {"refAcc.Equals(creatorAcc)", "ref_is_creator", "bool"},
			{"params.PolRatio", "polr", "Z"}, {"params.ReferralCommission", "refc", "Z"},
			{"ok_charge", "ok_charge", "bool"}, {"gauge_acc_ok", "gauge_acc_ok", "bool"}, {"ok_fund", "ok_fund", "bool"}, {"pol_acc_ok", "pol_acc_ok", "bool"},
			{"ok_pol", "ok_pol", "bool"}, {"ok_ref", "ok_ref", "bool"}, {"ok_fees", "ok_fees", "bool"}},
		ReadStmts: []string{`ctx := sdk.UnwrapSDKContext(goCtx)`, `params := k.GetParams(ctx)`,
			`forAddress, err := k.rnsKeeper.Resolve(ctx, msg.ForAddress) => err=for_resolves`,
			`forAddr, err := sdk.AccAddressFromBech32(msg.ForAddress) => err=for_ok`,
			`accExists := k.accountKeeper.HasAccount(ctx, forAddr)`,
			`payInfo, found := k.GetStoragePaymentInfo(ctx, forAddress.String())`,
			`refAcc, err := k.rnsKeeper.Resolve(ctx, msg.Referral) => err=ref_resolves`,
			`creatorAcc, cerr := sdk.AccAddressFromBech32(msg.Creator) => cerr=creator_ok`,
			`add, err := sdk.AccAddressFromBech32(msg.Creator) => err=creator_ok`,
			`acc, err := types.GetGaugeAccount(gauge) => err=gauge_acc_ok`,
			`polAcc, err := allTypes.GetPOLAccount() => err=pol_acc_ok`},
		Ignore: append([]string{`^defer telemetry\.`, `^var spi types\.StoragePaymentInfo$`, `^spi = types\.StoragePaymentInfo\{`, `^fmt\.Printf\(`, `^ctx\.EventManager\(\)\.EmitEvent\(`}, gfLogging...),
		Effects: []gfEffect{{Match: "k.accountKeeper.SetAccount", Tag: "new-account"},
			{Match: "k.bankKeeper.SendCoinsFromAccountToModule", Tag: "charge-creator", Args: []string{"toPay"}, Fallible: "ok_charge"},
			{Match: "k.SetStoragePaymentInfo", Tag: "set-plan", Args: []string{"bytes", "spaceUsed"}},
			{Match: "k.NewGauge", Tag: "new-gauge", Args: []string{"spcTokens"}},
			{Match: "k.bankKeeper.SendCoinsFromModuleToAccount(ctx, types.ModuleName, acc, spcTokens)", Tag: "fund-gauge", Args: []string{"spcTokens"}, Fallible: "ok_fund"},
			{Match: "k.bankKeeper.SendCoinsFromModuleToAccount(ctx, types.ModuleName, polAcc, polTokens)", Tag: "to-pol", Args: []string{"polTokens"}, Fallible: "ok_pol"},
			{Match: "k.bankKeeper.SendCoinsFromModuleToAccount(ctx, types.ModuleName, refAcc, refTokens)", Tag: "to-referrer", Args: []string{"refTokens"}, Fallible: "ok_ref"},
			{Match: "k.AddCollectedFees", Tag: "to-stakers", Args: []string{"refTokens"}, Fallible: "ok_fees"}}},
	// ---- x/storage/keeper/rewards.go: pullTokensFromGauges, per gauge and per coin of a gauge (C12, C05)
	{Group: "gogauge", Pkg: "x/storage/keeper", Recv: "Keeper", Name: "pullTokensFromGauges", Coq: "gen_pullGauge",
		Path: []string{"funclit:k.IterateGauges"},
		Inputs: []gfInput{{"pg.Start", "start", "Z"}, {"pg.End", "end_", "Z"}, {"currentTime", "now", "Z"},
			{"err", "wallet_ok", "bool"}, {"gaugeBalance.Empty()", "escrow_empty", "bool"}},
		ReadStmts: []string{`gaugeWallet, err := types.GetGaugeAccount(pg)`, `gaugeBalance := k.bankKeeper.GetAllBalances(ctx, gaugeWallet)`,
			`allGaugeCoins := pg.Coins`},
		Ignore:     gfLogging,
		Effects:    []gfEffect{{Match: "k.RemoveGauge", Tag: "remove-gauge"}},
		StmtEvents: []gfEffect{{Match: "for _, coin := range allGaugeCoins", Tag: "release-coins-at-ratio", Args: []string{"timeRatio"}}}},
	{Group: "gogauge", Pkg: "x/storage/keeper", Recv: "Keeper", Name: "pullTokensFromGauges", Coq: "gen_pullCoin",
		Path: []string{"funclit:k.IterateGauges", "range:allGaugeCoins"},
		Inputs: []gfInput{{"coin.Amount", "amount", "Z"}, {"gaugeBalance.AmountOf(coin.Denom)", "escrow", "Z"}, {"timeRatio", "ratio", "Z"},
			{"ok_send", "ok_send", "bool"}},
		Ignore: gfLogging,
		Effects: []gfEffect{{Match: "coinsToDistribute", Tag: "to-distribute", Args: []string{"c"}},
			{Match: "k.bankKeeper.SendCoinsFromAccountToModule", Tag: "escrow-to-module", Args: []string{"c"}, Fallible: "ok_send"}}},
	// ---- x/storage/keeper/rewards.go: rewardAllProviders, per prover and per released coin (C03)
	{Group: "goreward", Pkg: "x/storage/keeper", Recv: "Keeper", Name: "rewardAllProviders", Coq: "gen_rewardGuard",
		Inputs:     []gfInput{{"totalSize", "total", "Z"}},
		ReadStmts:  []string{`coins := k.pullTokensFromGauges(ctx)`, `provers := providerList(sizeTracker)`},
		StmtEvents: []gfEffect{{Match: "for _, prover := range provers", Tag: "pay-provers-of", Args: []string{"networkValue"}}}},
	{Group: "goreward", Pkg: "x/storage/keeper", Recv: "Keeper", Name: "rewardAllProviders", Coq: "gen_rewardProver",
		Path:       []string{"range:provers"},
		Inputs:     []gfInput{{"(*sizeTracker)[prover]", "worth", "Z"}, {"networkValue", "network", "Z"}, {"err", "address_ok", "bool"}},
		ReadStmts:  []string{`pAddress, err := sdk.AccAddressFromBech32(prover)`},
		Ignore:     gfLogging,
		StmtEvents: []gfEffect{{Match: "for _, coin := range coins", Tag: "pay-share", Args: []string{"networkPercentage"}}}},
	{Group: "goreward", Pkg: "x/storage/keeper", Recv: "Keeper", Name: "rewardAllProviders", Coq: "gen_rewardCoin",
		Path:    []string{"range:provers", "range:coins"},
		Inputs:  []gfInput{{"coin.Amount", "amount", "Z"}, {"networkPercentage", "pct", "Z"}, {"ok_send", "ok_send", "bool"}},
		Ignore:  gfLogging,
		Effects: []gfEffect{{Match: "k.bankKeeper.SendCoinsFromModuleToAccount", Tag: "pay", Args: []string{"c"}, Fallible: "ok_send"}}},
	// ---- x/rns/keeper/msg_server_register.go: the whole registration (C16)
	{Group: "gorns", Pkg: "x/rns/keeper", Recv: "Keeper", Name: "RegisterRNSName", Coq: "gen_RegisterRNSName",
		Inputs: []gfInput{{"parse_ok", "parse_ok", "bool"}, {"types.IsReserved[tld]", "reserved", "bool"}, {"GetCost(tld)", "base", "Z"}, {"len(name)", "chars", "Z"},
			{"years", "years", "Z"}, {"ctx.BlockHeight()", "h", "Z"}, {"sender_ok", "sender_ok", "bool"},
			{"isFound", "found", "bool"}, {"whois.Expires", "expires", "Z"}, {"whois.Value != owner.String()", "other_owner", "bool"},
			{"ok_charge", "ok_charge", "bool"}, {"pol_ok", "pol_ok", "bool"}, {"ok_pol", "ok_pol", "bool"},
			{"primary", "primary", "bool"}, {"hasPrimary", "has_primary", "bool"}},
		ReadStmts: []string{`nm = strings.ToLower(nm)`, `nm = strings.ReplaceAll(nm, " ", "")`,
			`name, tld, err := GetNameAndTLD(nm) => err=parse_ok`, `whois, isFound := k.GetNames(ctx, name, tld)`,
			`owner, err := sdk.AccAddressFromBech32(sender) => err=sender_ok`, `deposit, err := allTypes.GetPOLAccount() => err=pol_ok`,
			`_, hasPrimary := k.GetPrimaryName(ctx, newWhois.Value)`},
		Ignore: append([]string{`^emptySubdomains := `, `^newWhois := types\.Names\{`, `^ctx\.EventManager\(\)\.EmitEvent\(`}, gfLogging...),
		Effects: []gfEffect{{Match: "k.bankKeeper.SendCoinsFromAccountToModule", Tag: "charge-sender", Args: []string{"price"}, Fallible: "ok_charge"},
			{Match: "k.bankKeeper.SendCoinsFromModuleToAccount", Tag: "module-to-pol", Args: []string{"price"}, Fallible: "ok_pol"},
			{Match: "k.SetNames", Tag: "set-name-expires", Args: []string{"time"}}, {Match: "k.SetPrimaryName", Tag: "set-primary"}}},
	// ---- x/rns/keeper/utils.go: the price list (C16); the base cost of the TLD is a read
	{Group: "gorns", Pkg: "x/rns/keeper", Name: "GetCostOfName", Coq: "gen_GetCostOfName",
		Inputs: []gfInput{{"GetCost(tld)", "base", "Z"}, {"len(name)", "chars", "Z"}}},
}

// ---------------------------------------------------------------------------------------------

type gfTr struct {
	c         *Ctx
	pkg       *packages.Package
	cfg       *gfFunc
	decl      *ast.FuncDecl
	byObj     map[*types.Func]*gfFunc
	names     map[types.Object]string
	used      map[string]bool
	tmp       int
	events    bool
	resTy     []string // result types of the Go function ("Z", "bool", "Dec", "err")
	reads     map[string]gfInput
	size      int
	unitKind  string            // "" (the whole function), "funclit" or "range"
	resKeep   []bool            // which results of the Go function are part of the translated result
	named     []*types.Var      // named results (a bare return returns their current values)
	fieldVars map[string]string // source text of a field treated as a variable -> its Gallina name
	ends      []func() string   // what falling off the end of the current statement list means (join points of ifs)
}

func gfNorm(s string) string { return strings.Join(strings.Fields(s), " ") }

func (t *gfTr) src(n ast.Node) string {
	var b bytes.Buffer
	_ = printer.Fprint(&b, t.pkg.Fset, n)
	return gfNorm(b.String())
}

func (t *gfTr) errf(n ast.Node, format string, a ...interface{}) error {
	pos := t.pkg.Fset.Position(n.Pos())
	return fmt.Errorf("%s:%d: %s.%s: %s", t.c.Rel(pos.Filename), pos.Line, t.cfg.Recv, t.cfg.Name, fmt.Sprintf(format, a...))
}

func gfKind(ty types.Type) string {
	if ty == nil {
		return "opaque"
	}
	if n, ok := ty.(*types.Named); ok {
		o := n.Obj()
		if o.Pkg() != nil && o.Pkg().Path() == "github.com/cosmos/cosmos-sdk/types" {
			switch o.Name() {
			case "Dec":
				return "Dec"
			case "Int":
				return "Int"
			case "Coin", "Coins":
				return "Coin"
			}
		}
		if o.Pkg() == nil && o.Name() == "error" {
			return "err"
		}
		if o.Pkg() != nil && o.Pkg().Path() == "time" && (o.Name() == "Time" || o.Name() == "Duration") {
			return "Time"
		}
		return "opaque"
	}
	if b, ok := ty.Underlying().(*types.Basic); ok {
		switch b.Kind() {
		case types.Int64, types.Int, types.UntypedInt:
			return "Z"
		case types.Bool, types.UntypedBool:
			return "bool"
		case types.UntypedNil:
			return "nil"
		}
	}
	return "opaque"
}

var gfCoqKeywords = map[string]bool{"as": true, "at": true, "in": true, "let": true, "end": true, "fun": true, "if": true, "then": true, "else": true,
	"match": true, "with": true, "return": true, "for": true, "fix": true, "forall": true, "exists": true, "Type": true, "Prop": true, "Set": true, "using": true, "where": true, "evs": true}

func (t *gfTr) nameOf(o types.Object) string {
	if n, ok := t.names[o]; ok {
		return n
	}
	base := o.Name()
	if gfCoqKeywords[base] || strings.HasPrefix(base, "gen_") {
		base = base + "_"
	}
	n := base
	for i := 1; t.used[n]; i++ {
		n = fmt.Sprintf("%s_%d", base, i)
	}
	t.used[n] = true
	t.names[o] = n
	return n
}

func (t *gfTr) fresh() string {
	for {
		t.tmp++
		n := fmt.Sprintf("t%d", t.tmp)
		if !t.used[n] {
			t.used[n] = true
			return n
		}
	}
}

func gfZ(v *big.Int) string {
	if v.Sign() < 0 {
		return "(" + v.String() + ")"
	}
	return v.String()
}

// a decimal literal with at most 18 fractional digits as the scaled integer
func gfDecLit(s string) (string, bool) {
	neg := strings.HasPrefix(s, "-")
	s = strings.TrimPrefix(s, "-")
	parts := strings.Split(s, ".")
	if len(parts) > 2 || parts[0] == "" {
		return "", false
	}
	frac := ""
	if len(parts) == 2 {
		frac = parts[1]
	}
	if len(frac) > 18 {
		return "", false
	}
	for _, ch := range parts[0] + frac {
		if ch < '0' || ch > '9' {
			return "", false
		}
	}
	v, ok := new(big.Int).SetString(parts[0]+frac+strings.Repeat("0", 18-len(frac)), 10)
	if !ok {
		return "", false
	}
	if neg {
		v.Neg(v)
	}
	return gfZ(v), true
}

type gfBind struct{ name, rhs string }

func gfWrap(binds []gfBind, body string) string {
	var b strings.Builder
	for _, x := range binds {
		b.WriteString("glet " + x.name + " := " + x.rhs + " in\n")
	}
	b.WriteString(body)
	return b.String()
}

// expr translates e; the binds are panicking sub-computations to run first, in evaluation order.
func (t *gfTr) expr(e ast.Expr) ([]gfBind, string, string, error) {
	info := t.pkg.TypesInfo
	isLocal := false
	if id, ok := e.(*ast.Ident); ok {
		if o := info.Uses[id]; o != nil {
			_, isLocal = t.names[o]
		}
	}
	if fv, ok := t.fieldVars[t.src(e)]; ok {
		return nil, fv, "Z", nil
	}
	if in, ok := t.reads[t.src(e)]; ok && !isLocal {
		return nil, in.Coq, in.Ty, nil
	}
	if tv, ok := info.Types[e]; ok && tv.Value != nil {
		switch tv.Value.Kind() {
		case constant.Int:
			v, _ := new(big.Int).SetString(tv.Value.ExactString(), 10)
			if v != nil {
				return nil, gfZ(v), "Z", nil
			}
		case constant.Bool:
			return nil, CoqBool(constant.BoolVal(tv.Value)), "bool", nil
		}
	}
	switch x := e.(type) {
	case *ast.ParenExpr:
		return t.expr(x.X)
	case *ast.Ident:
		if x.Name == "nil" {
			return nil, "true", "err", nil
		}
		o := info.Uses[x]
		if o == nil {
			o = info.Defs[x]
		}
		if v, ok := o.(*types.Var); ok {
			if n, ok := t.names[v]; ok {
				k := gfKind(v.Type())
				if k == "Coin" || k == "Dec" || k == "Int" || k == "Time" {
					k = "Z"
				}
				if k == "err" {
					k = "bool"
				}
				return nil, n, k, nil
			}
		}
		if v, ok := o.(*types.Var); ok && v.Pkg() != nil && v.Parent() == v.Pkg().Scope() {
			if strings.HasSuffix(v.Type().String(), "errors.Error") || gfKind(v.Type()) == "err" {
				return nil, "false", "bool", nil // a package-level error value: not nil
			}
		}
		return nil, "", "", t.errf(e, "identifier %s is neither a translated variable nor a configured read", x.Name)
	case *ast.UnaryExpr:
		b, s, ty, err := t.expr(x.X)
		if err != nil {
			return nil, "", "", err
		}
		switch {
		case x.Op == token.NOT && ty == "bool":
			return b, "(negb " + s + ")", "bool", nil
		case x.Op == token.SUB && ty == "Z" && gfKind(info.TypeOf(x.X)) == "Z":
			return b, "(i64neg " + s + ")", "Z", nil
		}
		return nil, "", "", t.errf(e, "unary operator %s on %s", x.Op, ty)
	case *ast.BinaryExpr:
		return t.binary(x)
	case *ast.CallExpr:
		return t.call(x)
	case *ast.CompositeLit:
		if gfKind(info.TypeOf(x)) == "Coin" && len(x.Elts) == 1 {
			return t.expr(x.Elts[0]) // sdk.Coins{c}: one coin, modelled by its amount
		}
		if gfKind(info.TypeOf(x)) == "Coin" && len(x.Elts) == 0 {
			return nil, "0", "Z", nil // sdk.Coin{}: returned next to an error, never used
		}
	case *ast.SelectorExpr:
		if v, ok := info.Uses[x.Sel].(*types.Var); ok && v.Pkg() != nil && v.Parent() == v.Pkg().Scope() {
			if strings.HasSuffix(v.Type().String(), "errors.Error") || gfKind(v.Type()) == "err" {
				return nil, "false", "bool", nil // a package-level error value (types.ErrReserved): not nil
			}
		}
		if x.Sel.Name == "Amount" && gfKind(info.TypeOf(x.X)) == "Coin" {
			return t.expr(x.X) // a coin is modelled by its amount
		}
	}
	return nil, "", "", t.errf(e, "expression form %T (%s) is outside the translated fragment", e, t.src(e))
}

func (t *gfTr) binary(x *ast.BinaryExpr) ([]gfBind, string, string, error) {
	info := t.pkg.TypesInfo
	if x.Op == token.LAND || x.Op == token.LOR {
		bl, l, tl, err := t.expr(x.X)
		if err != nil {
			return nil, "", "", err
		}
		br, r, tr, err := t.expr(x.Y)
		if err != nil {
			return nil, "", "", err
		}
		if tl != "bool" || tr != "bool" {
			return nil, "", "", t.errf(x, "%s on non-booleans", x.Op)
		}
		if len(br) > 0 {
			// the right operand can panic: it must only run when the left operand lets it
			tmp := t.fresh()
			var rhs string
			if x.Op == token.LAND {
				rhs = "(if " + l + " then (" + gfWrap(br, "GVal "+r) + ") else GVal false)"
			} else {
				rhs = "(if " + l + " then GVal true else (" + gfWrap(br, "GVal "+r) + "))"
			}
			return append(bl, gfBind{tmp, rhs}), tmp, "bool", nil
		}
		op := "andb"
		if x.Op == token.LOR {
			op = "orb"
		}
		return bl, "(" + op + " " + l + " " + r + ")", "bool", nil
	}
	kl, kr := gfKind(info.TypeOf(x.X)), gfKind(info.TypeOf(x.Y))
	bl, l, tl, err := t.expr(x.X)
	if err != nil {
		return nil, "", "", err
	}
	br, r, tr, err := t.expr(x.Y)
	if err != nil {
		return nil, "", "", err
	}
	binds := append(bl, br...)
	if (kl == "err" || kr == "err") && (kl == "nil" || kr == "nil" || (tl == "err" || tr == "err")) {
		// err != nil / err == nil
		v := l
		if kl == "nil" || tl == "err" {
			v = r
		}
		switch x.Op {
		case token.NEQ:
			return binds, "(negb " + v + ")", "bool", nil
		case token.EQL:
			return binds, v, "bool", nil
		}
	}
	intKind := func(k string) bool { return k == "Z" || k == "Time" }
	if tl == "Z" && tr == "Z" && intKind(kl) && intKind(kr) {
		switch x.Op {
		case token.ADD:
			return binds, "(i64add " + l + " " + r + ")", "Z", nil
		case token.SUB:
			return binds, "(i64sub " + l + " " + r + ")", "Z", nil
		case token.MUL:
			return binds, "(i64mul " + l + " " + r + ")", "Z", nil
		case token.QUO:
			tmp := t.fresh()
			return append(binds, gfBind{tmp, "i64quo " + l + " " + r}), tmp, "Z", nil
		case token.REM:
			tmp := t.fresh()
			return append(binds, gfBind{tmp, "i64rem " + l + " " + r}), tmp, "Z", nil
		case token.EQL:
			return binds, "(" + l + " =? " + r + ")", "bool", nil
		case token.NEQ:
			return binds, "(negb (" + l + " =? " + r + "))", "bool", nil
		case token.LSS:
			return binds, "(" + l + " <? " + r + ")", "bool", nil
		case token.LEQ:
			return binds, "(" + l + " <=? " + r + ")", "bool", nil
		case token.GTR:
			return binds, "(" + r + " <? " + l + ")", "bool", nil
		case token.GEQ:
			return binds, "(" + r + " <=? " + l + ")", "bool", nil
		}
	}
	if tl == "bool" && tr == "bool" && (x.Op == token.EQL || x.Op == token.NEQ) {
		if x.Op == token.EQL {
			return binds, "(Bool.eqb " + l + " " + r + ")", "bool", nil
		}
		return binds, "(negb (Bool.eqb " + l + " " + r + "))", "bool", nil
	}
	return nil, "", "", t.errf(x, "operator %s on %s/%s (%s, %s)", x.Op, kl, kr, tl, tr)
}

func (t *gfTr) calleeObj(c *ast.CallExpr) types.Object {
	switch f := c.Fun.(type) {
	case *ast.Ident:
		return t.pkg.TypesInfo.Uses[f]
	case *ast.SelectorExpr:
		return t.pkg.TypesInfo.Uses[f.Sel]
	}
	return nil
}

func (t *gfTr) call(c *ast.CallExpr) ([]gfBind, string, string, error) {
	info := t.pkg.TypesInfo
	// conversions int64(x)
	if tv, ok := info.Types[c.Fun]; ok && tv.IsType() {
		if (gfKind(tv.Type) == "Z" || gfKind(tv.Type) == "Time") && len(c.Args) == 1 && (gfKind(info.TypeOf(c.Args[0])) == "Z" || gfKind(info.TypeOf(c.Args[0])) == "Time") {
			return t.expr(c.Args[0])
		}
		return nil, "", "", t.errf(c, "conversion %s", t.src(c))
	}
	obj := t.calleeObj(c)
	fn, _ := obj.(*types.Func)
	if fn == nil {
		return nil, "", "", t.errf(c, "call of %s", t.src(c.Fun))
	}
	// another translated function
	if cfg, ok := t.byObj[fn]; ok {
		return t.callTranslated(c, fn, cfg)
	}
	full := fn.FullName()
	arg := func(i int) ([]gfBind, string, string, error) { return t.expr(c.Args[i]) }
	recv := func() ([]gfBind, string, string, error) { return t.expr(c.Fun.(*ast.SelectorExpr).X) }
	const sdkT = "github.com/cosmos/cosmos-sdk/types."
	switch full {
	case sdkT + "NewDec", sdkT + "NewDecFromInt":
		b, s, _, err := arg(0)
		return b, "(dec " + s + ")", "Z", err
	case sdkT + "NewInt":
		b, s, _, err := arg(0)
		return b, s, "Z", err
	case "(" + sdkT + "Int).ToDec":
		b, s, _, err := recv()
		return b, "(dec " + s + ")", "Z", err
	case sdkT + "MustNewDecFromStr":
		if tv, ok := info.Types[c.Args[0]]; ok && tv.Value != nil && tv.Value.Kind() == constant.String {
			if lit, ok := gfDecLit(constant.StringVal(tv.Value)); ok {
				return nil, lit, "Z", nil
			}
		}
		return nil, "", "", t.errf(c, "MustNewDecFromStr of something that is not a decimal literal")
	case sdkT + "NewInt64Coin":
		b, s, _, err := arg(1)
		tmp := t.fresh()
		return append(b, gfBind{tmp, "gcoin64 " + s}), tmp, "Z", err
	case sdkT + "NewCoins":
		if len(c.Args) == 1 {
			return arg(0)
		}
	case "fmt.Errorf", "errors.New":
		return nil, "false", "bool", nil // a fresh error value: not nil
	case "github.com/cosmos/cosmos-sdk/types/errors.Wrap", "github.com/cosmos/cosmos-sdk/types/errors.Wrapf":
		if id, ok := c.Args[0].(*ast.Ident); ok {
			if _, isVar := info.Uses[id].(*types.Var); isVar && info.Uses[id].Parent() != info.Uses[id].Pkg().Scope() {
				return t.expr(id) // wrapping a local error value keeps nil nil
			}
		}
		if sel, ok := c.Args[0].(*ast.SelectorExpr); ok {
			if v, isVar := info.Uses[sel.Sel].(*types.Var); isVar && v.Parent() == v.Pkg().Scope() {
				return nil, "false", "bool", nil // a package-level error value: not nil
			}
		}
	}
	if full == sdkT+"NewCoin" && len(c.Args) == 2 {
		b, s, _, err := arg(1)
		tmp := t.fresh()
		return append(b, gfBind{tmp, "gcoin64 " + s}), tmp, "Z", err
	}
	if full == sdkT+"ZeroInt" {
		return nil, "0", "Z", nil
	}
	if strings.HasPrefix(full, "("+sdkT+"Int).") || strings.HasPrefix(full, "(time.Time).") || strings.HasPrefix(full, "(time.Duration).") {
		m := full[strings.LastIndex(full, ".")+1:]
		isInt := strings.HasPrefix(full, "("+sdkT+"Int).")
		isTime := strings.HasPrefix(full, "(time.Time).")
		b0, s0, _, err := recv()
		if err != nil {
			return nil, "", "", err
		}
		if len(c.Args) == 0 {
			switch {
			case isInt && m == "Int64":
				tmp := t.fresh()
				return append(b0, gfBind{tmp, "gint_int64 " + s0}), tmp, "Z", nil
			case isInt && m == "IsZero":
				return b0, "(" + s0 + " =? 0)", "bool", nil
			case !isInt && !isTime && m == "Microseconds":
				return b0, "(Z.quot " + s0 + " 1000)", "Z", nil
			case !isInt && !isTime && m == "Milliseconds":
				return b0, "(Z.quot " + s0 + " 1000000)", "Z", nil
			}
		}
		if len(c.Args) == 1 {
			b1, s1, _, err := arg(0)
			if err != nil {
				return nil, "", "", err
			}
			binds := append(b0, b1...)
			switch {
			case isInt && m == "Sub":
				return binds, "(" + s0 + " - " + s1 + ")", "Z", nil
			case isInt && m == "Add":
				return binds, "(" + s0 + " + " + s1 + ")", "Z", nil
			case isInt && m == "LTE":
				return binds, "(" + s0 + " <=? " + s1 + ")", "bool", nil
			case isInt && m == "LT":
				return binds, "(" + s0 + " <? " + s1 + ")", "bool", nil
			case isInt && m == "GT":
				return binds, "(" + s1 + " <? " + s0 + ")", "bool", nil
			case isTime && m == "Before":
				return binds, "(" + s0 + " <? " + s1 + ")", "bool", nil
			case isTime && m == "After":
				return binds, "(" + s1 + " <? " + s0 + ")", "bool", nil
			case isTime && m == "Equal":
				return binds, "(" + s0 + " =? " + s1 + ")", "bool", nil
			case isTime && m == "Sub":
				return binds, "(gsat64 (" + s0 + " - " + s1 + "))", "Z", nil
			case !isInt && !isTime && m == "Truncate":
				tmp := t.fresh() // d.Truncate(m): d - d % m, d itself for m <= 0
				return append(binds, gfBind{tmp, "gdur_truncate " + s0 + " " + s1}), tmp, "Z", nil
			}
		}
	}
	if strings.HasPrefix(full, "("+sdkT+"Dec).") {
		m := strings.TrimPrefix(full, "("+sdkT+"Dec).")
		b0, s0, _, err := recv()
		if err != nil {
			return nil, "", "", err
		}
		un := map[string]string{"TruncateInt": "dtrunc"}
		if f, ok := un[m]; ok && len(c.Args) == 0 {
			return b0, "(" + f + " " + s0 + ")", "Z", nil
		}
		if m == "TruncateInt64" && len(c.Args) == 0 {
			tmp := t.fresh()
			return append(b0, gfBind{tmp, "gdec_trunc64 " + s0}), tmp, "Z", nil
		}
		if len(c.Args) == 1 {
			b1, s1, _, err := arg(0)
			if err != nil {
				return nil, "", "", err
			}
			binds := append(b0, b1...)
			switch m {
			case "Add":
				return binds, "(" + s0 + " + " + s1 + ")", "Z", nil
			case "Sub":
				return binds, "(" + s0 + " - " + s1 + ")", "Z", nil
			case "Mul":
				return binds, "(dmul " + s0 + " " + s1 + ")", "Z", nil
			case "MulInt64":
				return binds, "(dmul_int " + s0 + " " + s1 + ")", "Z", nil
			case "Quo":
				tmp := t.fresh()
				return append(binds, gfBind{tmp, "gdec_quo " + s0 + " " + s1}), tmp, "Z", nil
			case "QuoInt64":
				tmp := t.fresh()
				return append(binds, gfBind{tmp, "gdec_quo_int64 " + s0 + " " + s1}), tmp, "Z", nil
			}
		}
	}
	return nil, "", "", t.errf(c, "call of %s is outside the translated fragment", full)
}

func (t *gfTr) callTranslated(c *ast.CallExpr, fn *types.Func, cfg *gfFunc) ([]gfBind, string, string, error) {
	if len(cfg.Effects) > 0 {
		return nil, "", "", t.errf(c, "call of the effectful translated function %s inside an expression", cfg.Name)
	}
	sig := fn.Type().(*types.Signature)
	recvName := ""
	recvText := ""
	if sig.Recv() != nil {
		recvName = sig.Recv().Name()
		if sel, ok := c.Fun.(*ast.SelectorExpr); ok {
			recvText = t.src(sel.X)
		}
	}
	var binds []gfBind
	args := []string{}
	for _, in := range cfg.Inputs {
		found := false
		for i := 0; i < sig.Params().Len(); i++ {
			if sig.Params().At(i).Name() == in.Expr {
				b, s, _, err := t.expr(c.Args[i])
				if err != nil {
					return nil, "", "", err
				}
				binds = append(binds, b...)
				args = append(args, s)
				found = true
			}
		}
		if found {
			continue
		}
		text := in.Expr
		if recvName != "" && strings.HasPrefix(text, recvName+".") {
			text = recvText + text[len(recvName):]
		}
		// a read of the callee that mentions its parameters is the caller's read with the arguments put in
		for i := 0; i < sig.Params().Len() && i < len(c.Args); i++ {
			pn := sig.Params().At(i).Name()
			if pn == "" || pn == "_" {
				continue
			}
			text = regexp.MustCompile(`\b`+regexp.QuoteMeta(pn)+`\b`).ReplaceAllString(text, strings.ReplaceAll(t.src(c.Args[i]), "$", "$$"))
		}
		r, ok := t.reads[gfNorm(text)]
		if !ok {
			return nil, "", "", t.errf(c, "the callee %s reads %s, which the caller's configuration does not provide as %q", cfg.Name, in.Expr, text)
		}
		args = append(args, r.Coq)
	}
	tmp := t.fresh()
	binds = append(binds, gfBind{tmp, cfg.Coq + " " + strings.Join(args, " ")})
	res := sig.Results()
	ty := "Z"
	if res.Len() == 1 {
		switch gfKind(res.At(0).Type()) {
		case "bool", "err":
			ty = "bool"
		}
	}
	return binds, tmp, ty, nil
}

// callEffectful: a call of another translated function that has effects.  Its events are appended to the caller's,
// its (single) result is bound to a fresh name.  Returns the Gallina prefix and the name of the result.
func (t *gfTr) callEffectful(c *ast.CallExpr) (string, string, bool, error) {
	fn, _ := t.calleeObj(c).(*types.Func)
	if fn == nil {
		return "", "", false, nil
	}
	cfg, ok := t.byObj[fn]
	if !ok || (len(cfg.Effects) == 0 && len(cfg.StmtEvents) == 0) || t.effectForCall(c) != nil {
		return "", "", false, nil
	}
	if !t.events {
		return "", "", true, t.errf(c, "call of the effectful %s from a function without effects", cfg.Name)
	}
	saved := cfg.Effects
	cfg.Effects = nil // callTranslated refuses effectful callees inside expressions; here the events are threaded
	se := cfg.StmtEvents
	cfg.StmtEvents = nil
	binds, tmp, _, err := t.callTranslated(c, fn, cfg)
	cfg.Effects, cfg.StmtEvents = saved, se
	if err != nil {
		return "", "", true, err
	}
	res := t.fresh()
	nres := fn.Type().(*types.Signature).Results().Len()
	pre := gfWrap(binds, "")
	if nres == 0 {
		pre += "let evs := evs ++ " + tmp + " in\n"
		return pre, "tt", true, nil
	}
	pre += "let '(" + res + "_evs, " + res + ") := " + tmp + " in\nlet evs := evs ++ " + res + "_evs in\n"
	return pre, res, true, nil
}

func (t *gfTr) matchAny(pats []string, s string) bool {
	for _, p := range pats {
		if regexp.MustCompile(p).MatchString(s) {
			return true
		}
	}
	return false
}

func (t *gfTr) effectFor(text string) *gfEffect {
	for i := range t.cfg.Effects {
		if t.cfg.Effects[i].Match == text {
			return &t.cfg.Effects[i]
		}
	}
	return nil
}

// effectForCall: an effect configured for this very call (its whole source text) wins over one for its callee
func (t *gfTr) effectForCall(c *ast.CallExpr) *gfEffect {
	if ef := t.effectFor(t.src(c)); ef != nil {
		return ef
	}
	return t.effectFor(t.src(c.Fun))
}

func (t *gfTr) emitEvent(ef *gfEffect, rhs string, at ast.Node) ([]gfBind, string, error) {
	var binds []gfBind
	args := []string{}
	for _, a := range ef.Args {
		if a == "$rhs" {
			args = append(args, rhs)
			continue
		}
		// the argument is a variable or read of the enclosing function, named by its source text
		if fv, ok := t.fieldVars[gfNorm(a)]; ok {
			args = append(args, fv)
			continue
		}
		if r, ok := t.reads[gfNorm(a)]; ok {
			args = append(args, r.Coq)
			continue
		}
		var hit string
		for o, n := range t.names {
			if o.Name() == a {
				hit = n
			}
		}
		if hit == "" {
			return nil, "", t.errf(at, "event argument %s is not in scope", a)
		}
		args = append(args, hit)
	}
	return binds, "let evs := evs ++ [Ev " + CoqString(ef.Tag) + "%string [" + strings.Join(args, "; ") + "]] in\n", nil
}

func (t *gfTr) ret(vals []string) string {
	v := ""
	switch len(vals) {
	case 0:
		v = "tt"
	case 1:
		v = vals[0]
	default:
		v = "(" + strings.Join(vals, ", ") + ")"
	}
	if t.events {
		if len(vals) == 0 {
			return "GVal evs"
		}
		return "GVal (evs, " + v + ")"
	}
	return "GVal " + v
}

// seq translates a statement list; falling off its end is the end of the function.
func (t *gfTr) seq(stmts []ast.Stmt) (string, error) {
	t.size++
	if t.size > 4000 {
		return "", fmt.Errorf("%s: the translation grows too large (too many fall-through branches)", t.cfg.Name)
	}
	if len(stmts) == 0 && len(t.ends) > 0 {
		return t.ends[len(t.ends)-1](), nil
	}
	if len(stmts) == 0 {
		if t.unitKind != "" && t.cfg.UnitExits {
			return t.ret([]string{"true"}), nil
		}
		if len(t.resTy) != 0 {
			return "", fmt.Errorf("%s: control reaches the end of a function that returns a value", t.cfg.Name)
		}
		return t.ret(nil), nil
	}
	s, rest := stmts[0], stmts[1:]
	text := t.src(s)
	for _, r := range t.cfg.ReadStmts {
		// "stmt => v=input, w=input": the statement fetches reads and (re)assigns the translated variables v, w
		parts := strings.SplitN(r, " => ", 2)
		if gfNorm(parts[0]) != text {
			continue
		}
		pre, post := "", ""
		if len(parts) == 2 {
			as, isAssign := s.(*ast.AssignStmt)
			for _, kv := range strings.Split(parts[1], ",") {
				f := strings.SplitN(strings.TrimSpace(kv), "=", 2)
				in, ok := t.reads[f[1]]
				if !ok {
					return "", t.errf(s, "read statement assigns %s from an unknown input %s", f[0], f[1])
				}
				if f[0] == "!fails_when" {
					// a search loop that leaves the function with an error when it finds something: the input says whether it does
					if len(t.resTy) != 1 || t.resTy[0] != "bool" {
						return "", t.errf(s, "!fails_when needs a function whose only translated result is its error")
					}
					pre += "if " + in.Coq + " then (\n" + t.ret([]string{"false"}) + "\n) else (\n"
					post += "\n)"
					continue
				}
				done := false
				if isAssign {
					for _, l := range as.Lhs {
						if id, ok := l.(*ast.Ident); ok && id.Name == f[0] {
							o := t.pkg.TypesInfo.Defs[id]
							if o == nil {
								o = t.pkg.TypesInfo.Uses[id]
							}
							pre += "let " + t.nameOf(o) + " := " + in.Coq + " in\n"
							done = true
						}
					}
				} else {
					// a loop (or other statement) that computes translated variables declared before it
					for o, n := range t.names {
						if o.Name() == f[0] && o.Pos() < s.Pos() {
							pre += "let " + n + " := " + in.Coq + " in\n"
							done = true
						}
					}
				}
				if !done {
					return "", t.errf(s, "read statement does not assign %s", f[0])
				}
			}
		}
		r2, err := t.seq(rest)
		return pre + r2 + post, err
	}
	if t.matchAny(t.cfg.Ignore, text) {
		return t.seq(rest)
	}
	for i := range t.cfg.StmtEvents {
		if strings.HasPrefix(text, t.cfg.StmtEvents[i].Match) {
			_, ev, err := t.emitEvent(&t.cfg.StmtEvents[i], "", s)
			if err != nil {
				return "", err
			}
			r, err := t.seq(rest)
			return ev + r, err
		}
	}
	info := t.pkg.TypesInfo
	if br, ok := s.(*ast.BranchStmt); ok && br.Tok == token.CONTINUE && br.Label == nil && t.unitKind == "range" {
		if t.cfg.UnitExits {
			return t.ret([]string{"true"}), nil
		}
		return t.ret(nil), nil
	}
	if rs, ok := s.(*ast.ReturnStmt); ok && t.unitKind != "" && t.cfg.UnitExits && len(rs.Results) > 0 {
		return t.ret([]string{"false"}), nil
	}
	switch x := s.(type) {
	case *ast.BlockStmt:
		return t.seq(append(append([]ast.Stmt{}, x.List...), rest...))
	case *ast.EmptyStmt:
		return t.seq(rest)
	case *ast.ReturnStmt:
		var binds []gfBind
		vals := []string{}
		for i, r := range x.Results {
			if len(t.resKeep) == len(x.Results) && !t.resKeep[i] {
				if t.cfg.RespField != "" && i == 0 {
					val := "false"
					if u, ok := r.(*ast.UnaryExpr); ok && u.Op == token.AND {
						if cl, ok := u.X.(*ast.CompositeLit); ok {
							for _, el := range cl.Elts {
								if kv, ok := el.(*ast.KeyValueExpr); ok && t.src(kv.Key) == t.cfg.RespField {
									b, v, _, err := t.expr(kv.Value)
									if err != nil {
										return "", err
									}
									binds = append(binds, b...)
									val = v
								}
							}
						}
					}
					vals = append(vals, val)
				}
				continue
			}
			b, v, _, err := t.expr(r)
			if err != nil {
				return "", err
			}
			binds = append(binds, b...)
			vals = append(vals, v)
		}
		if len(x.Results) == 0 && len(t.named) > 0 {
			for i, rv := range t.named {
				if i < len(t.resKeep) && t.resKeep[i] {
					vals = append(vals, t.nameOf(rv))
				}
			}
		}
		if len(vals) != len(t.resTy) {
			return "", t.errf(s, "return of %d values, the function has %d results", len(vals), len(t.resTy))
		}
		return gfWrap(binds, t.ret(vals)), nil
	case *ast.DeclStmt:
		gd, ok := x.Decl.(*ast.GenDecl)
		if !ok || gd.Tok != token.VAR {
			return "", t.errf(s, "declaration outside the fragment")
		}
		out := ""
		for _, sp := range gd.Specs {
			vs := sp.(*ast.ValueSpec)
			for i, id := range vs.Names {
				o := info.Defs[id]
				k := gfKind(o.Type())
				if k != "Z" && k != "bool" && k != "Dec" && k != "Int" {
					return "", t.errf(s, "variable %s of type %s", id.Name, o.Type())
				}
				val := "0"
				if k == "bool" {
					val = "false"
				}
				var binds []gfBind
				if i < len(vs.Values) {
					b, v, _, err := t.expr(vs.Values[i])
					if err != nil {
						return "", err
					}
					binds, val = b, v
				}
				out += gfWrap(binds, "let "+t.nameOf(o)+" := "+val+" in\n")
			}
		}
		r, err := t.seq(rest)
		return out + r, err
	case *ast.IncDecStmt:
		id, ok := x.X.(*ast.Ident)
		if !ok {
			return "", t.errf(s, "++/-- of a non-variable")
		}
		_, v, _, err := t.expr(id)
		if err != nil {
			return "", err
		}
		op := "i64add"
		if x.Tok == token.DEC {
			op = "i64sub"
		}
		r, err := t.seq(rest)
		return "let " + v + " := " + op + " " + v + " 1 in\n" + r, err
	case *ast.ExprStmt:
		if c, ok := x.X.(*ast.CallExpr); ok {
			if pre, _, ok, err := t.callEffectful(c); ok || err != nil {
				if err != nil {
					return "", err
				}
				r, err := t.seq(rest)
				return pre + r, err
			}
			if ef := t.effectForCall(c); ef != nil && ef.Fallible == "" {
				_, ev, err := t.emitEvent(ef, "", s)
				if err != nil {
					return "", err
				}
				r, err := t.seq(rest)
				return ev + r, err
			}
		}
		return "", t.errf(s, "statement `%s` is neither a configured effect nor ignorable", text)
	case *ast.AssignStmt:
		return t.assign(x, rest)
	case *ast.IfStmt:
		pre := []ast.Stmt{}
		if x.Init != nil {
			pre = append(pre, x.Init)
			// translate the init as a statement followed by the same `if` without it
			cp := *x
			cp.Init = nil
			return t.seq(append(append(pre, &cp), rest...))
		}
		return t.ifelse(x.Cond, x.Body.List, x.Else, rest)
	case *ast.SwitchStmt:
		if x.Init != nil {
			return "", t.errf(s, "switch with an init statement")
		}
		return t.switchStmt(x, rest)
	}
	return "", t.errf(s, "statement form %T (`%s`) is outside the translated fragment", s, text)
}

// gfExits: does the statement contain a return, continue, break or goto (outside function literals)?
func gfExits(n ast.Node) bool {
	if n == nil {
		return false
	}
	found := false
	ast.Inspect(n, func(m ast.Node) bool {
		switch m.(type) {
		case *ast.FuncLit:
			return false
		case *ast.ReturnStmt, *ast.BranchStmt:
			found = true
		}
		return !found
	})
	return found
}

// assigned: the already-declared translated variables that the statements assign
func (t *gfTr) assigned(before token.Pos, nodes ...ast.Node) []types.Object {
	seen := map[types.Object]bool{}
	var out []types.Object
	add := func(e ast.Expr) {
		if id, ok := e.(*ast.Ident); ok {
			if o := t.pkg.TypesInfo.Uses[id]; o != nil {
				if _, known := t.names[o]; known && !seen[o] && o.Pos() < before {
					seen[o] = true
					out = append(out, o)
				}
			}
		}
	}
	for _, n := range nodes {
		if n == nil {
			continue
		}
		ast.Inspect(n, func(m ast.Node) bool {
			switch x := m.(type) {
			case *ast.AssignStmt:
				for _, l := range x.Lhs {
					add(l)
				}
			case *ast.IncDecStmt:
				add(x.X)
			}
			return true
		})
	}
	return out
}

func (t *gfTr) ifelse(cond ast.Expr, body []ast.Stmt, els ast.Stmt, rest []ast.Stmt) (string, error) {
	// an `if` that cannot leave the function is a join point: both branches yield the variables they may have
	// assigned (and the event list), and the rest of the function is translated once
	var elsNode ast.Node
	if els != nil {
		elsNode = els
	}
	if len(rest) > 0 && !gfExits(&ast.BlockStmt{List: body}) && !gfExits(elsNode) {
		binds, c, ty, err := t.expr(cond)
		if err != nil {
			return "", err
		}
		if ty != "bool" {
			return "", t.errf(cond, "condition of type %s", ty)
		}
		vars := t.assigned(cond.Pos(), &ast.BlockStmt{List: body}, elsNode)
		names := []string{}
		for _, o := range vars {
			names = append(names, t.nameOf(o))
		}
		for _, nd := range []ast.Node{&ast.BlockStmt{List: body}, elsNode} {
			if nd == nil {
				continue
			}
			ast.Inspect(nd, func(m ast.Node) bool {
				if as, ok := m.(*ast.AssignStmt); ok {
					for _, l := range as.Lhs {
						if fv, ok := t.fieldVars[t.src(l)]; ok {
							dup := false
							for _, n := range names {
								dup = dup || n == fv
							}
							if !dup {
								names = append(names, fv)
							}
						}
					}
				}
				return true
			})
		}
		if t.events {
			names = append(names, "evs")
		}
		tuple := "tt"
		pat := "_"
		if len(names) == 1 {
			tuple, pat = names[0], names[0]
		} else if len(names) > 1 {
			tuple = "(" + strings.Join(names, ", ") + ")"
			pat = "'" + tuple
		}
		t.ends = append(t.ends, func() string { return "GVal " + tuple })
		th, err := t.seq(body)
		var el string
		if err == nil {
			var elseStmts []ast.Stmt
			switch e := els.(type) {
			case *ast.BlockStmt:
				elseStmts = e.List
			case *ast.IfStmt:
				elseStmts = []ast.Stmt{e}
			}
			el, err = t.seq(elseStmts)
		}
		t.ends = t.ends[:len(t.ends)-1]
		if err != nil {
			return "", err
		}
		r, err := t.seq(rest)
		if err != nil {
			return "", err
		}
		return gfWrap(binds, "glet "+pat+" := (if "+c+" then (\n"+th+"\n) else (\n"+el+"\n)) in\n"+r), nil
	}
	// short-circuit operators at the top of a condition whose right side can panic are unfolded by expr();
	binds, c, ty, err := t.expr(cond)
	if err != nil {
		return "", err
	}
	if ty != "bool" {
		return "", t.errf(cond, "condition of type %s", ty)
	}
	th, err := t.seq(append(append([]ast.Stmt{}, body...), rest...))
	if err != nil {
		return "", err
	}
	var elseStmts []ast.Stmt
	switch e := els.(type) {
	case nil:
	case *ast.BlockStmt:
		elseStmts = e.List
	case *ast.IfStmt:
		elseStmts = []ast.Stmt{e}
	}
	el, err := t.seq(append(append([]ast.Stmt{}, elseStmts...), rest...))
	if err != nil {
		return "", err
	}
	return gfWrap(binds, "if "+c+" then (\n"+th+"\n) else (\n"+el+"\n)"), nil
}

func (t *gfTr) switchStmt(x *ast.SwitchStmt, rest []ast.Stmt) (string, error) {
	var binds []gfBind
	tag := ""
	if x.Tag != nil {
		b, v, ty, err := t.expr(x.Tag)
		if err != nil {
			return "", err
		}
		if ty != "Z" {
			return "", t.errf(x, "switch on a %s", ty)
		}
		binds, tag = b, v
	}
	var def []ast.Stmt
	hasDef := false
	type arm struct {
		cond string
		body []ast.Stmt
	}
	arms := []arm{}
	for _, cs := range x.Body.List {
		cc := cs.(*ast.CaseClause)
		for _, st := range cc.Body {
			if b, ok := st.(*ast.BranchStmt); ok {
				return "", t.errf(b, "%s inside a switch", b.Tok)
			}
		}
		if cc.List == nil {
			def, hasDef = cc.Body, true
			continue
		}
		conds := []string{}
		for _, e := range cc.List {
			b, v, ty, err := t.expr(e)
			if err != nil {
				return "", err
			}
			if len(b) > 0 {
				return "", t.errf(e, "a case expression that can panic")
			}
			if tag != "" {
				if ty != "Z" {
					return "", t.errf(e, "case of type %s", ty)
				}
				v = "(" + tag + " =? " + v + ")"
			} else if ty != "bool" {
				return "", t.errf(e, "case of type %s", ty)
			}
			conds = append(conds, v)
		}
		c := conds[0]
		for _, o := range conds[1:] {
			c = "(orb " + c + " " + o + ")"
		}
		arms = append(arms, arm{c, cc.Body})
	}
	_ = hasDef
	out, err := t.seq(append(append([]ast.Stmt{}, def...), rest...))
	if err != nil {
		return "", err
	}
	for i := len(arms) - 1; i >= 0; i-- {
		b, err := t.seq(append(append([]ast.Stmt{}, arms[i].body...), rest...))
		if err != nil {
			return "", err
		}
		out = "if " + arms[i].cond + " then (\n" + b + "\n) else (\n" + out + "\n)"
	}
	return gfWrap(binds, out), nil
}

func (t *gfTr) assign(x *ast.AssignStmt, rest []ast.Stmt) (string, error) {
	info := t.pkg.TypesInfo
	if len(x.Lhs) > 1 && len(x.Rhs) == 1 {
		if c, ok := x.Rhs[0].(*ast.CallExpr); ok {
			if fn, ok := t.calleeObj(c).(*types.Func); ok {
				if cfg, ok := t.byObj[fn]; ok && len(cfg.Effects) == 0 && fn.Type().(*types.Signature).Results().Len() == len(x.Lhs) {
					binds, tmp, _, err := t.callTranslated(c, fn, cfg)
					if err != nil {
						return "", err
					}
					names := []string{}
					res := fn.Type().(*types.Signature).Results()
					for i, l := range x.Lhs {
						switch gfKind(res.At(i).Type()) {
						case "Z", "Dec", "Int", "bool", "err", "Coin", "Time":
						default:
							continue // a result the callee's translation drops
						}
						id, ok := l.(*ast.Ident)
						if !ok {
							return "", t.errf(x, "tuple assignment to a non-variable")
						}
						if id.Name == "_" {
							names = append(names, "_")
							continue
						}
						o := info.Defs[id]
						if o == nil {
							o = info.Uses[id]
						}
						names = append(names, t.nameOf(o))
					}
					r, err := t.seq(rest)
					return gfWrap(binds, "let '("+strings.Join(names, ", ")+") := "+tmp+" in\n"+r), err
				}
			}
		}
	}
	if len(x.Lhs) != 1 || len(x.Rhs) != 1 {
		return "", t.errf(x, "assignment `%s` with several operands is not a configured read statement", t.src(x))
	}
	lhsText := t.src(x.Lhs[0])
	if fv, ok := t.fieldVars[lhsText]; ok {
		b, v, _, err := t.expr(x.Rhs[0])
		if err != nil {
			return "", err
		}
		rhs := v
		switch x.Tok {
		case token.ASSIGN:
		case token.ADD_ASSIGN:
			rhs = "i64add " + fv + " " + v
		case token.SUB_ASSIGN:
			rhs = "i64sub " + fv + " " + v
		default:
			return "", t.errf(x, "assignment operator %s on a field", x.Tok)
		}
		r, err := t.seq(rest)
		return gfWrap(b, "let "+fv+" := "+rhs+" in\n"+r), err
	}
	// an assignment to something outside the function (a field behind a pointer, a map entry): a configured effect
	if ef := t.effectFor(lhsText); ef != nil {
		var b []gfBind
		v := ""
		for _, a := range ef.Args {
			if a == "$rhs" {
				var err error
				b, v, _, err = t.expr(x.Rhs[0])
				if err != nil {
					return "", err
				}
			}
		}
		_, ev, err := t.emitEvent(ef, v, x)
		if err != nil {
			return "", err
		}
		r, err := t.seq(rest)
		return gfWrap(b, ev+r), err
	}
	id, ok := x.Lhs[0].(*ast.Ident)
	if !ok {
		return "", t.errf(x, "assignment to `%s`", lhsText)
	}
	o := info.Defs[id]
	if o == nil {
		o = info.Uses[id]
	}
	if id.Name == "_" {
		return t.seq(rest)
	}
	if c, ok := x.Rhs[0].(*ast.CallExpr); ok {
		if ef := t.effectForCall(c); ef != nil && ef.Fallible == "" && gfKind(o.Type()) == "opaque" {
			_, ev, err := t.emitEvent(ef, "", x)
			if err != nil {
				return "", err
			}
			r, err := t.seq(rest)
			return ev + r, err
		}
	}
	// err := translatedFunctionWithEffects(...)
	if c, ok := x.Rhs[0].(*ast.CallExpr); ok {
		if pre, res, ok, err := t.callEffectful(c); ok || err != nil {
			if err != nil {
				return "", err
			}
			name := t.nameOf(o)
			r, err := t.seq(rest)
			return pre + "let " + name + " := " + res + " in\n" + r, err
		}
	}
	// err := fallibleEffect(...)
	if c, ok := x.Rhs[0].(*ast.CallExpr); ok {
		if ef := t.effectForCall(c); ef != nil && ef.Fallible != "" {
			in, ok := t.reads[ef.Fallible]
			if !ok {
				return "", t.errf(x, "the outcome %s of the effect is not an input", ef.Fallible)
			}
			_, ev, err := t.emitEvent(ef, "", x)
			if err != nil {
				return "", err
			}
			name := t.nameOf(o)
			r, err := t.seq(rest)
			return ev + "let " + name + " := " + in.Coq + " in\n" + r, err
		}
	}
	k := gfKind(o.Type())
	if k == "opaque" {
		hasCall := false
		ast.Inspect(x.Rhs[0], func(n ast.Node) bool {
			if _, ok := n.(*ast.CallExpr); ok {
				hasCall = true
			}
			return true
		})
		if !hasCall {
			return t.seq(rest) // a string or record copied around: nothing the translation models
		}
	}
	if k == "opaque" || k == "nil" {
		return "", t.errf(x, "variable %s of type %s is outside the fragment", id.Name, o.Type())
	}
	b, v, _, err := t.expr(x.Rhs[0])
	if err != nil {
		return "", err
	}
	name := t.nameOf(o)
	rhs := v
	switch x.Tok {
	case token.DEFINE, token.ASSIGN:
	case token.ADD_ASSIGN:
		rhs = "i64add " + name + " " + v
	case token.SUB_ASSIGN:
		rhs = "i64sub " + name + " " + v
	case token.MUL_ASSIGN:
		rhs = "i64mul " + name + " " + v
	default:
		return "", t.errf(x, "assignment operator %s", x.Tok)
	}
	if x.Tok != token.DEFINE && x.Tok != token.ASSIGN && k != "Z" {
		return "", t.errf(x, "compound assignment on %s", k)
	}
	r, err := t.seq(rest)
	return gfWrap(b, "let "+name+" := "+rhs+" in\n"+r), err
}

func gfFindDecl(p *packages.Package, recv, name string) *ast.FuncDecl {
	for _, f := range p.Syntax {
		for _, d := range f.Decls {
			fd, ok := d.(*ast.FuncDecl)
			if !ok || fd.Name.Name != name || fd.Body == nil {
				continue
			}
			r := ""
			if fd.Recv != nil && len(fd.Recv.List) == 1 {
				ty := fd.Recv.List[0].Type
				if st, ok := ty.(*ast.StarExpr); ok {
					ty = st.X
				}
				if id, ok := ty.(*ast.Ident); ok {
					r = id.Name
				}
			}
			if r == recv {
				return fd
			}
		}
	}
	return nil
}

func genGoFuncs(c *Ctx, group string) (string, string, error) {
	byObj := map[*types.Func]*gfFunc{}
	decls := map[*gfFunc]*ast.FuncDecl{}
	pkgs := map[*gfFunc]*packages.Package{}
	for i := range gfFuncs {
		f := &gfFuncs[i]
		if f.Group != group {
			continue
		}
		p := c.ByID[gfMod+f.Pkg]
		if p == nil {
			return "", "", fmt.Errorf("package %s not loaded", f.Pkg)
		}
		d := gfFindDecl(p, f.Recv, f.Name)
		if d == nil {
			return "", "", fmt.Errorf("function %s.%s not found in %s", f.Recv, f.Name, f.Pkg)
		}
		if o, ok := p.TypesInfo.Defs[d.Name].(*types.Func); ok {
			byObj[o] = f
		}
		decls[f], pkgs[f] = d, p
	}
	var out strings.Builder
	out.WriteString("From Coq Require Import ZArith List Bool String.\nFrom JK Require Import Base.Dec Base.GoSem.\nImport ListNotations.\nOpen Scope Z_scope.\n\n")
	done := map[*gfFunc]bool{}
	var emit func(f *gfFunc, stack []string) error
	emit = func(f *gfFunc, stack []string) error {
		if done[f] {
			return nil
		}
		for _, s := range stack {
			if s == f.Coq {
				return fmt.Errorf("recursion through %s", f.Coq)
			}
		}
		d, p := decls[f], pkgs[f]
		// dependencies first
		var depErr error
		ast.Inspect(d.Body, func(n ast.Node) bool {
			if ce, ok := n.(*ast.CallExpr); ok {
				var o types.Object
				switch fn := ce.Fun.(type) {
				case *ast.Ident:
					o = p.TypesInfo.Uses[fn]
				case *ast.SelectorExpr:
					o = p.TypesInfo.Uses[fn.Sel]
				}
				if fo, ok := o.(*types.Func); ok {
					if g, ok := byObj[fo]; ok && g != f && depErr == nil {
						depErr = emit(g, append(stack, f.Coq))
					}
				}
			}
			return true
		})
		if depErr != nil {
			return depErr
		}
		t := &gfTr{c: c, pkg: p, cfg: f, decl: d, byObj: byObj, names: map[types.Object]string{}, used: map[string]bool{}, reads: map[string]gfInput{}}
		t.events = len(f.Effects) > 0 || len(f.StmtEvents) > 0
		t.fieldVars = map[string]string{}
		for _, fv := range f.FieldVars {
			name := strings.NewReplacer(".", "_", "(", "", ")", "", "*", "").Replace(fv.Expr)
			t.fieldVars[gfNorm(fv.Expr)] = name
			t.used[name] = true
		}
		for _, in := range f.Inputs {
			t.reads[gfNorm(in.Expr)] = in
			t.used[in.Coq] = true
		}
		sig := p.TypesInfo.Defs[d.Name].Type().(*types.Signature)
		if len(f.Path) == 0 {
			// every parameter of a translated type must be an input (or be unused)
			for i := 0; i < sig.Params().Len(); i++ {
				pv := sig.Params().At(i)
				k := gfKind(pv.Type())
				if _, ok := t.reads[pv.Name()]; !ok && (k == "Z" || k == "bool" || k == "Dec" || k == "Int") {
					return fmt.Errorf("%s: parameter %s is not among the configured inputs", f.Name, pv.Name())
				}
			}
			for i := 0; i < sig.Results().Len(); i++ {
				k := gfKind(sig.Results().At(i).Type())
				switch k {
				case "Z", "Dec", "Int", "Coin", "Time":
					t.resTy = append(t.resTy, "Z")
					t.resKeep = append(t.resKeep, true)
				case "bool", "err":
					t.resTy = append(t.resTy, "bool")
					t.resKeep = append(t.resKeep, true)
				default:
					// a result the translation does not model (a response record): dropped from the result tuple
					t.resKeep = append(t.resKeep, false)
				}
			}
		}
		namedPre := ""
		if len(f.Path) == 0 {
			for i := 0; i < sig.Results().Len(); i++ {
				rv := sig.Results().At(i)
				if rv.Name() == "" || rv.Name() == "_" {
					continue
				}
				t.named = append(t.named, rv)
				if i < len(t.resKeep) && t.resKeep[i] {
					zero := "0"
					if k := gfKind(rv.Type()); k == "bool" {
						zero = "false"
					} else if k == "err" {
						zero = "true"
					}
					namedPre += "let " + t.nameOf(rv) + " := " + zero + " in\n"
				}
			}
		}
		stmts := d.Body.List
		for _, step := range f.Path {
			var found []ast.Stmt
			kind := ""
			ast.Inspect(&ast.BlockStmt{List: stmts}, func(n ast.Node) bool {
				if found != nil {
					return false
				}
				switch x := n.(type) {
				case *ast.CallExpr:
					if strings.HasPrefix(step, "funclit:") && t.src(x.Fun) == step[len("funclit:"):] {
						for _, a := range x.Args {
							if fl, ok := a.(*ast.FuncLit); ok {
								found, kind = fl.Body.List, "funclit"
								if fl.Type.Results != nil && len(fl.Type.Results.List) > 0 {
									kind = "funclit-with-results"
								}
								return false
							}
						}
					}
				case *ast.RangeStmt:
					if strings.HasPrefix(step, "range:") && t.src(x.X) == step[len("range:"):] {
						found, kind = x.Body.List, "range"
						return false
					}
				}
				return true
			})
			if found == nil || kind == "funclit-with-results" {
				return fmt.Errorf("%s: the unit %q was not found (or has results)", f.Name, step)
			}
			stmts, t.unitKind = found, kind
			t.resTy = nil
			if f.UnitExits {
				t.resTy = []string{"bool"}
			}
		}
		if f.RespField != "" {
			t.resTy = append([]string{"bool"}, t.resTy...)
		}
		body, err := t.seq(stmts)
		if err != nil {
			return err
		}
		for _, fv := range f.FieldVars {
			namedPre = "let " + t.fieldVars[gfNorm(fv.Expr)] + " := " + fv.Coq + " in\n" + namedPre
		}
		body = namedPre + body
		params := ""
		for _, in := range f.Inputs {
			params += " (" + in.Coq + " : " + in.Ty + ")"
		}
		rt := ""
		switch len(t.resTy) {
		case 0:
			rt = "unit"
		case 1:
			rt = t.resTy[0]
		default:
			rt = "(" + strings.Join(t.resTy, " * ") + ")"
		}
		if t.events {
			if len(t.resTy) == 0 {
				rt = "(list gev)"
			} else {
				rt = "(list gev * " + rt + ")"
			}
			body = "let evs := @nil gev in\n" + body
		}
		pos := p.Fset.Position(d.Pos())
		fmt.Fprintf(&out, "(* %s:%d  func %s %s *)\nDefinition %s%s : gres %s :=\n%s.\n\n", c.Rel(pos.Filename), pos.Line, f.Recv, f.Name, f.Coq, params, rt, body)
		done[f] = true
		return nil
	}
	for i := range gfFuncs {
		if gfFuncs[i].Group != group {
			continue
		}
		if err := emit(&gfFuncs[i], nil); err != nil {
			return "", "", err
		}
	}
	return gfGroups[group].file, out.String(), nil
}
